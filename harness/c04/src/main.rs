//! C04 — line breaking finds a solution iff one exists, and it is demerit-optimal.
//! Engine: BEX. Reference model: `reftex::kp::Oracle` (tex.web §813-875 by brute force over every
//! sequence of legal breakpoints). Two oracles per instance: end to end (Some iff feasible; the
//! returned sequence, re-evaluated by the model, is feasible and minimal; looseness per §875) and per
//! step through `debug::Logger` (every logged feasible breakpoint and every new active node carries
//! the numbers the model computes). DESIGN.md §3 C04.

#[path = "../../c15/src/conv.rs"]
mod conv;
mod selfval;

use boxworks::ds;
use boxworks_knuthplass::{debug, LineBreaker, Params};
use common::{Glue, GlueOrder, Scaled};
use conv::{ch, disc, glue, kern, pen};
use reftex::kp;
use serde_json::{json, Value};
use vcore::{catch, Acc, Ctx, Level};

const PT: i32 = 65536;
/// DESIGN §3 C04 X: lists with more legal breakpoints than this are outside the bound.
const MAX_BPS: usize = 12;

struct NoHyph;
impl boxworks::Hyphenator for NoHyph {
    fn hyphenate(&self, _l: &mut Vec<ds::Horizontal>) {}
}

// ------------------------------------------------------------------------------- alphabet

fn g(u: i32, w: i32, st: i32, sh: i32) -> ds::Horizontal {
    glue(w * u, st * u, GlueOrder::Normal, sh * u, GlueOrder::Normal)
}
fn math(after: bool) -> ds::Horizontal {
    ds::Horizontal::Math(if after { ds::Math::After } else { ds::Math::Before })
}

/// Inter-box items in which no legal breakpoint is directly followed by a discardable item.
fn clean_menu(u: i32) -> Vec<Vec<ds::Horizontal>> {
    vec![
        vec![g(u, 2, 1, 1)],
        vec![g(u, 2, 3, 0)],
        vec![g(u, 1, 0, 1)],
        vec![g(u, 2, 0, 0)],
        vec![g(u, 3, 2, 2)],
        vec![glue(u, u, GlueOrder::Fil, 0, GlueOrder::Normal)],
        vec![g(u, -1, 1, 1)],
        vec![glue(2 * u, u / 40, GlueOrder::Normal, u / 40, GlueOrder::Normal)],
        vec![pen(0)],
        vec![pen(50)],
        vec![pen(-50)],
        vec![pen(9999)],
        vec![pen(10000), g(u, 2, 1, 1)],
        vec![pen(-10000)],
        vec![disc("-", "", 0)],
        vec![disc("", "", 0)],
        vec![disc("-", "c", 0)],
        vec![disc("-", "b", 1), ch('c')],
        vec![],
        vec![kern(u, ds::KernKind::Normal)],
        vec![kern(u, ds::KernKind::Explicit)],
        vec![kern(u, ds::KernKind::Normal), g(u, 2, 1, 1)],
        vec![math(false), g(u, 2, 1, 1), math(true)],
        vec![g(u, 2, 1, 1), math(false), ch('c'), math(true)],
        vec![disc("", "c", 0)],
        vec![disc("", "", 1), ch('c')],
        // two replaced nodes, the second a font kern
        vec![disc("-", "b", 2), ch('c'), kern(u, ds::KernKind::Normal)],
        // the other kern kinds followed by glue: never breakpoints themselves (§866 tests subtype = explicit),
        // the glue after them is one (§868: kern_node with subtype <> explicit)
        vec![kern(u, ds::KernKind::Accent), g(u, 2, 1, 1)],
        vec![kern(u, ds::KernKind::Math), g(u, 2, 1, 1)],
    ]
}
/// Pre-break lists that are not empty but measure 0sp: \\hyphenpenalty applies (§869 tests `s = null`).
fn zero_width_prebreak_discs(u: i32) -> Vec<ds::Horizontal> {
    vec![
        conv::disc_of(vec![ch('|')], vec![], 0),
        conv::disc_of(vec![kern(0, ds::KernKind::Normal)], vec![], 0),
        conv::disc_of(vec![kern(2 * u, ds::KernKind::Normal), kern(-2 * u, ds::KernKind::Normal)], vec![ch('c')], 0),
    ]
}
/// The 13 items used where the full menu would be too wide (both kinds of discretionary: with and
/// without pre-break material, so that \\hyphenpenalty and \\exhyphenpenalty both matter).
fn reduced_menu(u: i32) -> Vec<Vec<ds::Horizontal>> {
    let m = clean_menu(u);
    let mut v: Vec<Vec<ds::Horizontal>> = [0usize, 1, 2, 4, 5, 9, 10, 13, 14, 15, 16, 17, 18].iter().map(|i| m[*i].clone()).collect();
    v.push(vec![zero_width_prebreak_discs(u).remove(0)]);
    v
}
/// The 8 items of the looseness probe.
fn looseness_menu(u: i32) -> Vec<Vec<ds::Horizontal>> {
    let m = clean_menu(u);
    [0usize, 1, 2, 4, 9, 14, 16, 18].iter().map(|i| m[*i].clone()).collect()
}
/// Items with a legal breakpoint directly followed by discardable material (glue glue, penalty
/// glue, explicit kern glue, math-off glue, discretionary glue): the D10 alphabet, plus six clean ones.
fn adjacent_menu(u: i32) -> Vec<Vec<ds::Horizontal>> {
    let m = clean_menu(u);
    let mut v = vec![
        vec![g(u, 1, 1, 0), g(u, 1, 0, 1)],
        vec![kern(u, ds::KernKind::Explicit), g(u, 2, 1, 1)],
        vec![pen(0), g(u, 1, 1, 1)],
        vec![pen(50), g(u, 2, 1, 1)],
        vec![pen(0), g(u, 1, 1, 1), pen(20), g(u, 1, 1, 1)],
        vec![disc("-", "", 0), g(u, 2, 1, 1)],
        vec![math(false), ch('c'), math(true), g(u, 2, 1, 1)],
        vec![g(u, 2, 1, 1), pen(-50), g(u, 1, 0, 0)],
        vec![kern(-u, ds::KernKind::Explicit), g(u, 2, 1, 1)],
        vec![g(u, 2, 1, 1), kern(u, ds::KernKind::Explicit), g(u, 1, 1, 1)],
        // empty post-break: the glue after the replaced node is discarded too (§840)
        vec![disc("-", "", 1), ch('c'), g(u, 2, 1, 1)],
    ];
    for i in [0usize, 1, 9, 14, 16, 18] {
        v.push(m[i].clone());
    }
    v
}

/// Glue whose stretch is infinite of every order, with both signs (so that totals of one order can
/// cancel on a line and a lower or a different order decides, §838/§852), a zero amount at an infinite
/// order, cancelling and mixed-order pairs inside one separator, a forced break (lines with a single
/// infinite glue), and a few finite items.
fn orders_menu(u: i32) -> Vec<Vec<ds::Horizontal>> {
    use GlueOrder::*;
    let inf = |w: i32, st: i32, o: GlueOrder| glue(w * u, st * u, o, 0, Normal);
    vec![
        vec![g(u, 2, 1, 1)],
        vec![inf(1, 1, Fil)],
        vec![inf(1, 1, Fill)],
        vec![inf(1, 1, Filll)],
        vec![inf(1, -1, Fil)],
        vec![inf(1, -1, Fill)],
        vec![inf(1, -1, Filll)],
        vec![pen(-10000)],
        vec![inf(2, 0, Filll)],
        vec![inf(1, 1, Fil), inf(1, -1, Fil)],
        vec![inf(1, 1, Fil), inf(1, 1, Filll)],
        vec![inf(1, 2, Fill), inf(1, -1, Fill)],
        vec![pen(50)],
        vec![disc("-", "", 0)],
    ]
}

/// The looseness menu plus two very stretchy glues, so that the last line (which has no infinite
/// stretch in the finite-end families) lands in different fitness classes depending on where it starts.
fn stretchy_menu(u: i32) -> Vec<Vec<ds::Horizontal>> {
    let mut m = looseness_menu(u);
    m.push(vec![g(u, 2, 6, 1)]);
    m.push(vec![g(u, 1, 4, 0)]);
    m
}

/// Discretionaries of both kinds (with pre-break material: \\hyphenpenalty; without: \\exhyphenpenalty),
/// with and without post-break and replaced material, next to two glues, a penalty and nothing.
fn discs_menu(u: i32) -> Vec<Vec<ds::Horizontal>> {
    vec![
        vec![disc("-", "", 0)],
        vec![disc("", "", 0)],
        vec![disc("-", "c", 0)],
        vec![disc("", "c", 0)],
        vec![disc("-", "b", 1), ch('c')],
        vec![disc("", "", 1), ch('c')],
        vec![g(u, 2, 1, 1)],
        vec![g(u, 2, 3, 0)],
        vec![pen(50)],
        vec![],
        vec![zero_width_prebreak_discs(u).remove(0)],
        vec![zero_width_prebreak_discs(u).remove(1)],
        vec![zero_width_prebreak_discs(u).remove(2)],
        // every element kind a discretionary list may hold (§841-842, §870-871): ligature, kern, box, rule
        vec![conv::disc_of(vec![conv::lig('f', "ff")], vec![kern(u, ds::KernKind::Normal)], 0)],
        vec![conv::disc_of(vec![ch('-')], vec![ds::Horizontal::HBox(ds::HBox { width: Scaled(2 * u), ..Default::default() })], 1), ds::Horizontal::Rule(ds::Rule { height: Scaled(u), width: Scaled(2 * u), depth: Scaled(0) })],
    ]
}

/// A kern among the nodes a discretionary replaces (§869 passes over them; afterwards prev_p is the
/// discretionary, so glue right after the replaced run is a legal breakpoint whatever the last replaced
/// node is), next to a few ordinary separators.
fn replaced_kerns_menu(u: i32) -> Vec<Vec<ds::Horizontal>> {
    vec![
        vec![disc("-", "", 1), kern(u, ds::KernKind::Explicit), g(u, 2, 1, 1)],
        vec![disc("-", "", 1), kern(u, ds::KernKind::Normal), g(u, 2, 1, 1)],
        vec![disc("-", "", 1), kern(u, ds::KernKind::Accent), g(u, 2, 1, 1)],
        vec![disc("", "c", 1), kern(u, ds::KernKind::Explicit), g(u, 2, 1, 1)],
        vec![disc("-", "b", 2), ch('c'), kern(u, ds::KernKind::Explicit)],
        vec![disc("-", "", 2), ch('c'), kern(u, ds::KernKind::Explicit), g(u, 1, 1, 1)],
        vec![g(u, 2, 1, 1)],
        vec![g(u, 2, 3, 0)],
        vec![pen(50)],
        vec![],
    ]
}

fn menu_by_name(name: &str, u: i32) -> Vec<Vec<ds::Horizontal>> {
    match name {
        "discs" => discs_menu(u),
        "replaced-kerns" => replaced_kerns_menu(u),
        "stretchy" => stretchy_menu(u),
        "orders" => orders_menu(u),
        "clean" => clean_menu(u),
        "reduced" => reduced_menu(u),
        "looseness" => looseness_menu(u),
        "adjacent" => adjacent_menu(u),
        _ => unreachable!(),
    }
}

/// How the list ends: the way `break_line` ends a paragraph (§816: \penalty10000 \parfillskip), or bare.
fn finish_list(list: &mut Vec<ds::Horizontal>, u: i32, bare: bool, ending: u8) {
    // ending 0: what the parameter set says (\parfillskip = 0pt plus 1fil, or bare);
    // 1..=3: \parfillskip stretching 1u at order fil, fill, filll; 4: 0pt plus -1fil; 5: bare
    let fill_skip = match ending {
        0 => (!bare).then_some((u, GlueOrder::Fil)),
        1 => Some((u, GlueOrder::Fil)),
        2 => Some((u, GlueOrder::Fill)),
        3 => Some((u, GlueOrder::Filll)),
        4 => Some((-u, GlueOrder::Fil)),
        6 => Some((u, GlueOrder::Normal)),
        7 => Some((0, GlueOrder::Normal)),
        _ => None,
    };
    if let Some((st, o)) = fill_skip {
        list.push(pen(10000));
        list.push(glue(0, st, o, 0, GlueOrder::Normal));
    }
    if ending == 8 {
        // a \parfillskip that can only shrink: 2u minus 2u
        list.push(pen(10000));
        list.push(glue(2 * u, 0, GlueOrder::Normal, 2 * u, GlueOrder::Normal));
    }
}

// ------------------------------------------------------------------------------- parameter sets

#[derive(Debug)]
struct PVar {
    params: Params,
    emergency: i32,
    bare_end: bool,
}
impl Clone for PVar {
    fn clone(&self) -> PVar {
        PVar { params: clone_params(&self.params), emergency: self.emergency, bare_end: self.bare_end }
    }
}

/// single changes that are also combined in pairs
const N_SINGLES: usize = 15;
/// all single changes (15..=17: skips with infinite stretch of order fill, filll and negative fil; 18: stretchy finite \\rightskip)
const N_ALL_SINGLES: usize = 45;
/// fields touched by single change k (two changes of the same field are not combined)
const FIELD_OF: [u8; N_SINGLES] = [0, 0, 1, 2, 3, 4, 4, 5, 5, 6, 7, 7, 8, 9, 3];

fn apply_single(v: &mut PVar, k: usize, u: i32) {
    let p = &mut v.params;
    match k {
        0 => p.adj_demerits = 0,
        1 => p.adj_demerits = -10000,
        2 => p.double_hyphen_demerits = 0,
        3 => p.final_hyphen_demerits = 20000,
        4 => p.line_penalty = 200,
        5 => p.hyphen_penalty = 500,
        6 => p.hyphen_penalty = -100,
        7 => p.ex_hyphen_penalty = -10000,
        8 => p.ex_hyphen_penalty = 10000,
        9 => p.left_skip = Glue { width: Scaled(u), stretch: Scaled(u), ..Default::default() },
        10 => p.right_skip = Glue { width: Scaled::ZERO, stretch: Scaled(2 * u), shrink: Scaled(u), ..Default::default() },
        11 => p.right_skip = Glue { width: Scaled::ZERO, stretch: Scaled(u), stretch_order: GlueOrder::Fil, ..Default::default() },
        12 => v.emergency = u,
        13 => v.bare_end = true,
        14 => p.line_penalty = -20,
        15 => p.right_skip = Glue { width: Scaled::ZERO, stretch: Scaled(u), stretch_order: GlueOrder::Fill, ..Default::default() },
        16 => p.left_skip = Glue { width: Scaled::ZERO, stretch: Scaled(u), stretch_order: GlueOrder::Filll, ..Default::default() },
        17 => p.right_skip = Glue { width: Scaled::ZERO, stretch: Scaled(-u), stretch_order: GlueOrder::Fil, ..Default::default() },
        // a ragged-right margin with generous finite stretch: every line, also a one-box line and the
        // last one, gets a finite badness that depends on where it starts
        18 => p.right_skip = Glue { width: Scaled::ZERO, stretch: Scaled(6 * u), shrink: Scaled(2 * u), ..Default::default() },
        // both sides of the limits in §859 (|line_penalty + b| >= 10000), §831/§869 (|penalty| >= 10000) and §836
        19 => p.line_penalty = 0,
        20 => p.line_penalty = -1,
        21 => p.line_penalty = 1,
        22 => p.hyphen_penalty = 9999,
        23 => p.ex_hyphen_penalty = -10001,
        24 => p.ex_hyphen_penalty = -9999,
        25 => p.adj_demerits = kp::AWFUL_BAD as i32,
        26 => p.adj_demerits = kp::AWFUL_BAD as i32 - 101,
        27 => p.hyphen_penalty = 10001,
        // the limits of §831 reached through the parameters (a discretionary's penalty), both sides and far beyond
        28 => p.hyphen_penalty = -20000,
        29 => p.hyphen_penalty = -10001,
        30 => p.hyphen_penalty = -10000,
        31 => p.hyphen_penalty = -9999,
        32 => p.hyphen_penalty = 10000,
        33 => p.hyphen_penalty = 20000,
        34 => p.ex_hyphen_penalty = -20000,
        35 => p.ex_hyphen_penalty = 9999,
        36 => p.ex_hyphen_penalty = 10001,
        37 => p.ex_hyphen_penalty = 20000,
        // |line_penalty + b| >= 10000 (§859) reached on both sides, through the parameter
        38 => p.line_penalty = -20000,
        39 => p.line_penalty = -10001,
        40 => p.line_penalty = -10000,
        41 => p.line_penalty = -9999,
        42 => p.line_penalty = 9999,
        43 => p.line_penalty = 10000,
        44 => p.line_penalty = 20000,
        _ => unreachable!(),
    }
}
/// 0 = plain defaults; 1..=45 = one change; then every pair of the first 15 changes that touch different fields.
fn pvars(u: i32, pairs: bool) -> Vec<(String, PVar)> {
    let base = PVar { params: Params::plain_tex_defaults(), emergency: 0, bare_end: false };
    let mut out = vec![("plain".to_string(), base.clone())];
    for k in 0..N_ALL_SINGLES {
        let mut v = base.clone();
        apply_single(&mut v, k, u);
        out.push((format!("change {k}"), v));
    }
    if pairs {
        for a in 0..N_SINGLES {
            for b in a + 1..N_SINGLES {
                if FIELD_OF[a] == FIELD_OF[b] {
                    continue;
                }
                let mut v = base.clone();
                apply_single(&mut v, a, u);
                apply_single(&mut v, b, u);
                out.push((format!("changes {a}+{b}"), v));
            }
        }
    }
    out
}

fn model_params(p: &Params, emergency: i32) -> kp::Params {
    kp::Params {
        line_penalty: p.line_penalty as i64,
        hyphen_penalty: p.hyphen_penalty as i64,
        ex_hyphen_penalty: p.ex_hyphen_penalty as i64,
        adj_demerits: p.adj_demerits as i64,
        double_hyphen_demerits: p.double_hyphen_demerits as i64,
        final_hyphen_demerits: p.final_hyphen_demerits as i64,
        looseness: p.looseness as i64,
        left_skip: conv::glue_spec(&p.left_skip),
        right_skip: conv::glue_spec(&p.right_skip),
        emergency_stretch: emergency as i64,
    }
}
fn glue_json(g: &Glue) -> Value {
    json!([g.width.0, g.stretch.0, g.stretch_order as u8, g.shrink.0, g.shrink_order as u8])
}
fn glue_from_json(v: &Value) -> Glue {
    let a: Vec<i64> = v.as_array().map(|a| a.iter().map(|x| x.as_i64().unwrap_or(0)).collect()).unwrap_or_else(|| vec![0; 5]);
    Glue { width: Scaled(a[0] as i32), stretch: Scaled(a[1] as i32), stretch_order: conv::order(a[2] as u64), shrink: Scaled(a[3] as i32), shrink_order: conv::order(a[4] as u64) }
}
fn params_json(p: &Params) -> Value {
    json!({"adj_demerits": p.adj_demerits, "double_hyphen_demerits": p.double_hyphen_demerits, "final_hyphen_demerits": p.final_hyphen_demerits,
        "line_penalty": p.line_penalty, "hyphen_penalty": p.hyphen_penalty, "ex_hyphen_penalty": p.ex_hyphen_penalty, "looseness": p.looseness,
        "left_skip": glue_json(&p.left_skip), "right_skip": glue_json(&p.right_skip)})
}
fn params_from_json(v: &Value) -> Params {
    let mut p = Params::plain_tex_defaults();
    let i = |k: &str, d: i32| v.get(k).and_then(|x| x.as_i64()).map(|x| x as i32).unwrap_or(d);
    p.adj_demerits = i("adj_demerits", p.adj_demerits);
    p.double_hyphen_demerits = i("double_hyphen_demerits", p.double_hyphen_demerits);
    p.final_hyphen_demerits = i("final_hyphen_demerits", p.final_hyphen_demerits);
    p.line_penalty = i("line_penalty", p.line_penalty);
    p.hyphen_penalty = i("hyphen_penalty", p.hyphen_penalty);
    p.ex_hyphen_penalty = i("ex_hyphen_penalty", p.ex_hyphen_penalty);
    p.looseness = i("looseness", p.looseness);
    if let Some(g) = v.get("left_skip") {
        p.left_skip = glue_from_json(g);
    }
    if let Some(g) = v.get("right_skip") {
        p.right_skip = glue_from_json(g);
    }
    p
}

// ------------------------------------------------------------------------------- one instance

struct Inst {
    list: Vec<ds::Horizontal>,
    unit: i32,
    /// line widths in sp
    widths: Vec<i32>,
    tolerance: i32,
    params: Params,
    emergency: i32,
    force: bool,
}

impl Inst {
    fn json(&self) -> Value {
        json!({"kind": "kp", "list": conv::list_json(&self.list), "unit": self.unit, "widths": self.widths, "tolerance": self.tolerance,
            "emergency_stretch": self.emergency, "force_solution": self.force, "params": params_json(&self.params), "text": conv::render(&self.list)})
    }
    fn from_json(v: &Value) -> Option<Inst> {
        Some(Inst {
            list: conv::list_from_json(&v["list"])?,
            unit: v["unit"].as_i64()? as i32,
            widths: v["widths"].as_array()?.iter().map(|x| x.as_i64().unwrap_or(0) as i32).collect(),
            tolerance: v["tolerance"].as_i64()? as i32,
            params: params_from_json(&v["params"]),
            emergency: v["emergency_stretch"].as_i64().unwrap_or(0) as i32,
            force: v["force_solution"].as_bool().unwrap_or(false),
        })
    }
}

enum Ev {
    Feasible { elem: usize, prev: usize, b: i32, p: i32, d: i32, artificial: bool },
    Node { index: usize, line: usize, fit: u8, hyph: bool, total: i32, prev: usize },
    Selected(usize),
    /// `log_attempt`: a new pass starts (node numbers restart)
    Attempt,
}
#[derive(Default)]
struct Log(Vec<Ev>);
impl debug::Logger for Log {
    fn log_attempt(&mut self, _a: debug::Attempt) {
        self.0.push(Ev::Attempt);
    }
    fn log_feasible_breakpoint(&mut self, _l: &[ds::Horizontal], fb: debug::FeasibleBreakpoint) {
        self.0.push(Ev::Feasible { elem: fb.elem_index, prev: fb.previous_node_index, b: fb.badness, p: fb.penalty, d: fb.demerits, artificial: fb.artificial_demerits });
    }
    fn log_new_active_node(&mut self, an: debug::NewActiveNode) {
        self.0.push(Ev::Node { index: an.node_index, line: an.line_number, fit: an.fitness_class, hyph: an.hyphenated, total: an.total_demerits, prev: an.previous_node_index });
    }
    fn log_selected_node(&mut self, node_index: usize) {
        self.0.push(Ev::Selected(node_index));
    }
}

#[derive(Clone, Copy)]
struct NodeInfo {
    elem: Option<usize>,
    line: usize,
    fit: u8,
    hyph: bool,
    total: i64,
    prev: usize,
}

/// What the per-step oracle found.
#[derive(Default)]
struct Steps {
    /// logged feasible breakpoints whose numbers were judged
    judged: u64,
    /// a reported number that is not the one TeX's definitions give (failure): (kind, text)
    value: Option<(String, String)>,
    /// the log could not be interpreted the way this harness reads it (numbering, order, bookkeeping
    /// fields); recorded as an outcome class, never a failure - see AUDIT.md
    structure: Option<String>,
}

/// The per-step oracle. What the Logger reports must be *true*: for every feasible breakpoint it
/// reports (position, predecessor), b, p and d are TeX's badness, penalty and demerits of that line,
/// the break is legal, does not pass a forced break and is within the threshold; for every active node
/// it reports, the fitness class and the total are the model's. Which breakpoints and nodes are
/// reported, in which order and under which numbers is not judged.
fn check_steps(o: &kp::Oracle, log: &[Ev], got: Option<&Vec<usize>>) -> Steps {
    let mut out = Steps::default();
    let mut table: std::collections::HashMap<usize, NodeInfo> = std::collections::HashMap::new();
    table.insert(0, NodeInfo { elem: None, line: 0, fit: kp::DECENT, hyph: false, total: 0, prev: 0 });
    // feasible breakpoints logged at the current position: (prev node, model fitness, model total)
    let mut pending: Vec<(usize, u8, i64)> = vec![];
    let mut cur_elem = usize::MAX;
    let bad = |b: i64| if b > reftex::arith::INF_BAD { "*".to_string() } else { b.to_string() };
    macro_rules! value {
        ($k:expr, $($t:tt)*) => {{ out.value = Some(($k.to_string(), format!($($t)*))); return out; }};
    }
    macro_rules! structure {
        ($($t:tt)*) => {{ out.structure = Some(format!($($t)*)); return out; }};
    }
    for ev in log {
        match ev {
            Ev::Feasible { elem, prev, b, p, d, artificial } => {
                if *elem != cur_elem {
                    pending.clear();
                    cur_elem = *elem;
                }
                let Some(pn) = table.get(prev).copied() else { structure!("a feasible breakpoint names a predecessor this harness has not seen") };
                let Some(a) = o.start_of(pn.elem) else { structure!("predecessor position unknown") };
                let Some(bi) = o.bp_at(*elem) else { value!("breakpoint", "a break is tried at node {elem}, which is not a legal breakpoint (TeX §866-869)") };
                if bi < a {
                    structure!("a break does not follow its predecessor");
                }
                if (a..bi).any(|f| o.bps[f].penalty <= kp::EJECT_PENALTY) {
                    value!("breakpoint", "the line @@{prev} -> node {elem} passes over a forced break");
                }
                out.judged += 1;
                let bp = o.bps[bi];
                let (mb, mfit) = o.fit(a, bi, pn.line + 1);
                if *artificial {
                    // §854: only in a forced final pass; demerits count as 0
                    pending.push((*prev, mfit, pn.total));
                    continue;
                }
                if *b as i64 != mb {
                    value!("badness", "@ node {elem} via @@{prev} (line {}): logged b={} p={p} d={d}, model b={} [line measures {:?}, width {}]", pn.line + 1, bad(*b as i64), bad(mb), o.meas[a][bi], o.line_width(pn.line + 1));
                }
                if mb > o.threshold || mb > reftex::arith::INF_BAD {
                    value!("feasibility", "@ node {elem} via @@{prev}: a break with badness {} is logged as feasible, threshold {}", bad(mb), o.threshold);
                }
                if *p as i64 != bp.penalty {
                    value!("penalty", "@ node {elem} via @@{prev}: logged p={p}, model p={}", bp.penalty);
                }
                let md = o.demerits(mb, &bp, pn.fit, mfit, pn.hyph);
                if *d as i64 != md {
                    value!("demerits", "@ node {elem} via @@{prev}: logged b={b} p={p} d={d}, model d={md} (fitness {} -> {mfit}, hyphenated {} -> {})", pn.fit, pn.hyph, bp.hyph);
                }
                pending.push((*prev, mfit, pn.total + md));
            }
            Ev::Node { index, line, fit, hyph, total, prev } => {
                if table.contains_key(index) {
                    structure!("a node number is reported twice");
                }
                let Some(pn) = table.get(prev).copied() else { structure!("an active node names a predecessor this harness has not seen") };
                // the feasible break (logged at the same position) that this node comes from
                let Some((_, mfit, mt)) = pending.iter().find(|(pp, _, _)| pp == prev).copied() else { structure!("an active node is reported without a feasible break from its predecessor at the position logged last") };
                if *fit != mfit {
                    value!("active node fitness class", "@@{index}: line {line}.{fit} t={total} -> @@{prev} at node {cur_elem}: the model's fitness class of that line is {mfit}");
                }
                if *total as i64 != mt {
                    value!("active node total", "@@{index}: line {line}.{fit} t={total} -> @@{prev} at node {cur_elem}: the model's total is {mt}");
                }
                let hy = o.bp_at(cur_elem).map(|b| o.bps[b].hyph).unwrap_or(false);
                if *line != pn.line + 1 || *hyph != hy {
                    // bookkeeping fields of the crate's own record type: not TeX quantities the statement names
                    out.structure.get_or_insert_with(|| "line number or hyphenation flag of an active node differ from the model's bookkeeping".into());
                }
                // the table carries the *model's* values, so later records are judged against TeX, not against the log
                table.insert(*index, NodeInfo { elem: Some(cur_elem), line: pn.line + 1, fit: mfit, hyph: hy, total: mt, prev: *prev });
            }
            Ev::Attempt => {}
            Ev::Selected(n) => {
                let mut chain = vec![];
                let mut i = *n;
                while i > 0 {
                    let Some(t) = table.get(&i) else { break };
                    chain.push(t.elem.unwrap_or(usize::MAX));
                    i = t.prev;
                }
                chain.reverse();
                if got != Some(&chain) {
                    out.structure.get_or_insert_with(|| "the returned breaks are not the predecessor chain of the node reported as selected".into());
                }
            }
        }
    }
    out
}

/// Triage aid: `C04_DEBUG_CLASS=<substring>` prints the first 8 cases of the matching outcome classes.
fn debug_class(cls: &str, text: &dyn Fn() -> String) {
    use std::sync::atomic::{AtomicU32, Ordering};
    static N: AtomicU32 = AtomicU32::new(0);
    if let Ok(want) = std::env::var("C04_DEBUG_CLASS") {
        if cls.contains(&want) && N.fetch_add(1, Ordering::Relaxed) < 8 {
            eprintln!("DEBUG {cls}: {}", text());
        }
    }
}

fn check_instance(idx: u64, inst: &Inst, acc: &mut Acc) {
    acc.eval();
    let font = conv::Font { unit: inst.unit };
    let mlist = match conv::to_model(&inst.list, &conv::font_fn(inst.unit)) {
        Ok(m) => m,
        Err(_) => {
            acc.skipped += 1;
            return;
        }
    };
    let mp = model_params(&inst.params, inst.emergency);
    let widths: Vec<i64> = inst.widths.iter().map(|w| *w as i64).collect();
    let o = kp::Oracle::new(&mlist, &mp, &widths, inst.tolerance as i64);
    if o.bps.len() > MAX_BPS {
        acc.skipped += 1;
        acc.count("skipped_more_than_12_breakpoints");
        return;
    }
    // the premise of the property
    if !o.monotone() {
        acc.skipped += 1;
        acc.count("skipped_non_monotone");
        return;
    }
    let br = o.brute();
    // TeX keeps totals below awful_bad = 2^30-1 (§833) and offers no defence beyond that
    if br.max_abs_total >= kp::AWFUL_BAD {
        acc.skipped += 1;
        acc.count("skipped_totals_reach_awful_bad");
        return;
    }
    if inst.force && br.feasible == 0 {
        // §854 artificial demerits: the property is stated for force_solution = false
        acc.skipped += 1;
        acc.count("skipped_forced_pass_without_feasible_sequence");
        return;
    }
    // expectation
    let loose = mp.looseness;
    let want: Option<(usize, i64)> = match kp::looseness_choice(&br.per_count, loose) {
        None => None,
        Some((lines, actual)) => {
            if loose != 0 && actual != loose && !inst.force {
                None
            } else {
                Some((lines, br.per_count[&lines]))
            }
        }
    };
    // N and the collision counters, all from the model
    if br.feasible >= 2 && br.totals_differ {
        acc.nontrivial();
    }
    if br.feasible >= 2 && (br.best_ties >= 2 || br.fitness_diverges) {
        acc.count("two_feasible_sequences_tie_or_differ_by_fitness_class");
    }
    if br.best_pays_adj {
        acc.count("optimum_pays_adj_demerits");
    }
    if br.best_uses_disc {
        acc.count("optimum_breaks_at_a_discretionary");
    }
    if br.best_consecutive_hyphens {
        acc.count("optimum_has_consecutive_hyphenated_breaks");
    }
    if let Some((_, seq)) = &br.best {
        // which orders of infinity set the lines of the optimum (from the model's measures), and
        // whether infinite glue is present on a line whose total of that order is zero
        let mut a = 0usize;
        let mut a_line = 1usize;
        let (mut line_penalty_low, mut line_penalty_high) = (false, false);
        let mut prev_node = 0usize;
        for bi in seq {
            let Some(b) = o.bp_at(*bi) else { break };
            let m = o.meas[a][b];
            let lw = o.line_width(a_line);
            a_line += 1;
            if m.w == lw {
                acc.count("optimum_line_fits_exactly");
                if m.sh == 0 {
                    acc.count("optimum_line_fits_exactly_with_zero_shrink");
                }
            }
            let (lb, _) = kp::fit_of(&m, lw);
            if mp.line_penalty + lb <= -10000 {
                line_penalty_low = true;
            }
            if mp.line_penalty + lb >= 10000 {
                line_penalty_high = true;
            }
            if lb == o.threshold && lb > 0 {
                acc.count("optimum_line_with_badness_equal_to_the_threshold");
            }
            let nz: Vec<usize> = (1..4).filter(|k| m.st[*k] != 0).collect();
            if nz.len() == 1 {
                acc.count(["", "optimum_line_set_by_fil_alone", "optimum_line_set_by_fill_alone", "optimum_line_set_by_filll_alone"][nz[0]]);
            }
            if nz.len() >= 2 {
                acc.count("optimum_line_with_two_infinite_orders");
            }
            let mut present = [false; 4];
            for n in &mlist[prev_node.min(mlist.len())..(*bi).min(mlist.len())] {
                if let kp::Node::Glue(gs) = n {
                    if gs.stretch != 0 {
                        present[gs.stretch_order] = true;
                    }
                }
            }
            for sk in [&mp.left_skip, &mp.right_skip] {
                if sk.stretch != 0 {
                    present[sk.stretch_order] = true;
                }
            }
            if (1..4).any(|k| present[k] && m.st[k] == 0) {
                acc.count("optimum_line_where_an_infinite_order_cancels");
                if nz.is_empty() {
                    acc.count("optimum_line_where_cancellation_leaves_finite_stretch_to_decide");
                }
            }
            a = b + 1;
            prev_node = *bi;
        }
        if line_penalty_low && br.feasible >= 2 && br.totals_differ {
            acc.count("line_penalty_plus_badness_at_or_below_minus_10000");
        }
        if line_penalty_high && br.feasible >= 2 && br.totals_differ {
            acc.count("line_penalty_plus_badness_at_or_above_10000");
        }
    }
    if (0..o.bps.len()).any(|b| { let bb = o.fit(0, b, 1).0; bb == o.threshold + 1 && bb <= reftex::arith::INF_BAD }) {
        acc.count("first_line_candidate_with_badness_one_above_the_threshold");
    }
    if inst.list.windows(2).any(|w| matches!(&w[0], ds::Horizontal::Kern(k) if matches!(k.kind, ds::KernKind::Accent | ds::KernKind::Math)) && matches!(&w[1], ds::Horizontal::Glue(_))) {
        acc.count("non_explicit_non_font_kern_followed_by_glue");
    }
    if mlist.iter().any(|n| matches!(n, kp::Node::Disc { pre, .. } if !pre.is_empty() && pre.iter().map(|e| e.disc_width()).sum::<i64>() == 0)) {
        acc.count("disc_with_nonempty_prebreak_of_zero_width");
        if mp.hyphen_penalty != mp.ex_hyphen_penalty {
            acc.count("…with hyphen_penalty different from ex_hyphen_penalty");
        }
    }
    {
        // a kern inside a replaced run
        let mut i = 0;
        while i < inst.list.len() {
            if let ds::Horizontal::Discretionary(d) = &inst.list[i] {
                let end = (i + 1 + d.replace_count as usize).min(inst.list.len());
                if inst.list[i + 1..end].iter().any(|n| matches!(n, ds::Horizontal::Kern(k) if k.kind == ds::KernKind::Explicit)) {
                    acc.count("explicit_kern_among_replaced_nodes");
                    if matches!(inst.list.get(end), Some(ds::Horizontal::Glue(_))) && matches!(inst.list.get(end.wrapping_sub(1)), Some(ds::Horizontal::Kern(k)) if k.kind == ds::KernKind::Explicit) {
                        acc.count("glue_right_after_a_replaced_explicit_kern");
                    }
                }
                i = end;
            } else {
                i += 1;
            }
        }
    }
    // the limits of §831 reached through a parameter, on a list that has a discretionary of the matching kind
    for n in &mlist {
        if let kp::Node::Disc { pre, .. } = n {
            let (p, hy) = if pre.is_empty() { (mp.ex_hyphen_penalty, false) } else { (mp.hyphen_penalty, true) };
            if p <= kp::EJECT_PENALTY {
                acc.count(if hy { "forced_break_at_discretionary_via_hyphen_penalty" } else { "forced_break_at_discretionary_via_ex_hyphen_penalty" });
                if p < kp::EJECT_PENALTY {
                    acc.count(if hy { "…hyphen_penalty strictly below -10000" } else { "…ex_hyphen_penalty strictly below -10000" });
                }
            }
            if p >= kp::INF_PENALTY {
                acc.count(if hy { "break_forbidden_at_discretionary_via_hyphen_penalty" } else { "break_forbidden_at_discretionary_via_ex_hyphen_penalty" });
            }
            break;
        }
    }
    if br.feasible == 0 {
        acc.count("no_feasible_sequence");
    }
    if let (Some((lines, _)), Some((_, best))) = (&want, &br.best) {
        if loose != 0 && *lines != best.len() {
            acc.count("looseness_changed_the_line_count");
        }
    }
    if let Some((lines, _)) = &want {
        if loose != 0 && br.last_fit_by_count.get(lines).map(|m| m.count_ones() >= 2).unwrap_or(false) {
            let best_lines = br.best.as_ref().map(|b| b.1.len() as i64).unwrap_or(0);
            if *lines as i64 - best_lines == loose || kp::looseness_choice(&br.per_count, loose).map(|c| c.1 == loose).unwrap_or(false) {
                acc.count("requested_line_count_reached_with_last_lines_of_two_fitness_classes");
                acc.count(if loose > 0 { "…the same with positive looseness" } else { "…the same with negative looseness" });
            }
        }
    }
    if loose != 0 && want.is_none() && br.feasible > 0 {
        acc.count("looseness_not_reachable");
    }
    if inst.widths.len() > 1 && br.best.as_ref().map(|b| b.1.len() > inst.widths.len()).unwrap_or(false) {
        acc.count("optimum_runs_past_the_listed_line_widths");
    }

    // the real thing
    let widths_s: Vec<Scaled> = inst.widths.iter().map(|w| Scaled(*w)).collect();
    let mut log = Log::default();
    let res = {
        let mut lb = LineBreaker { params: &inst.params, line_widths: &widths_s, line_indents: &[], debug_logger: Some(&mut log), hyphenator: &NoHyph };
        catch(|| lb.break_line_single_attempt(&inst.list, &font, inst.tolerance, Scaled(inst.emergency), inst.force))
    };
    let want_text = || match (&want, &br.best) {
        (None, _) => format!("None ({} feasible sequence(s){})", br.feasible, if loose != 0 { format!(", per line count {:?}, looseness {loose}", br.per_count) } else { String::new() }),
        (Some((lines, t)), Some((_, seq))) => format!("Some: {lines} line(s), total demerits {t} (e.g. {:?}; {} feasible, per line count {:?})", if loose == 0 { seq.clone() } else { vec![] }, br.feasible, br.per_count),
        _ => unreachable!(),
    };
    let got = match res {
        Ok(gv) => gv,
        Err(p) => {
            let cls = "FAIL panic";
            acc.class(cls);
            debug_class(cls, &|| format!("{} | {}", vcore::compact(&inst.json(), 1200), p.describe()));
            conv::witness::offer(acc, cls, idx, || vcore::Fail { idx, case: inst.json(), expected: want_text(), observed: p.describe(), note: "break_line_single_attempt panicked".into() });
            return;
        }
    };
    // end-to-end oracle
    let e2e: Option<(&'static str, String)> = match (&want, &got) {
        (None, None) => None,
        (Some(_), None) => Some(("impl None, model Some", "None".into())),
        (None, Some(gv)) => {
            // The statement's first sentence ("returns breakpoints iff some sequence is feasible") and
            // TeX §873 (a pass that misses the requested looseness is given up, unless it is the final
            // one) part ways when feasible sequences exist but the looseness is out of reach. Both
            // answers conform: None (TeX), or the closest line count with minimal demerits (what the
            // final pass returns). Recorded as an outcome class.
            let closest = kp::looseness_choice(&br.per_count, loose);
            match (o.eval(gv), closest) {
                (Ok(gt), Some((lines, _))) if loose != 0 && gv.len() == lines && gt == br.per_count[&lines] => {
                    acc.class("note: Some(closest line count, minimal demerits) although the requested looseness is out of reach (TeX §873 gives the pass up)");
                    None
                }
                (Ok(gt), _) => Some(("impl Some, model None", format!("Some({gv:?}), feasible with total {gt}, but neither None nor the closest line count with minimal demerits"))),
                (Err(e), _) => Some(("impl Some, model None", format!("Some({gv:?}): {e}"))),
            }
        }
        (Some((lines, t)), Some(gv)) => match o.eval(gv) {
            Err(e) => Some(("returned sequence infeasible", format!("Some({gv:?}): {e}"))),
            Ok(gt) if loose != 0 && gv.len() != *lines => Some(("wrong number of lines", format!("Some({gv:?}): {} lines, total {gt}", gv.len()))),
            Ok(gt) if gt != *t => Some((if gt > *t { "suboptimal" } else { "better than the model's optimum" }, format!("Some({gv:?}): total demerits {gt}"))),
            Ok(_) => None,
        },
    };
    // per-step oracle
    let st = check_steps(&o, &log.0, got.as_ref());
    acc.count_n("logged_feasible_breakpoints_checked", st.judged);
    if let Some(note) = &st.structure {
        acc.class(&format!("note: per-step log not interpreted: {note}"));
    }
    let step = st.value;
    if e2e.is_none() && step.is_none() {
        acc.class(&format!("ok {} lines={} bps={}", if got.is_some() { "Some" } else { "None" }, got.as_ref().map(|gv| gv.len()).unwrap_or(0).min(9), o.bps.len()));
        return;
    }
    let cls = format!("FAIL e2e: {} / step: {}{}", e2e.as_ref().map(|e| e.0).unwrap_or("ok"), step.as_ref().map(|s| s.0.as_str()).unwrap_or("ok"), if loose != 0 { format!(" [looseness {loose:+}]") } else { String::new() });
    acc.class(&cls);
    let observed = || format!("{}{}", e2e.as_ref().map(|e| e.1.clone()).unwrap_or_else(|| format!("{got:?} (end to end as expected)")), step.as_ref().map(|s| format!(" | per step: {}", s.1)).unwrap_or_default());
    debug_class(&cls, &|| format!("{} | want {} | got {}", vcore::compact(&inst.json(), 1500), want_text(), observed()));
    conv::witness::offer(acc, &cls, idx, || vcore::Fail { idx, case: inst.json(), expected: want_text(), observed: observed(), note: cls.clone() });
}

// ------------------------------------------------------------------------------- instance spaces

/// A product space of instances, index-addressable.
struct Space {
    name: &'static str,
    what: String,
    menu: &'static str,
    nb: usize,
    units: Vec<i32>,
    /// line widths in units
    widths: Vec<Vec<i32>>,
    tolerances: Vec<i32>,
    pairs: bool,
    /// which parameter sets (indices into `pvars`); empty = all
    pvar_sel: Vec<usize>,
    loosenesses: Vec<i32>,
    forces: Vec<bool>,
    /// how the list ends, see `finish_list`
    endings: Vec<u8>,
}

impl Space {
    fn n_pvars(&self) -> usize {
        if self.pvar_sel.is_empty() {
            pvars(PT, self.pairs).len()
        } else {
            self.pvar_sel.len()
        }
    }
    fn radices(&self) -> Vec<u64> {
        let k = menu_by_name(self.menu, PT).len() as u64;
        let mut r = vec![k; self.nb - 1];
        r.extend(vec![2u64; self.nb]);
        r.push(self.units.len() as u64);
        r.push(self.widths.len() as u64);
        r.push(self.tolerances.len() as u64);
        r.push(self.n_pvars() as u64);
        r.push(self.loosenesses.len() as u64);
        r.push(self.forces.len() as u64);
        r.push(self.endings.len() as u64);
        r
    }
    fn bounds(&self) -> String {
        format!(
            "{}: {} boxes (each 5u or 3u wide) joined by every choice from the '{}' menu ({} items); unit u in {:?} sp; line widths (in u) {:?}; tolerance in {:?}; {} parameter set(s){}; looseness in {:?}; force_solution in {:?}; list endings {:?} (0 = \\penalty10000 \\parfillskip plus 1fil or bare as the parameter set says, 1-3 = \\parfillskip plus 1u fil/fill/filll, 4 = plus -1u fil, 5 = bare, 6 = plus 1u finite, 7 = 0pt, 8 = 2u minus 2u)",
            self.what,
            self.nb,
            self.menu,
            menu_by_name(self.menu, PT).len(),
            self.units,
            self.widths,
            self.tolerances,
            self.n_pvars(),
            if self.pairs { " (plain, 45 single changes, all pairs of the first 15 that touch different fields)" } else { " (plain + single changes)" },
            self.loosenesses,
            self.forces,
            self.endings
        )
    }
    fn run(&self, ctx: &mut Ctx, family_no: u64) {
        let rad = self.radices();
        let n = vcore::product(&rad);
        let nb = self.nb;
        conv::witness::run_family(ctx, family_no, self.name, &self.bounds(), n, |r, acc| {
            // ds::Horizontal is not Sync: menus and parameter sets are rebuilt per range
            let menus: Vec<Vec<Vec<ds::Horizontal>>> = self.units.iter().map(|u| menu_by_name(self.menu, *u)).collect();
            let pv: Vec<Vec<(String, PVar)>> = self.units.iter().map(|u| pvars(*u, self.pairs)).collect();
            for i in r {
                let d = vcore::digits(i, &rad);
                let (seps, rest) = d.split_at(nb - 1);
                let (boxes, rest) = rest.split_at(nb);
                let ui = rest[0] as usize;
                let u = self.units[ui];
                let mut list = vec![];
                for k in 0..nb {
                    list.push(ch(if boxes[k] == 0 { 'a' } else { 'b' }));
                    if k + 1 < nb {
                        list.extend(menus[ui][seps[k] as usize].iter().cloned());
                    }
                }
                let pi = if self.pvar_sel.is_empty() { rest[3] as usize } else { self.pvar_sel[rest[3] as usize] };
                let var = &pv[ui][pi].1;
                finish_list(&mut list, u, var.bare_end, self.endings[rest[6] as usize]);
                let mut params = clone_params(&var.params);
                params.looseness = self.loosenesses[rest[4] as usize];
                let inst = Inst { list, unit: u, widths: self.widths[rest[1] as usize].iter().map(|w| w * u).collect(), tolerance: self.tolerances[rest[2] as usize], params, emergency: var.emergency, force: self.forces[rest[5] as usize] };
                check_instance(i, &inst, acc);
                if i % 400009 == 17 {
                    acc.sample(i, || json!({"list": conv::render(&inst.list), "widths": inst.widths, "tolerance": inst.tolerance, "parameter_set": pv[ui][pi].0}));
                }
            }
        });
    }
}

fn clone_params(p: &Params) -> Params {
    Params { left_skip: p.left_skip, right_skip: p.right_skip, par_fill_skip: p.par_fill_skip, emergency_stretch: p.emergency_stretch, ..*p }
}

const SP40: i32 = 40 * PT;

fn spaces(quick: bool) -> Vec<Space> {
    let w6 = vec![vec![9], vec![12], vec![7, 12], vec![12, 7], vec![12, 9, 7], vec![7, 12, 9]];
    vec![
        Space {
            name: "clean-core",
            what: "no breakpoint is followed by a discardable item".into(),
            menu: "clean",
            nb: if quick { 4 } else { 5 },
            units: vec![PT],
            widths: if quick { w6.clone() } else { vec![vec![9], vec![12], vec![12, 7], vec![7, 12, 9]] },
            tolerances: if quick { vec![-1, 0, 100, 200, 10000] } else { vec![0, 200, 10000] },
            pairs: false,
            pvar_sel: vec![0],
            loosenesses: vec![0],
            forces: vec![false],
            endings: vec![0],
        },
        Space {
            name: "clean-units",
            what: "the three branches of badness (u = 40pt, 1sp)".into(),
            menu: "clean",
            nb: if quick { 3 } else { 4 },
            units: vec![SP40, 1],
            widths: w6.clone(),
            tolerances: vec![0, 100, 200, 10000],
            pairs: false,
            pvar_sel: vec![0, 10, 13],
            loosenesses: vec![0],
            forces: vec![false],
            endings: vec![0],
        },
        Space {
            name: "clean-params",
            what: "demerit and penalty parameters, skips, emergency stretch, bare list end".into(),
            menu: "reduced",
            nb: 4,
            units: vec![PT],
            widths: vec![vec![9], vec![12], vec![12, 7]],
            tolerances: vec![200, 10000],
            pairs: !quick,
            pvar_sel: vec![],
            loosenesses: vec![0],
            forces: vec![false],
            endings: vec![0],
        },
        Space {
            name: "looseness",
            what: "non-zero looseness (§875), also in a forced pass when a feasible sequence exists".into(),
            menu: "looseness",
            nb: if quick { 4 } else { 5 },
            units: vec![PT],
            widths: vec![vec![9], vec![12], vec![16], vec![9, 12]],
            tolerances: vec![200, 10000],
            pairs: false,
            pvar_sel: vec![0],
            loosenesses: vec![1, -1, 2, -2],
            forces: vec![false, true],
            endings: vec![0],
        },
        Space {
            name: "looseness-finite-end",
            what: "non-zero looseness on paragraphs whose last line has no infinite stretch (bare end, \\parfillskip plus 1u, 0pt, 2u minus 2u): several final active nodes of one line count in different fitness classes (§875 must take the one with fewest demerits)".into(),
            menu: "stretchy",
            nb: if quick { 4 } else { 5 },
            units: vec![PT],
            widths: vec![vec![9], vec![12], vec![16]],
            tolerances: vec![200, 10000],
            pairs: false,
            pvar_sel: vec![0],
            loosenesses: vec![1, 2, -1],
            forces: vec![false, true],
            endings: vec![5, 6, 7, 8],
        },
        Space {
            name: "looseness-finite-end-ragged",
            what: "the same with \\rightskip 0pt plus 6u minus 2u, so that every line (also a one-box line and the last one) has a finite badness that depends on where it starts: negative looseness becomes reachable with competing final nodes".into(),
            menu: "stretchy",
            nb: if quick { 4 } else { 5 },
            units: vec![PT],
            widths: vec![vec![9], vec![12], vec![16]],
            tolerances: vec![10000],
            pairs: false,
            pvar_sel: vec![19],
            loosenesses: vec![-1, -2, 1],
            forces: vec![false],
            endings: vec![5, 6, 7, 8],
        },
        Space {
            name: "clean-finite-end",
            what: "looseness 0 on paragraphs whose last line has no infinite stretch".into(),
            menu: "reduced",
            nb: 4,
            units: vec![PT],
            widths: vec![vec![9], vec![12], vec![12, 7], vec![7, 12, 9]],
            tolerances: vec![0, 100, 200, 10000],
            pairs: false,
            pvar_sel: vec![0],
            loosenesses: vec![0],
            forces: vec![false],
            endings: vec![5, 6, 7, 8],
        },
        Space {
            name: "adjacent-discardables",
            what: "breakpoints directly followed by discardable items (glue glue, penalty glue, explicit kern glue, math glue, discretionary glue)".into(),
            menu: "adjacent",
            nb: if quick { 3 } else { 4 },
            units: vec![PT],
            widths: w6.clone(),
            tolerances: vec![100, 200, 10000],
            pairs: false,
            pvar_sel: vec![0, 10, 11],
            loosenesses: vec![0],
            forces: vec![false],
            endings: vec![0],
        },
        Space {
            name: "adjacent-discardables-4",
            what: "the same alphabet, one box more, plain parameters".into(),
            menu: "adjacent",
            nb: if quick { 4 } else { 5 },
            units: vec![PT],
            widths: if quick { vec![vec![9], vec![12, 7]] } else { vec![vec![9], vec![12], vec![12, 7]] },
            tolerances: vec![200, 10000],
            pairs: false,
            pvar_sel: vec![0],
            loosenesses: vec![0],
            forces: vec![false],
            endings: vec![0],
        },
        Space {
            name: "infinite-orders",
            what: "infinite stretch of every order (fil, fill, filll) as the only infinite stretch of a line, +/- amounts of one order cancelling on a line, mixed orders (TeX §838/§852: per-order totals, badness 0 iff some infinite total is non-zero)".into(),
            menu: "orders",
            nb: if quick { 4 } else { 5 },
            units: vec![PT],
            widths: vec![vec![9], vec![12], vec![16], vec![12, 7]],
            tolerances: vec![0, 200, 10000],
            pairs: false,
            pvar_sel: vec![0],
            loosenesses: vec![0],
            forces: vec![false],
            endings: vec![1, 2, 3, 4, 5],
        },
        Space {
            name: "infinite-orders-skips",
            what: "the same alphabet with \\rightskip / \\leftskip stretching at order fil, fill, filll and -1fil (background totals cancel against the line's glue)".into(),
            menu: "orders",
            nb: if quick { 3 } else { 4 },
            units: vec![PT],
            widths: vec![vec![9], vec![12], vec![16], vec![12, 7]],
            tolerances: vec![0, 200, 10000],
            pairs: false,
            pvar_sel: vec![12, 16, 17, 18],
            loosenesses: vec![0],
            forces: vec![false],
            endings: vec![1, 2, 3, 4, 5],
        },
        Space {
            name: "disc-penalties",
            what: "the penalty of a discretionary break comes from a parameter: \\hyphenpenalty and \\exhyphenpenalty each at -20000, -10001, -10000, -9999, 9999, 10000, 10001, 20000 (forced break at or below -10000, no break at or above 10000, §831), on lists that hold discretionaries of the matching kind; narrow (9u) and wide (20u) lines".into(),
            menu: "discs",
            nb: if quick { 4 } else { 5 },
            units: vec![PT],
            widths: vec![vec![9], vec![20]],
            tolerances: vec![200, 10000],
            pairs: false,
            pvar_sel: vec![0, 29, 30, 31, 32, 23, 33, 28, 34, 35, 24, 8, 25, 36, 9, 37, 38],
            loosenesses: vec![0],
            forces: vec![false],
            endings: vec![0],
        },
        Space {
            name: "replaced-kerns",
            what: "kerns of every kind among the nodes a discretionary replaces, followed by glue or not (TeX §869 passes over replaced nodes; glue after the run is a breakpoint because prev_p is the discretionary)".into(),
            menu: "replaced-kerns",
            nb: if quick { 4 } else { 5 },
            units: vec![PT],
            widths: vec![vec![9], vec![12], vec![12, 7]],
            tolerances: vec![200, 10000],
            pairs: false,
            pvar_sel: vec![0, 31],
            loosenesses: vec![0],
            forces: vec![false],
            endings: vec![0],
        },
        Space {
            name: "tolerance-above-inf-bad",
            what: "tolerance beyond inf_bad (TeX §863 clamps the threshold to 10000)".into(),
            menu: "reduced",
            nb: if quick { 3 } else { 4 },
            units: vec![PT],
            widths: w6,
            tolerances: vec![10001, 20000],
            pairs: false,
            pvar_sel: vec![0],
            loosenesses: vec![0],
            forces: vec![false],
            endings: vec![0],
        },
    ]
}

/// (shortfall t, stretch = shrink s): every small pair, and the neighbourhoods of every branch and
/// threshold of `badness` (§108: t = 7230584, s = 1663497, r = 1290) and of the fitness classes
/// (badness 12/13 and 99/100, §852-853).
fn badness_grid() -> Vec<(i64, i64)> {
    let mut v = vec![];
    for s in 1..=48i64 {
        for t in 0..=240i64 {
            v.push((t, s));
        }
    }
    for s in [65536i64, 98304, 131072, 1663496, 1663497, 1663498, 3000000] {
        let mut ts: Vec<i64> = vec![7230583, 7230584, 7230585, 7230586, 14461168];
        // r = 297 t / s: badness 12|13 at r = 148|149, 99|100 at r = 296|297; inf_bad beyond r = 1290
        for r in [0i64, 1, 2, 100, 147, 148, 149, 150, 295, 296, 297, 298, 640, 1288, 1289, 1290, 1291, 1292] {
            let t0 = (r * s + 296) / 297;
            for d in -1..=1 {
                ts.push(t0 + d);
            }
            // second branch of §108: r = t / (s / 297)
            let t1 = r * (s / 297);
            for d in -1..=1 {
                ts.push(t1 + d);
            }
        }
        ts.sort();
        ts.dedup();
        for t in ts {
            if (0..=15_000_000).contains(&t) {
                v.push((t, s));
            }
        }
    }
    v
}

/// One line `a glue a` whose glue has stretch = shrink = s, set in a line that is t too long
/// (stretching) or t too short (shrinking): the logged badness, fitness class and demerits of the
/// full line run through every branch of TeX's badness function.
fn badness_sweep(ctx: &mut Ctx, family_no: u64) {
    let grid = badness_grid();
    let n = grid.len() as u64 * 6;
    conv::witness::run_family(ctx, family_no, "badness-sweep", &format!("the line 'a glue a' (no \\parfillskip) with glue stretch = shrink = s and |line width - natural width| = t, stretching and shrinking: every (t, s) with s in 1..=48 sp, t in 0..=240 sp, and t within 1 sp of every threshold of badness() and of the fitness classes for s in {{1pt, 1.5pt, 2pt, 1663496..1663498 sp, 3000000 sp}} ({} pairs); tolerance 10000, exactly the badness of the full line, and one below it", grid.len()), n, |r, acc| {
        const G: i32 = 20_000_000;
        for i in r {
            let (t, s) = grid[(i / 6) as usize];
            let shrink = i % 2 == 1;
            // tolerance: 10000, exactly the badness of the full line, one below it
            let b = if shrink && t > s { 10000 } else { reftex::arith::badness(t, s) as i32 };
            let tolerance = [10000, b, b - 1][((i / 2) % 3) as usize];
            let list = vec![ch('a'), glue(G, s as i32, GlueOrder::Normal, s as i32, GlueOrder::Normal), ch('a')];
            let nat = G + 10;
            let width = if shrink { nat - t as i32 } else { nat + t as i32 };
            let inst = Inst { list, unit: 1, widths: vec![width], tolerance, params: Params::plain_tex_defaults(), emergency: 0, force: false };
            check_instance(i, &inst, acc);
        }
    });
}

/// Raw nodes for the `edges` family: lists are arbitrary sequences of these, not "boxes joined by
/// separators" - so a list may be empty, start with glue, a penalty, a kern or a discretionary, end in
/// two glues, contain nothing but discardable items, or open math without closing it.
fn edge_nodes(u: i32) -> Vec<ds::Horizontal> {
    vec![
        ch('a'),
        ch('b'),
        conv::chf('a', 1),
        g(u, 2, 1, 1),
        g(u, 0, 0, 0),
        pen(0),
        pen(-10000),
        pen(10000),
        pen(-9999),
        pen(-10001),
        pen(10001),
        pen(9999),
        disc("-", "", 0),
        kern(u, ds::KernKind::Explicit),
        kern(0, ds::KernKind::Normal),
        math(false),
        math(true),
        // every variant the breaker matches on: the other kern kinds, a ligature, a box, a rule
        kern(u, ds::KernKind::Accent),
        kern(u, ds::KernKind::Math),
        conv::lig('f', "ff"),
        ds::Horizontal::HBox(ds::HBox { width: Scaled(4 * u), ..Default::default() }),
        ds::Horizontal::Rule(ds::Rule { height: Scaled(u), width: Scaled(2 * u), depth: Scaled(0) }),
    ]
}

fn edges(ctx: &mut Ctx, family_no: u64, quick: bool) {
    let k = edge_nodes(PT).len() as u64;
    let maxlen = if quick { 4 } else { 5 };
    let nlists = vcore::strings_upto(k, maxlen);
    let widths: [&[i32]; 2] = [&[9], &[12, 7]];
    let tols = [200, 10000];
    let endings = [0u8, 5];
    let per = (widths.len() * tols.len() * endings.len()) as u64;
    conv::witness::run_family(ctx, family_no, "edges", &format!("every list of 0..={maxlen} raw nodes over {k} (a, b, a in a second font, glue, all-zero glue, \\penalty 0 / -10000 / 10000 / -9999 / -10001 / 10001 / 9999, discretionary, explicit kern, zero kern, math-on, math-off) - empty lists, lists that start with glue / a penalty / a kern, end in two glues, hold only discardable items; with and without \\penalty10000\\parfillskip; widths [9] and [12,7]; tolerance 200 and 10000"), nlists * per, |r, acc| {
        let nodes = edge_nodes(PT);
        for i in r {
            let (li, c) = (i / per, i % per);
            let mut list: Vec<ds::Horizontal> = vcore::nth_string(k, li).into_iter().map(|j| nodes[j as usize].clone()).collect();
            if list.is_empty() {
                acc.count("empty_list");
            }
            if matches!(list.first(), Some(ds::Horizontal::Glue(_) | ds::Horizontal::Penalty(_) | ds::Horizontal::Kern(_) | ds::Horizontal::Discretionary(_))) {
                acc.count("list_starts_with_a_discardable_or_a_breakpoint");
            }
            if list.len() >= 2 && matches!(&list[list.len() - 2..], [ds::Horizontal::Glue(_), ds::Horizontal::Glue(_)]) {
                acc.count("list_ends_in_two_glues");
            }
            if !list.is_empty() && list.iter().all(|n| !n.non_discardable()) {
                acc.count("list_of_discardable_items_only");
            }
            let d = vcore::digits(c, &[widths.len() as u64, tols.len() as u64, endings.len() as u64]);
            finish_list(&mut list, PT, false, endings[d[2] as usize]);
            let inst = Inst { list, unit: PT, widths: widths[d[0] as usize].iter().map(|w| w * PT).collect(), tolerance: tols[d[1] as usize], params: Params::plain_tex_defaults(), emergency: 0, force: false };
            check_instance(i, &inst, acc);
        }
    });
}

// ------------------------------------------------------------------------------- all attempts

/// `break_line_all_attempts` (named in the property's mechanism list): first pass at \pretolerance,
/// second at \tolerance (final if \emergencystretch = 0), third with the emergency stretch (§863).
/// The answer must be the optimum of the first pass that, by the model, has a feasible sequence; when
/// no pass has one, the forced rescue of §854 applies, which the property does not cover - then only
/// the legality of the returned breaks is required.
fn check_all_attempts(idx: u64, list: &[ds::Horizontal], widths: &[i32], pre_tolerance: i32, tolerance: i32, emergency: i32, acc: &mut Acc) {
    acc.eval();
    let font = conv::Font { unit: PT };
    let Ok(mlist) = conv::to_model(list, &conv::font_fn(PT)) else {
        acc.skipped += 1;
        return;
    };
    let mut params = Params::plain_tex_defaults();
    params.pre_tolerance = pre_tolerance;
    params.tolerance = tolerance;
    params.emergency_stretch = Scaled(emergency);
    let w64: Vec<i64> = widths.iter().map(|w| *w as i64).collect();
    // (threshold, emergency stretch, final pass)
    let mut passes = vec![(pre_tolerance, 0, false), (tolerance, 0, emergency == 0)];
    if emergency != 0 {
        passes.push((tolerance, emergency, true));
    }
    let mut expected: Option<(usize, kp::Oracle, kp::Brute)> = None;
    let mut last: Option<kp::Oracle> = None;
    for (k, (thr, em, _fin)) in passes.iter().enumerate() {
        let o = kp::Oracle::new(&mlist, &model_params(&params, *em), &w64, *thr as i64);
        if o.bps.len() > MAX_BPS || !o.monotone() {
            acc.skipped += 1;
            acc.count("skipped_non_monotone");
            return;
        }
        let br = o.brute();
        if br.max_abs_total >= kp::AWFUL_BAD {
            acc.skipped += 1;
            return;
        }
        if br.feasible > 0 {
            expected = Some((k, o, br));
            break;
        }
        last = Some(o);
    }
    match &expected {
        Some((k, _, br)) => {
            acc.count(["answer_from_the_first_pass", "answer_from_the_second_pass", "answer_from_the_emergency_pass"][*k]);
            if br.feasible >= 2 && br.totals_differ {
                acc.nontrivial();
            }
        }
        None => acc.count("no_pass_has_a_feasible_sequence_forced_rescue"),
    }
    let widths_s: Vec<Scaled> = widths.iter().map(|w| Scaled(*w)).collect();
    let mut log = Log::default();
    let mut hl = list.to_vec();
    let res = {
        let mut lb = LineBreaker { params: &params, line_widths: &widths_s, line_indents: &[], debug_logger: Some(&mut log), hyphenator: &NoHyph };
        catch(|| lb.break_line_all_attempts(&font, &NoHyph, &mut vec![], &mut hl))
    };
    let case = || json!({"kind": "all_attempts", "list": conv::list_json(list), "widths": widths, "pre_tolerance": pre_tolerance, "tolerance": tolerance, "emergency_stretch": emergency, "text": conv::render(list)});
    let want_text = || match &expected {
        Some((k, _, br)) => format!("the optimum of pass {} (total demerits {}, e.g. {:?})", k + 1, br.best.as_ref().map(|b| b.0).unwrap_or(0), br.best.as_ref().map(|b| b.1.clone())),
        None => "no pass has a feasible sequence: any legal sequence that ends the paragraph".to_string(),
    };
    let got = match res {
        Ok(gv) => gv,
        Err(p) => {
            acc.class("FAIL all-attempts panic");
            conv::witness::offer(acc, "FAIL all-attempts panic", idx, || vcore::Fail { idx, case: case(), expected: want_text(), observed: p.describe(), note: "break_line_all_attempts panicked".into() });
            return;
        }
    };
    let mut problem: Option<(String, String)> = None;
    match &expected {
        Some((k, o, br)) => {
            match o.eval(&got) {
                Err(e) => problem = Some(("returned sequence infeasible in the pass that must answer".into(), format!("{got:?}: {e}"))),
                Ok(t) if Some(t) != br.best.as_ref().map(|b| b.0) => problem = Some(("suboptimal".into(), format!("{got:?}: total demerits {t}"))),
                Ok(_) => {}
            }
            // per-step oracle on the log of the pass that answers (the last one logged)
            let segs: Vec<&[Ev]> = log.0.split(|e| matches!(e, Ev::Attempt)).collect();
            if problem.is_none() && segs.len() == k + 2 {
                let st = check_steps(o, segs[k + 1], Some(&got));
                acc.count_n("logged_feasible_breakpoints_checked", st.judged);
                if let Some(v) = st.value {
                    problem = Some((format!("step: {}", v.0), v.1));
                }
            } else if problem.is_none() {
                acc.class("note: number of logged attempts differs from the model's pass count");
            }
        }
        None => {
            // legality only
            let o = last.as_ref().unwrap();
            let n = mlist.len();
            let mut prev = 0usize;
            let mut bad = got.last() != Some(&n);
            for b in &got {
                match o.bp_at(*b) {
                    Some(bi) if bi >= prev => {
                        bad |= (prev..bi).any(|f| o.bps[f].penalty <= kp::EJECT_PENALTY);
                        prev = bi + 1;
                    }
                    _ => bad = true,
                }
            }
            if bad {
                problem = Some(("forced rescue returns an illegal sequence".into(), format!("{got:?}")));
            }
        }
    }
    match problem {
        None => acc.class(&format!("ok all-attempts pass={}", expected.as_ref().map(|e| e.0 + 1).unwrap_or(0))),
        Some((kind, obs)) => {
            let cls = format!("FAIL all-attempts: {kind}");
            acc.class(&cls);
            debug_class(&cls, &|| format!("{} | want {} | got {obs}", vcore::compact(&case(), 1500), want_text()));
            conv::witness::offer(acc, &cls, idx, || vcore::Fail { idx, case: case(), expected: want_text(), observed: obs.clone(), note: cls.clone() });
        }
    }
}

const ATTEMPT_CONFIGS: [(i32, i32, i32); 7] = [(100, 200, 0), (-1, 200, 0), (0, 100, 1), (100, 10000, 0), (50, 100, 2), (200, 100, 3), (20000, 200, 0)];

fn all_attempts(ctx: &mut Ctx, family_no: u64, quick: bool) {
    let nb = if quick { 4 } else { 5 };
    let k = reduced_menu(PT).len() as u64;
    let mut rad = vec![k; nb - 1];
    rad.extend(vec![2u64; nb]);
    let widths: [&[i32]; 3] = [&[9], &[12], &[12, 7]];
    rad.push(widths.len() as u64);
    rad.push(ATTEMPT_CONFIGS.len() as u64);
    rad.push(2);
    let n = vcore::product(&rad);
    conv::witness::run_family(ctx, family_no, "all-attempts", &format!("break_line_all_attempts on {nb} boxes joined by the 'reduced' menu, widths [9], [12], [12,7], (pretolerance, tolerance, emergency stretch in u) in {ATTEMPT_CONFIGS:?}, with \\parfillskip and bare end"), n, |r, acc| {
        let menu = reduced_menu(PT);
        for i in r {
            let d = vcore::digits(i, &rad);
            let mut list = vec![];
            for b in 0..nb {
                list.push(ch(if d[nb - 1 + b] == 0 { 'a' } else { 'b' }));
                if b + 1 < nb {
                    list.extend(menu[d[b] as usize].iter().cloned());
                }
            }
            let rest = &d[2 * nb - 1..];
            finish_list(&mut list, PT, false, if rest[2] == 0 { 0 } else { 5 });
            let (pt, tol, em) = ATTEMPT_CONFIGS[rest[1] as usize];
            let w: Vec<i32> = widths[rest[0] as usize].iter().map(|w| w * PT).collect();
            check_all_attempts(i, &list, &w, pt, tol, em * PT, acc);
        }
    });
}

fn main() {
    let mut ctx = Ctx::new("C04", Level::Exploration);
    ctx.assume("the premise of the property is checked per instance by the model: for every line start and every line number, 'the line is overfull' is upward closed in the line end; other instances are skipped and counted (skipped_non_monotone)");
    ctx.assume("a line's width, stretch and shrink are what TeX's try_break measures (§823, §837-844): background + totals up to the break - totals up to the previous break - the discardable items that follow the previous break; this is the definition the demerits of the property refer to");
    ctx.assume("lists have at most 12 legal breakpoints (every sequence of them is enumerated); glue in a paragraph has finite shrink (§825 makes anything else an error); discretionary lists and replaced runs hold characters, ligatures, kerns of every kind, boxes and rules (§869-871)");
    ctx.assume("total demerits stay below awful_bad = 2^30-1 (§833; TeX itself has no defence beyond it): instances where the total of some feasible prefix reaches it are skipped and counted; |adj_demerits| itself may be as large as awful_bad (§836 clamps the threshold)");
    ctx.assume("force_solution = true is only exercised when a feasible sequence exists (the artificial-demerits rescue of §854 is outside the property, which is stated for force_solution = false)");
    ctx.assume("per-step oracle (debug::Logger is listed under observe_at): what the Logger reports must be true - b, p, d of every reported feasible breakpoint and the fitness class and total of every reported active node are recomputed by the model from (predecessor, position); legality of the break, forced breaks and the threshold are enforced. Which breakpoints/nodes are reported, their order, the node numbers, the line-number/hyphenation bookkeeping fields and log_selected_node are not judged (recorded as 'note:' outcome classes). The table of active nodes carries the model's values, not the logged ones");

    if let Some((_fam, case)) = ctx.replay_case() {
        let mut acc = Acc::default();
        if case["kind"] == "all_attempts" {
            let list = conv::list_from_json(&case["list"]).unwrap_or_default();
            let w: Vec<i32> = case["widths"].as_array().map(|a| a.iter().map(|x| x.as_i64().unwrap_or(0) as i32).collect()).unwrap_or_default();
            let gi = |k: &str| case[k].as_i64().unwrap_or(0) as i32;
            check_all_attempts(0, &list, &w, gi("pre_tolerance"), gi("tolerance"), gi("emergency_stretch"), &mut acc);
            conv::witness::collect(&mut acc, 0);
            ctx.finish_replay(acc);
        }
        match Inst::from_json(&case) {
            Some(inst) => check_instance(0, &inst, &mut acc),
            None => {
                eprintln!("replay: cannot decode the case");
                std::process::exit(2);
            }
        }
        conv::witness::collect(&mut acc, 0);
        ctx.finish_replay(acc);
    }

    let sv = selfval::run(&mut ctx);
    ctx.extra("model_self_validation", sv);

    let quick = ctx.quick();
    let sp = spaces(quick);
    for (k, s) in sp.iter().enumerate() {
        s.run(&mut ctx, k as u64);
    }
    badness_sweep(&mut ctx, sp.len() as u64);
    edges(&mut ctx, sp.len() as u64 + 1, quick);
    all_attempts(&mut ctx, sp.len() as u64 + 2, quick);

    ctx.require("two_feasible_sequences_tie_or_differ_by_fitness_class", "two or more feasible sequences tie for the optimum, or some breakpoint is reached in two fitness classes");
    ctx.require("optimum_pays_adj_demerits", "the optimum contains adjacent lines of incompatible fitness classes");
    ctx.require("optimum_breaks_at_a_discretionary", "the optimum uses a discretionary break");
    ctx.require("optimum_has_consecutive_hyphenated_breaks", "the optimum has two hyphenated breaks in a row (double- or final-hyphen demerits paid)");
    ctx.require("looseness_changed_the_line_count", "non-zero looseness selects a different number of lines than the optimum has");
    ctx.require("requested_line_count_reached_with_last_lines_of_two_fitness_classes", "the requested looseness is reached and at least two feasible sequences of that line count end in last lines of different fitness classes (several final active nodes compete in §875)");
    ctx.require("…the same with positive looseness", "the previous counter restricted to looseness > 0");
    ctx.require("…the same with negative looseness", "the previous counter restricted to looseness < 0");
    ctx.require("looseness_not_reachable", "the requested looseness cannot be reached although feasible sequences exist");
    ctx.require("no_feasible_sequence", "no sequence of breaks is feasible (the answer must be None)");
    ctx.require("optimum_runs_past_the_listed_line_widths", "the optimum has more lines than the width sequence lists (line classes merge)");
    ctx.require("optimum_line_set_by_fil_alone", "a line of the optimum whose only non-zero infinite stretch total is fil");
    ctx.require("optimum_line_set_by_fill_alone", "a line of the optimum whose only non-zero infinite stretch total is fill");
    ctx.require("optimum_line_set_by_filll_alone", "a line of the optimum whose only non-zero infinite stretch total is filll");
    ctx.require("optimum_line_with_two_infinite_orders", "a line of the optimum with non-zero totals at two infinite orders");
    ctx.require("optimum_line_where_an_infinite_order_cancels", "a line of the optimum carries infinite glue of an order whose total on that line is zero");
    ctx.require("optimum_line_where_cancellation_leaves_finite_stretch_to_decide", "every infinite total of such a line is zero: the finite stretch decides the badness");
    ctx.require("optimum_line_fits_exactly", "a line of the optimum has exactly the line width (badness 0 by t = 0)");
    ctx.require("optimum_line_fits_exactly_with_zero_shrink", "the same with no shrinkability at all (§853: 0 > 0 is false, the line is not overfull)");
    ctx.require("optimum_line_with_badness_equal_to_the_threshold", "a line of the optimum whose badness equals the threshold exactly");
    ctx.require("first_line_candidate_with_badness_one_above_the_threshold", "a candidate first line whose badness is exactly one above the threshold (must not be feasible)");
    ctx.require("empty_list", "the empty horizontal list");
    ctx.require("list_starts_with_a_discardable_or_a_breakpoint", "a list whose first node is glue, a penalty, a kern or a discretionary");
    ctx.require("list_ends_in_two_glues", "a list whose last two nodes are glue");
    ctx.require("list_of_discardable_items_only", "a non-empty list without any non-discardable item");
    ctx.require("answer_from_the_first_pass", "break_line_all_attempts: the first pass has a feasible sequence");
    ctx.require("answer_from_the_second_pass", "… the first pass has none, the second has");
    ctx.require("answer_from_the_emergency_pass", "… only the pass with the emergency stretch has");
    ctx.require("no_pass_has_a_feasible_sequence_forced_rescue", "… no pass has one (forced rescue, legality only)");
    ctx.require("forced_break_at_discretionary_via_hyphen_penalty", "the first discretionary of the list has pre-break material and \\hyphenpenalty <= -10000");
    ctx.require("forced_break_at_discretionary_via_ex_hyphen_penalty", "the first discretionary of the list has no pre-break material and \\exhyphenpenalty <= -10000");
    ctx.require("…hyphen_penalty strictly below -10000", "the same with \\hyphenpenalty < -10000 (the clamp of §831 is needed)");
    ctx.require("…ex_hyphen_penalty strictly below -10000", "the same with \\exhyphenpenalty < -10000");
    ctx.require("break_forbidden_at_discretionary_via_hyphen_penalty", "\\hyphenpenalty >= 10000 on a list with a discretionary that has pre-break material");
    ctx.require("break_forbidden_at_discretionary_via_ex_hyphen_penalty", "\\exhyphenpenalty >= 10000 on a list with a discretionary without pre-break material");
    ctx.require("non_explicit_non_font_kern_followed_by_glue", "an accent or math kern directly followed by glue (not a breakpoint, §866)");
    ctx.require("disc_with_nonempty_prebreak_of_zero_width", "a discretionary whose pre-break list is not empty but measures 0sp");
    ctx.require("…with hyphen_penalty different from ex_hyphen_penalty", "the same with the two penalties different, so the choice is visible");
    ctx.require("explicit_kern_among_replaced_nodes", "an explicit kern inside the run a discretionary replaces");
    ctx.require("glue_right_after_a_replaced_explicit_kern", "glue directly after a replaced run that ends in an explicit kern");
    ctx.require("line_penalty_plus_badness_at_or_below_minus_10000", "a line of the optimum has line_penalty + badness <= -10000 (charged 10^8, §859) and feasible sequences differ in demerits");
    ctx.require("line_penalty_plus_badness_at_or_above_10000", "the same on the positive side");
    ctx.require("skipped_non_monotone", "the model detects instances outside the monotonicity premise");
    ctx.require("logged_feasible_breakpoints_checked", "feasible breakpoints reported through debug::Logger and checked against the model");
    ctx.finish("one evaluation = one call of break_line_single_attempt on an enumerated (list, line widths, tolerance, parameters) instance, judged end to end against the brute-force optimum over every sequence of legal breakpoints and per step against the model's badness/penalty/demerits for every logged feasible breakpoint; non-trivial = at least two feasible sequences with different total demerits");
}
