//! Model self-validation for `reftex::kp` (line breaking part): the repository's golden
//! `\tracingparagraphs` logs and typeset paragraphs were recorded from real TeX (see
//! crates/boxworks-knuthplass/testdata/README.md). They are replayed through the *model*:
//!
//! 1. every `@ via @@n b= p= d=` record: the model's §859 demerits, computed from the recorded
//!    badness and penalty, the predecessor's recorded fitness class and hyphenation, must be the
//!    recorded `d`; every `@@k: line l.f t= -> @@n` record must be explained by such a record with
//!    `t = t(n) + d`, and `f` must be the class §852-853 assign to the recorded badness;
//! 2. the lines TeX finally chose (the `*_want.txt` of the same test, cmr10 metrics read by the
//!    model's own TFM reader): the model's measure of each line and §851-853 must give the badness
//!    and fitness class TeX logged for that line.
//!
//! Any disagreement is a machinery error: the check gives no verdict with an unbound model.

use crate::conv;
use boxworks::ds;
use reftex::kp;
use serde_json::{json, Value};
use vcore::Ctx;

#[derive(Clone, Copy, PartialEq, Debug)]
enum Kind {
    Plain,
    Disc,
    Par,
}
#[derive(Clone, Debug)]
struct Feas {
    kind: Kind,
    prev: usize,
    b: Option<i64>,
    p: i64,
    d: Option<i64>,
}
#[derive(Clone, Debug)]
struct Node {
    line: usize,
    fit: u8,
    hyph: bool,
    total: i64,
    prev: usize,
    /// (badness, kind) of the feasible break that created the node
    via: Option<(Option<i64>, Kind)>,
    at_par: bool,
}

fn num(s: &str) -> Option<i64> {
    s.trim().parse().ok()
}

/// One pass of a log: the node table (index = @@ number).
fn replay_pass(name: &str, lines: &[&str], p: &kp::Params, errors: &mut Vec<String>) -> (Vec<Node>, u64) {
    let mut nodes = vec![Node { line: 0, fit: kp::DECENT, hyph: false, total: 0, prev: 0, via: None, at_par: false }];
    let mut group: Vec<Feas> = vec![];
    let mut checked = 0u64;
    for l in lines {
        let l = l.trim();
        if let Some(rest) = l.strip_prefix("@@") {
            // @@k: line l.f[-] t=T -> @@n
            let parsed = (|| {
                let (k, rest) = rest.split_once(": line ")?;
                let (lf, rest) = rest.split_once(" t=")?;
                let (t, n) = rest.split_once(" -> @@")?;
                let hyph = lf.ends_with('-');
                let (ln, f) = lf.trim_end_matches('-').split_once('.')?;
                Some((num(k)? as usize, num(ln)? as usize, num(f)? as u8, hyph, num(t)?, num(n)? as usize))
            })();
            let Some((k, ln, f, hyph, t, n)) = parsed else {
                errors.push(format!("{name}: cannot parse {l:?}"));
                continue;
            };
            if k != nodes.len() || n >= nodes.len() {
                errors.push(format!("{name}: node numbering at {l:?}"));
                continue;
            }
            let pn = nodes[n].clone();
            let hit = group.iter().find(|r| r.prev == n && r.d.map(|d| pn.total + d == t).unwrap_or(true));
            match hit {
                None => errors.push(format!("{name}: {l:?} is explained by no feasible break of its group")),
                Some(r) => {
                    let rh = r.kind != Kind::Plain;
                    if rh != hyph || ln != pn.line + 1 {
                        errors.push(format!("{name}: {l:?}: hyphenation flag or line number differ from the model's bookkeeping"));
                    }
                    if let (Some(b), Some(d)) = (r.b, r.d) {
                        let md = kp::demerits(p, b, r.p, pn.fit, f, pn.hyph && rh, r.kind == Kind::Par);
                        let class_ok = if b <= 12 { f == kp::DECENT } else { f == kp::TIGHT || (b > 99 && f == kp::VERY_LOOSE) || (b <= 99 && f == kp::LOOSE) };
                        if md != d || !class_ok {
                            errors.push(format!("{name}: {l:?} via b={b} p={} d={d}: model demerits {md}, class consistent with badness: {class_ok}", r.p));
                        }
                    }
                    nodes.push(Node { line: ln, fit: f, hyph, total: t, prev: n, via: Some((r.b, r.kind)), at_par: r.kind == Kind::Par });
                }
            }
        } else if l.starts_with('@') && l.contains(" via @@") {
            // @[\par|\discretionary] via @@n b=B p=P d=D
            let parsed = (|| {
                let (head, rest) = l[1..].split_once(" via @@")?;
                let kind = match head.trim() {
                    "" => Kind::Plain,
                    "\\par" => Kind::Par,
                    "\\discretionary" => Kind::Disc,
                    _ => return None,
                };
                let (n, rest) = rest.split_once(" b=")?;
                let (b, rest) = rest.split_once(" p=")?;
                let (pp, d) = rest.split_once(" d=")?;
                Some(Feas { kind, prev: num(n)? as usize, b: num(b), p: num(pp)?, d: num(d) })
            })();
            let Some(r) = parsed else {
                errors.push(format!("{name}: cannot parse {l:?}"));
                continue;
            };
            if r.prev >= nodes.len() {
                errors.push(format!("{name}: {l:?} names an unknown node"));
                continue;
            }
            // a record that never becomes a node: its demerits must be the model's for one of the
            // fitness classes its badness allows
            if let (Some(b), Some(d)) = (r.b, r.d) {
                let pn = &nodes[r.prev];
                let classes: &[u8] = if b <= 12 { &[kp::DECENT] } else if b <= 99 { &[kp::LOOSE, kp::TIGHT] } else { &[kp::VERY_LOOSE, kp::TIGHT] };
                let rh = r.kind != Kind::Plain;
                if !classes.iter().any(|f| kp::demerits(p, b, r.p, pn.fit, *f, pn.hyph && rh, r.kind == Kind::Par) == d) {
                    errors.push(format!("{name}: {l:?}: the model's demerits differ for every fitness class the badness allows"));
                }
                checked += 1;
            }
            group.push(r);
        } else {
            // a passage of text: the next records belong to another break position
            group.clear();
        }
    }
    (nodes, checked)
}

fn defaults() -> kp::Params {
    kp::Params { line_penalty: 10, hyphen_penalty: 50, ex_hyphen_penalty: 50, adj_demerits: 10000, double_hyphen_demerits: 10000, final_hyphen_demerits: 5000, looseness: 0, left_skip: kp::GlueSpec::default(), right_skip: kp::GlueSpec::default(), emergency_stretch: 0 }
}

pub fn run(ctx: &mut Ctx) -> Value {
    let repo = std::env::var("VERIF_REPO").unwrap_or_else(|_| "/repo".into());
    let dir = format!("{repo}/crates/boxworks-knuthplass/testdata");
    let mut errors: Vec<String> = vec![];
    // (test name in boxworks-knuthplass/src/lib.rs, log, typeset output or "", parameter change)
    type Change = fn(&mut kp::Params);
    let cases: Vec<(&str, &str, &str, Change)> = vec![
        ("wolf_hall_3in", "wolf_hall_3in_log.txt", "wolf_hall_3in_want.txt", |_| {}),
        ("wolf_hall_5in", "wolf_hall_5in_log.txt", "wolf_hall_5in_want.txt", |_| {}),
        ("wolf_hall_2in", "wolf_hall_2in_log.txt", "wolf_hall_2in_want.txt", |_| {}),
        ("wolf_hall_variable_widths", "wolf_hall_variable_widths_log.txt", "wolf_hall_variable_widths_want.txt", |_| {}),
        ("wolf_hall_adj_demerits", "wolf_hall_adj_demerits_log.txt", "wolf_hall_adj_demerits_want.txt", |p| p.adj_demerits = -10000),
        ("wolf_hall_double_hyphen_demerits", "wolf_hall_double_hyphen_demerits_log.txt", "wolf_hall_double_hyphen_demerits_want.txt", |p| p.double_hyphen_demerits = -100000),
        ("wolf_hall_final_hyphen_demerits", "wolf_hall_final_hyphen_demerits_log.txt", "wolf_hall_final_hyphen_demerits_want.txt", |p| p.final_hyphen_demerits = 0),
        ("wolf_hall_line_penalty", "wolf_hall_line_penalty_log.txt", "wolf_hall_line_penalty_want.txt", |p| p.line_penalty = 100),
        ("wolf_hall_hyphen_penalty", "wolf_hall_hyphen_penalty_log.txt", "wolf_hall_hyphen_penalty_want.txt", |p| p.hyphen_penalty = 10000),
        ("wolf_hall_ex_hyphen_penalty", "wolf_hall_ex_hyphen_penalty_log.txt", "wolf_hall_ex_hyphen_penalty_want.txt", |p| p.ex_hyphen_penalty = -10000),
        ("wolf_hall_right_skip", "wolf_hall_right_skip_log.txt", "wolf_hall_right_skip_want.txt", |_| {}),
        ("wolf_hall_left_skip", "wolf_hall_left_skip_log.txt", "wolf_hall_left_skip_want.txt", |_| {}),
        ("wolf_hall_tolerance", "wolf_hall_tolerance_log.txt", "wolf_hall_tolerance_want.txt", |_| {}),
        ("wolf_hall_pre_tolerance", "wolf_hall_pre_tolerance_log.txt", "wolf_hall_pre_tolerance_want.txt", |_| {}),
        ("farewell_to_arms_looseness_plus_1", "farewell_to_arms_looseness_plus_1_log.txt", "farewell_to_arms_looseness_plus_1_want.txt", |_| {}),
        ("farewell_to_arms_looseness_minus_1", "farewell_to_arms_looseness_minus_1_log.txt", "farewell_to_arms_looseness_minus_1_want.txt", |_| {}),
        ("alice_paragraph_2_10in", "alice_paragraph_2_log.txt", "alice_paragraph_2_want.txt", |_| {}),
        // emergency pass: artificial demerits and the extra stretch are not in the typeset lines
        ("wolf_hall_emergency_stretch", "wolf_hall_emergency_stretch_log.txt", "", |_| {}),
        ("wolf_hall_1in", "wolf_hall_1in_log.txt", "", |_| {}),
    ];
    let metrics = std::fs::read(format!("{repo}/crates/tfm/corpus/computer-modern/cmr10.tfm")).ok().and_then(|b| kp::tfm_metrics(&b));
    if metrics.is_none() {
        errors.push("cannot read cmr10.tfm with the model's TFM reader".into());
    }
    let (mut records, mut lines_checked, mut logs) = (0u64, 0u64, 0u64);
    for (test, log, want, change) in cases {
        let Ok(text) = std::fs::read_to_string(format!("{dir}/{log}")) else {
            errors.push(format!("cannot read {log}"));
            continue;
        };
        logs += 1;
        let mut p = defaults();
        change(&mut p);
        // split into passes
        let all: Vec<&str> = text.lines().collect();
        let mut starts: Vec<usize> = all.iter().enumerate().filter(|(_, l)| matches!(l.trim(), "@firstpass" | "@secondpass" | "@emergencypass")).map(|(i, _)| i).collect();
        starts.push(all.len());
        let mut last_nodes: Vec<Node> = vec![];
        for w in starts.windows(2) {
            let (nodes, n) = replay_pass(test, &all[w[0] + 1..w[1]], &p, &mut errors);
            records += n;
            last_nodes = nodes;
        }
        // part 2: the chosen lines
        let (Some(metrics), false) = (&metrics, want.is_empty()) else { continue };
        let Ok(src) = std::fs::read_to_string(format!("{dir}/{want}")) else {
            errors.push(format!("cannot read {want}"));
            continue;
        };
        let Ok(parsed) = boxworks::lang::parse_horizontal_list(&src) else {
            errors.push(format!("cannot parse {want}"));
            continue;
        };
        let hboxes: Vec<&ds::HBox> = parsed
            .iter()
            .filter_map(|t| if let ds::Horizontal::VBox(v) = t { Some(v) } else { None })
            .flat_map(|v| v.list.iter())
            .filter_map(|i| if let ds::Vertical::HBox(h) = i { Some(h) } else { None })
            .collect();
        let nl = hboxes.len();
        let Some(fin) = last_nodes.iter().enumerate().filter(|(_, n)| n.at_par && n.line == nl).min_by_key(|(_, n)| n.total).map(|(i, _)| i) else {
            errors.push(format!("{test}: the log has no final node with {nl} lines"));
            continue;
        };
        let mut chain = vec![];
        let mut i = fin;
        while i > 0 {
            chain.push(last_nodes[i].clone());
            i = last_nodes[i].prev;
        }
        chain.reverse();
        if chain.len() != nl {
            errors.push(format!("{test}: chain of {} nodes for {nl} typeset lines", chain.len()));
            continue;
        }
        for (k, (line, node)) in hboxes.iter().zip(chain.iter()).enumerate() {
            let ml = match conv::to_model(&line.list, &|c, _f| metrics.get(&(c as u32 as u8)).copied()) {
                Ok(m) => m,
                Err(e) => {
                    errors.push(format!("{test} line {}: {e}", k + 1));
                    continue;
                }
            };
            let packed = kp::hpack(&ml, kp::Pack::Exactly(line.width.0 as i64));
            let w6 = kp::W6 { w: packed.natural, st: packed.total_stretch, sh: packed.total_shrink[0] };
            let (b, f) = kp::fit_of(&w6, line.width.0 as i64);
            let Some((Some(lb), _)) = node.via else { continue };
            if b != lb || f != node.fit {
                errors.push(format!("{test} line {}: model badness {b} class {f}, TeX logged b={lb} class {} [{w6:?} in {}]", k + 1, node.fit, line.width.0));
            }
            lines_checked += 1;
        }
    }
    for e in errors.iter().take(12) {
        ctx.machinery_error(format!("model self-validation: {e}"));
    }
    if records < 1000 || lines_checked < 100 {
        ctx.machinery_error(format!("model self-validation replayed too little: {records} records, {lines_checked} lines"));
    }
    json!({"golden_logs": logs, "feasible_break_records_replayed_through_the_model_demerits": records, "typeset_lines_replayed_through_the_model_badness_and_fitness": lines_checked,
        "source": "crates/boxworks-knuthplass/testdata/*_log.txt and *_want.txt (recorded from real TeX), cmr10.tfm read by reftex::kp::tfm_metrics"})
}
