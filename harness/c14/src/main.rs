//! C14 — hyphenating a horizontal list changes nothing unless a break is taken.
//! Engine: BEX. Subject: `boxworks_hyphenate::Hyphenator::hyphenate` on lists produced by
//! `boxworks_text::TextPreprocessorImpl` from text in cmr10 and in cmr10 with a synthetic lig/kern program.
//! Oracle: `reftex::liang` (word finder TeX §894-899, Liang positions §919-931, minima §902/§923,
//! "first odd position inside a reconstituted ligature" §909/§913-916). DESIGN.md §3 C14.

use boxworks::ds::{self, Horizontal as H};
use boxworks::{Hyphenator as _, TextPreprocessor};
use boxworks_text as bwt;
use reftex::liang::{self, ascii_lc, Liang, LkFont, LkOp, Node, TNode};
use serde_json::{json, Value};
use std::collections::HashMap;
use tfm::ligkern::lang::{Instruction, Operation, PostLigOperation as P, Program};
use tfm::ligkern::CompiledProgram;
use tfm::{Char, FixWord};
use vcore::{catch, Acc, Ctx, Level};

// ---------------------------------------------------------------- fonts and lists

struct Font {
    tfm: tfm::File,
    lkp: CompiledProgram,
    /// the same lig/kern program for the model
    model: LkFont,
}

/// The lig/kern program of a TFM file as (left, right) -> instruction, first match first (TeX §909).
fn model_font(tfm: &tfm::File) -> LkFont {
    let mut f = LkFont { rules: vec![], bchar: tfm.lig_kern_program.right_boundary_char.map(|c| c.0 as char) };
    let mut prog = tfm.lig_kern_program.clone();
    let mut starts: Vec<(Option<char>, u16)> = vec![];
    if let Some(e) = prog.left_boundary_char_entrypoint {
        starts.push((None, e));
    }
    let mut eps: Vec<(Char, u8)> = tfm.lig_kern_entrypoints().into_iter().collect();
    eps.sort();
    for (c, e) in eps {
        if let Ok(e) = prog.unpack_entrypoint(e) {
            starts.push((Some(c.0 as char), e));
        }
    }
    for (left, e) in starts {
        for (_, ins) in tfm.lig_kern_program.instructions_for_entrypoint(e) {
            let op = match ins.operation {
                Operation::Kern(k) => LkOp::Kern(k.to_scaled(tfm.header.design_size).0 as i64),
                Operation::KernAtIndex(i) => LkOp::Kern(tfm.kerns.get(i as usize).map(|k| k.to_scaled(tfm.header.design_size).0 as i64).unwrap_or(0)),
                Operation::Ligature { char_to_insert, post_lig_operation, .. } => LkOp::Lig { kind: tex_op_byte(post_lig_operation), ch: char_to_insert.0 as char },
                Operation::EntrypointRedirect(..) => continue,
            };
            f.rules.push((left, ins.right_char.0 as char, op));
        }
    }
    f
}
/// TeX's `op_byte` (§545): 4a+2b+c with a = cursor moves, b = keep left, c = keep right.
fn tex_op_byte(p: P) -> u8 {
    match p {
        P::RetainNeitherMoveToInserted => 0,
        P::RetainRightMoveToInserted => 1,
        P::RetainRightMoveToRight => 5,
        P::RetainLeftMoveNowhere => 2,
        P::RetainLeftMoveToInserted => 6,
        P::RetainBothMoveNowhere => 3,
        P::RetainBothMoveToInserted => 7,
        P::RetainBothMoveToRight => 11,
    }
}

fn to_tnode(h: &H) -> TNode {
    match h {
        H::Char(c) => TNode::Char(c.char),
        H::Ligature(l) => TNode::Lig { ch: l.char, orig: l.original_chars.chars().collect(), left: l.includes_left_boundary, right: l.includes_right_boundary },
        H::Kern(k) if k.kind == ds::KernKind::Normal => TNode::Kern(k.width.0 as i64),
        H::Discretionary(d) if is_inserted(h) => TNode::Disc { pre: d.pre_break.iter().map(dto_tnode).collect(), post: d.post_break.iter().map(dto_tnode).collect(), replace: d.replace_count as usize, at: 0 },
        other => TNode::Other(to_node(other)),
    }
}
fn dto_tnode(e: &ds::DiscretionaryElem) -> TNode {
    match e {
        ds::DiscretionaryElem::Char(c) => TNode::Char(c.char),
        ds::DiscretionaryElem::Ligature(l) => TNode::Lig { ch: l.char, orig: l.original_chars.chars().collect(), left: l.includes_left_boundary, right: l.includes_right_boundary },
        ds::DiscretionaryElem::Kern(k) => TNode::Kern(k.width.0 as i64),
        _ => TNode::Other(Node::Other),
    }
}

/// Text to list. Inside a word `{0}` / `{1}` switch between two fonts (both are the same TFM file
/// registered twice, so only the font *number* of the nodes differs). `shape` post-edits the list:
/// 1 a glue appended, 2 every glue doubled, 3 penalty 0 after every glue, 4 explicit kern 0 after every
/// glue, 5 penalty 10000 + glue appended (end of a paragraph), 6 font kern 0 after every glue.
fn typeset(font: &Font, text: &str, shape: u8) -> Vec<H> {
    let mut tp = bwt::TextPreprocessorImpl::new(bwt::Params::plain_tex_defaults());
    tp.register_font(0, &font.tfm, font.lkp.clone());
    tp.register_font(1, &font.tfm, font.lkp.clone());
    tp.activate_font(0);
    let mut list = vec![];
    if !text.contains('{') {
        tp.add_text(text, &mut list);
    } else {
        tp.new_paragraph();
        let mut pending_space = text.chars().next().unwrap_or(' ').is_ascii_whitespace();
        for word in text.split_ascii_whitespace() {
            if pending_space {
                tp.add_space(&mut list);
            }
            let mut rest = word;
            while !rest.is_empty() {
                if let Some(r) = rest.strip_prefix("{0}") {
                    tp.activate_font(0);
                    rest = r;
                } else if let Some(r) = rest.strip_prefix("{1}") {
                    tp.activate_font(1);
                    rest = r;
                } else {
                    let end = rest.find('{').unwrap_or(rest.len());
                    tp.add_word(&rest[..end], &mut list);
                    rest = &rest[end..];
                }
            }
            pending_space = true;
        }
    }
    if shape == 0 {
        return list;
    }
    if shape >= 7 {
        // the node that terminates the last word (TeX §899)
        let z = common::Scaled(65536);
        let node: H = match shape {
            7 => ds::Kern { width: z, kind: ds::KernKind::Explicit }.into(),
            8 => ds::Kern { width: z, kind: ds::KernKind::Accent }.into(),
            9 => ds::Kern { width: z, kind: ds::KernKind::Math }.into(),
            10 => H::Rule(ds::Rule { height: z, width: z, depth: common::Scaled(0) }),
            11 => H::HBox(ds::HBox::default()),
            12 => H::VBox(ds::VBox::default()),
            13 => H::Math(ds::Math::Before),
            14 => H::Math(ds::Math::After),
            15 => H::Penalty(ds::Penalty(0)),
            16 => H::Mark(ds::Mark { list: vec![] }),
            17 => H::Adjust(ds::Adjust { list: vec![] }),
            18 => H::Discretionary(ds::Discretionary::default()),
            _ => ds::Kern { width: z, kind: ds::KernKind::Normal }.into(),
        };
        list.push(node);
        return list;
    }
    let a_glue = list.iter().find(|h| matches!(h, H::Glue(_))).cloned();
    let Some(glue) = a_glue else { return list };
    let after_glue = |extra: H, list: Vec<H>| -> Vec<H> {
        let mut out = vec![];
        for h in list {
            let g = matches!(h, H::Glue(_));
            out.push(h);
            if g {
                out.push(extra.clone());
            }
        }
        out
    };
    match shape {
        1 => {
            list.push(glue);
            list
        }
        2 => after_glue(glue, list),
        3 => after_glue(H::Penalty(ds::Penalty(0)), list),
        4 => after_glue(ds::Kern { width: common::Scaled(0), kind: ds::KernKind::Explicit }.into(), list),
        5 => {
            list.push(H::Penalty(ds::Penalty(10000)));
            list.push(glue);
            list
        }
        _ => after_glue(ds::Kern { width: common::Scaled(0), kind: ds::KernKind::Normal }.into(), list),
    }
}

fn show(l: &[H]) -> String {
    l.iter().map(show1).collect::<Vec<_>>().join(" ")
}
fn show1(h: &H) -> String {
    match h {
        H::Char(c) => format!("{}", c.char),
        H::Ligature(l) => format!("lig({}<-{:?}{}{})", l.char, &*l.original_chars, if l.includes_left_boundary { ",L" } else { "" }, if l.includes_right_boundary { ",R" } else { "" }),
        H::Kern(k) => format!("kern({})", k.width.0),
        H::Glue(_) => "glue".into(),
        H::Discretionary(d) => format!("disc(pre=[{}] post=[{}] n={})", d.pre_break.iter().map(showd).collect::<Vec<_>>().join(" "), d.post_break.iter().map(showd).collect::<Vec<_>>().join(" "), d.replace_count),
        other => other.to_string().replace('\n', " "),
    }
}
fn showd(e: &ds::DiscretionaryElem) -> String {
    match e {
        ds::DiscretionaryElem::Char(c) => format!("{}", c.char),
        ds::DiscretionaryElem::Ligature(l) => format!("lig({}<-{:?}{}{})", l.char, &*l.original_chars, if l.includes_left_boundary { ",L" } else { "" }, if l.includes_right_boundary { ",R" } else { "" }),
        ds::DiscretionaryElem::Kern(k) => format!("kern({})", k.width.0),
        _ => "?".into(),
    }
}

fn letters_of(h: &H) -> Option<String> {
    match h {
        H::Char(c) => Some(c.char.to_string()),
        H::Ligature(l) => Some(l.original_chars.to_string()),
        H::Kern(k) if k.kind == ds::KernKind::Normal => Some(String::new()),
        _ => None,
    }
}
fn dletters(e: &ds::DiscretionaryElem) -> Option<String> {
    match e {
        ds::DiscretionaryElem::Char(c) => Some(c.char.to_string()),
        ds::DiscretionaryElem::Ligature(l) => Some(l.original_chars.to_string()),
        ds::DiscretionaryElem::Kern(k) if k.kind == ds::KernKind::Normal => Some(String::new()),
        _ => None,
    }
}

fn to_node(h: &H) -> Node {
    match h {
        H::Char(c) => Node::Char { c: c.char, font: c.font },
        H::Ligature(l) => Node::Lig { orig: l.original_chars.chars().collect(), font: l.font, left_boundary: l.includes_left_boundary, right_boundary: l.includes_right_boundary },
        H::Kern(k) => Node::Kern { normal: k.kind == ds::KernKind::Normal },
        H::Whatsit(_) => Node::Whatsit,
        H::Glue(_) => Node::Glue,
        H::Penalty(_) => Node::Penalty,
        H::Insertion(_) => Node::Ins,
        H::Adjust(_) => Node::Adjust,
        H::Mark(_) => Node::Mark,
        H::HBox(_) | H::VBox(_) | H::Rule(_) | H::Discretionary(_) | H::Math(_) => Node::Other,
    }
}

/// An inserted discretionary always carries the hyphen; the ones `add_word` puts after an explicit
/// hyphen are empty (TeX §1039).
fn is_inserted(h: &H) -> bool {
    matches!(h, H::Discretionary(d) if !d.pre_break.is_empty() || !d.post_break.is_empty() || d.replace_count != 0)
}

// ---------------------------------------------------------------- the three invariants

struct Verdict {
    /// (invariant, expected, observed, note)
    fail: Option<(&'static str, String, String, String)>,
    words: usize,
    expected_cuts: usize,
    discs: usize,
    /// full-list comparison with the transliterated TeX pass
    vs_tex: &'static str,
    /// the TeX model's own output satisfies invariant (1)
    tex_keeps_list: bool,
    /// invariant (1) fails, the D21b predicate holds on the case and the non-discretionary nodes equal
    /// those of the model with the `ignore_left_context` switch
    d21b: bool,
    /// (3) fails on a word that follows a token without letters
    d12_shape: bool,
    out_of_domain: bool,
    /// property-conforming peculiarities, recorded as outcome classes
    notes: Vec<&'static str>,
}

thread_local! {
    /// memo of `hyf` per (language, lower-cased word): the plain TeX set has 4447 patterns
    static MEMO: std::cell::RefCell<HashMap<(usize, Vec<char>), Vec<u8>>> = std::cell::RefCell::new(HashMap::new());
}
fn memo_hyf(lang: &Liang, wl: &[char]) -> Vec<u8> {
    // key: the language's address and a fingerprint of its (small) exception list - short-lived
    // languages of different content can sit at the same address
    use std::hash::{Hash, Hasher};
    let mut h = std::collections::hash_map::DefaultHasher::new();
    (lang as *const Liang as usize).hash(&mut h);
    lang.patterns.len().hash(&mut h);
    for e in &lang.exceptions {
        e.letters.hash(&mut h);
        e.positions.hash(&mut h);
    }
    MEMO.with(|m| m.borrow_mut().entry((h.finish() as usize, wl.to_vec())).or_insert_with(|| lang.hyf(wl)).clone())
}

fn same_nodes(a: &[TNode], b: &[TNode]) -> bool {
    a.len() == b.len()
        && a.iter().zip(b).all(|(x, y)| match (x, y) {
            (TNode::Disc { pre: p1, post: q1, replace: r1, .. }, TNode::Disc { pre: p2, post: q2, replace: r2, .. }) => r1 == r2 && same_nodes(p1, p2) && same_nodes(q1, q2),
            _ => x == y,
        })
}

fn check_list(before: &[H], after: &[H], font: &Font, lang: &Liang, lhm: i32, rhm: i32, acc: &mut Acc) -> Verdict {
    let mut v = Verdict { fail: None, words: 0, expected_cuts: 0, discs: 0, vs_tex: "", tex_keeps_list: true, d21b: false, d12_shape: false, out_of_domain: false, notes: vec![] };
    // the TeX model on the same list (full differential: informational, and for the triage of failures)
    let before_t: Vec<TNode> = before.iter().map(to_tnode).collect();
    let after_t: Vec<TNode> = after.iter().map(to_tnode).collect();
    // domain: a word directly followed by a ligature node that does not belong to the word (it contains
    // a non-letter, or crosses the 63-letter limit). TeX §898 then takes the first original character of
    // that ligature as `hyf_bchar` although it is already inside the following node. Where this makes
    // TeX's own rebuilding of the word differ from the nodes it replaces (the rebuilt word repeats the
    // ligature; the crate's TeX-verified tests right_boundary_char_override_3..6 record it), the list is
    // outside the quantifier: skipped and counted.
    {
        let nodes: Vec<Node> = before.iter().map(to_node).collect();
        let relaxed = liang::FinderParams { lc: &ascii_lc, uc_hyph: true, l_hyf: 0, r_hyf: 0, hyphen_char_ok: &|_| true };
        for g in (0..nodes.len()).filter(|i| matches!(nodes[*i], Node::Glue)) {
            if let Some(w) = liang::find_word(&nodes, g, &relaxed) {
                // does TeX's own rebuilding of the word (§903-913 with no hyphen, by the model), with the
                // character taken from inside the following ligature node as right boundary, give back
                // the nodes ha..hb?
                if let (Some(Node::Lig { orig, .. }), liang::Bchar::Char(_)) = (nodes.get(w.hb + 1), w.bchar) {
                    if !orig.is_empty() {
                        let zeros = |wl: &[char]| vec![0u8; wl.len() + 1];
                        let pp = liang::PassParams { hyf: &zeros, lc: &ascii_lc, uc_hyph: true, l_hyf: 1, r_hyf: 1, hyphen_char: '-', always_left_boundary: false, always_rebuild: true, ignore_left_context: false, font_bchar_at_word_end: false };
                        if let Some((from, rebuilt)) = liang::hyphenate_word(&before_t, &w, &font.model, &pp) {
                            if rebuilt.as_slice() != &before_t[from..=w.hb] {
                                v.out_of_domain = true;
                                return v;
                            }
                        }
                    }
                }
            }
        }
    }
    let (l_hyf, r_hyf) = (liang::norm_min(lhm as i64), liang::norm_min(rhm as i64));
    let hyf_fn = |w: &[char]| memo_hyf(lang, w);
    let pp_tex = liang::PassParams { hyf: &hyf_fn, lc: &ascii_lc, uc_hyph: true, l_hyf, r_hyf, hyphen_char: '-', always_left_boundary: false, always_rebuild: false, ignore_left_context: false, font_bchar_at_word_end: false };
    let pp_d21 = liang::PassParams { hyf: &hyf_fn, lc: &ascii_lc, uc_hyph: true, l_hyf, r_hyf, hyphen_char: '-', always_left_boundary: true, always_rebuild: true, ignore_left_context: false, font_bchar_at_word_end: false };
    let tex_after = liang::hyphenate_list(&before_t, &font.model, &pp_tex);
    v.vs_tex = if same_nodes(&tex_after, &after_t) {
        "= TeX model"
    } else if same_nodes(&liang::hyphenate_list(&before_t, &font.model, &pp_d21), &after_t) {
        "= model with the D21 switch"
    } else {
        "differs from both models"
    };
    v.tex_keeps_list = {
        let stripped: Vec<&TNode> = tex_after.iter().filter(|n| !matches!(n, TNode::Disc { .. })).collect();
        stripped.len() == before_t.len() && stripped.iter().zip(before_t.iter()).all(|(a, b)| **a == *b)
    };
    if !v.tex_keeps_list {
        acc.count("tex_model_itself_changes_the_list");
    }
    // (1) deleting the inserted discretionaries gives back the original list node for node
    let stripped: Vec<&H> = after.iter().filter(|h| !is_inserted(h)).collect();
    let same = stripped.len() == before.len() && stripped.iter().zip(before.iter()).all(|(a, b)| **a == *b);
    if !same {
        // finding D21b: the character or ligature before the first letter is not used as left context
        let relaxed = liang::FinderParams { lc: &ascii_lc, uc_hyph: true, l_hyf: 0, r_hyf: 0, hyphen_char_ok: &|_| true };
        let nodes: Vec<Node> = before.iter().map(to_node).collect();
        let applies = liang::words(&nodes, &relaxed).iter().any(|w| {
            let ctx_char = match &before_t[w.ha] {
                TNode::Char(c) => Some(*c),
                TNode::Lig { ch, orig, left, .. } if !(orig.is_empty() && *left) => Some(*ch),
                _ => None,
            };
            ctx_char.map(|c| font.model.rules.iter().any(|r| r.0 == Some(c) && r.1 == w.letters[0])).unwrap_or(false)
        });
        if applies {
            let pp_adj = liang::PassParams { hyf: &hyf_fn, lc: &ascii_lc, uc_hyph: true, l_hyf, r_hyf, hyphen_char: '-', always_left_boundary: false, always_rebuild: true, ignore_left_context: true, font_bchar_at_word_end: true };
            let adj = liang::hyphenate_list(&before_t, &font.model, &pp_adj);
            let a: Vec<&TNode> = adj.iter().filter(|n| !matches!(n, TNode::Disc { .. })).collect();
            let b: Vec<&TNode> = after_t.iter().filter(|n| !matches!(n, TNode::Disc { .. })).collect();
            v.d21b = a == b;
        }
        let i = stripped.iter().zip(before.iter()).position(|(a, b)| **a != *b).unwrap_or(stripped.len().min(before.len()));
        v.fail = Some(("I1", show(before), show(after), format!("deleting the inserted discretionaries does not give back the original list: first difference at node {i}: original {:?}, after {:?}", before.get(i).map(show1), stripped.get(i).map(|h| show1(h)))));
        return v;
    }
    // position of every inserted discretionary relative to the original list
    let mut discs: Vec<(usize, usize)> = vec![]; // (index in after, index in before of the node that follows)
    let mut k = 0;
    for (i, h) in after.iter().enumerate() {
        if is_inserted(h) {
            discs.push((i, k));
        } else {
            k += 1;
        }
    }
    v.discs = discs.len();
    // (2) letters are conserved at every inserted discretionary
    for &(i, _) in &discs {
        let H::Discretionary(d) = &after[i] else { unreachable!() };
        // only characters and ligatures carry letters; any other material inside the discretionary or
        // among the replaced nodes (the statement does not exclude it) carries none and is recorded
        let n = d.replace_count as usize;
        if i + 1 + n > after.len() {
            v.fail = Some(("I2", format!("{n} nodes to replace after the discretionary"), show1(&after[i]), format!("the discretionary at node {i} replaces more nodes than follow it in {}", show(after))));
            return v;
        }
        if d.pre_break.iter().chain(d.post_break.iter()).any(|e| dletters(e).is_none()) || after[i + 1..i + 1 + n].iter().any(|h| letters_of(h).is_none()) {
            v.notes.push("a discretionary contains, or replaces, something that is not a character, ligature or font kern");
        }
        let mut pre: String = d.pre_break.iter().filter_map(dletters).collect();
        let post: String = d.post_break.iter().filter_map(dletters).collect();
        let repl: String = after[i + 1..i + 1 + n].iter().filter_map(letters_of).collect();
        if !pre.ends_with('-') {
            v.fail = Some(("I2", "pre-break material ends with the hyphen".into(), show1(&after[i]), format!("in {}", show(after))));
            return v;
        }
        pre.pop();
        if format!("{pre}{post}") != repl {
            v.fail = Some(("I2", format!("letters {repl:?} (the {n} replaced nodes)"), format!("pre-break minus hyphen {pre:?} + post-break {post:?}"), format!("letters are not conserved at the discretionary at node {i} of {}", show(after))));
            return v;
        }
    }
    // (3) discretionaries sit at exactly the allowed positions of exactly the words TeX tries
    let nodes: Vec<Node> = before.iter().map(to_node).collect();
    let fp = liang::FinderParams { lc: &ascii_lc, uc_hyph: true, l_hyf, r_hyf, hyphen_char_ok: &|_| true };
    let words = liang::words(&nodes, &fp);
    v.words = words.len();
    let mut claimed = vec![false; discs.len()];
    for w in &words {
        let first = w.ha + 1;
        // letters before each node of the word, ligature spans; nodes between the glue and the first
        // letter may be rebuilt together with the word (TeX §903: `ha`), they count backwards
        let mut off = 0usize;
        let mut starts: HashMap<usize, i64> = HashMap::new();
        {
            let mut back = 0i64;
            for k in (w.glue + 1..first).rev() {
                back -= match &nodes[k] {
                    Node::Char { .. } => 1,
                    Node::Lig { orig, .. } => orig.len() as i64,
                    _ => 0,
                };
                starts.insert(k, back);
            }
        }
        let mut ligs: Vec<(usize, usize)> = vec![];
        for (k, nd) in nodes.iter().enumerate().take(w.hb + 1).skip(first) {
            starts.insert(k, off as i64);
            match nd {
                Node::Char { .. } => off += 1,
                Node::Lig { orig, .. } => {
                    if orig.len() >= 2 {
                        ligs.push((off, off + orig.len()));
                    }
                    off += orig.len();
                }
                _ => {}
            }
        }
        let wl: Vec<char> = w.letters.iter().map(|c| ascii_lc(*c).unwrap()).collect();
        let hyf = memo_hyf(lang, &wl);
        let liang_pos: Vec<usize> = (l_hyf..wl.len()).filter(|j| *j + r_hyf <= wl.len() && hyf[*j] % 2 == 1).collect();
        // the positions TeX can offer: the discretionaries of the transliterated pass (§903-918)
        let expected: Vec<usize> = match liang::hyphenate_word(&before_t, w, &font.model, &pp_tex) {
            None => vec![],
            Some((_, nodes)) => {
                let mut at: Vec<usize> = nodes.iter().filter_map(|n| if let TNode::Disc { at, .. } = n { Some(*at) } else { None }).collect();
                at.sort();
                at
            }
        };
        if expected != liang::first_odd_per_ligature(&liang_pos, &ligs) {
            acc.count("tex_pass_offers_other_positions_than_the_first_odd_per_ligature_rule");
        }
        // vacuity counters (from the case and the model)
        if expected.len() < liang_pos.len() {
            acc.count("second_odd_position_inside_one_ligature");
        }
        if expected.iter().any(|p| ligs.iter().any(|(a, b)| a < p && p < b)) {
            acc.count("cut_strictly_inside_a_ligature");
        }
        if w.letters.len() == 63 {
            acc.count("word_cut_off_at_63_letters");
        }
        if w.ha != w.glue && !expected.is_empty() {
            acc.count("word_preceded_by_non_letters");
        }
        let mut after_letterless = false;
        if let Some(pg) = prev_glue_before(&nodes, w.glue) {
            if !nodes[pg + 1..w.glue].iter().any(|n| node_has_letter(n)) && !expected.is_empty() {
                acc.count("word_after_letterless_token");
                after_letterless = true;
            }
        }
        if w.letters.iter().any(|c| c.is_ascii_uppercase()) && !expected.is_empty() {
            acc.count("word_with_capitals_hyphenated");
        }
        let mut observed: Vec<usize> = vec![];
        for (di, &(i, k)) in discs.iter().enumerate() {
            if k <= w.glue || k > w.hb {
                continue;
            }
            claimed[di] = true;
            let H::Discretionary(d) = &after[i] else { unreachable!() };
            let mut pre: String = d.pre_break.iter().filter_map(dletters).collect();
            pre.pop();
            let at = starts[&k] + pre.chars().count() as i64;
            if at < 0 {
                v.fail = Some(("I3", "a break inside the word".into(), format!("a discretionary that breaks before the word's first letter: {}", show1(&after[i])), format!("in {}", show(after))));
                return v;
            }
            observed.push(at as usize);
            // (TeX replaces only nodes of the word; the statement does not say so: recorded, not judged)
            if k + d.replace_count as usize > w.hb + 1 {
                v.notes.push("a discretionary replaces nodes beyond the end of the word");
            }
        }
        v.expected_cuts += expected.len();
        // The statement says "exactly the Liang positions allowed by the minimums"; TeX's pass can offer
        // fewer (first odd position per reconstituted ligature chain). Both readings are accepted: every
        // position TeX offers must be there, and nothing outside Liang's positions may be there. The
        // order of the discretionaries and a repeated position are recorded, not judged.
        let mut obs_set = observed.clone();
        obs_set.sort();
        obs_set.dedup();
        if obs_set.len() != observed.len() {
            v.notes.push("two discretionaries at one position");
        }
        if obs_set != expected && expected.iter().all(|p| obs_set.contains(p)) && obs_set.iter().all(|p| liang_pos.contains(p)) {
            v.notes.push("offers Liang positions that TeX's pass does not offer");
        }
        if !(expected.iter().all(|p| obs_set.contains(p)) && obs_set.iter().all(|p| liang_pos.contains(p))) {
            v.d12_shape = after_letterless && observed.is_empty();
            let word: String = w.letters.iter().collect();
            v.fail = Some(("I3", format!("word {word:?}: hyphens after at least the letters {expected:?} (what TeX's pass offers) and at most {liang_pos:?} (Liang within the minima)"), format!("{observed:?}"), format!("Liang positions within the minima ({l_hyf},{r_hyf}): {liang_pos:?}; TeX's pass (§903-918) offers {expected:?}; list after: {}", show(after))));
            return v;
        }
    }
    if let Some(di) = claimed.iter().position(|c| !c) {
        let (i, k) = discs[di];
        v.fail = Some(("I3", "no discretionary outside the words TeX tries (TeX §894-899)".into(), format!("{} before original node {k}", show1(&after[i])), format!("words found by the model: {:?}; list after: {}", words.iter().map(|w| w.letters.iter().collect::<String>()).collect::<Vec<_>>(), show(after))));
    }
    v
}

fn prev_glue_before(nodes: &[Node], g: usize) -> Option<usize> {
    (0..g).rev().find(|i| matches!(nodes[*i], Node::Glue))
}
fn node_has_letter(n: &Node) -> bool {
    match n {
        Node::Char { c, .. } => ascii_lc(*c).is_some(),
        Node::Lig { orig, .. } => orig.iter().any(|c| ascii_lc(*c).is_some()),
        _ => false,
    }
}

// ---------------------------------------------------------------- one case

#[derive(Clone, Debug)]
struct Case {
    /// "" = cmr10's own program, else the compact text of the synthetic program
    program: Vec<Rule>,
    text: String,
    /// "plain" or "every"
    patterns: String,
    lhm: i32,
    rhm: i32,
    /// see `typeset`
    shape: u8,
    /// `\\hyphenation` entries inserted, in this order, into the underlying hyphenate::Hyphenator
    /// (pub field `hyphenator`) before the pass
    exceptions: Vec<String>,
    /// a text that is typeset and hyphenated by the same hyphenator BEFORE the exceptions are inserted
    /// (state carried from one pass to the next, e.g. a cache, must not show)
    warmup: Option<String>,
    /// when set, the underlying hyphenate::Hyphenator is `default()` + `load_patterns(this)` instead of a named set
    custom_patterns: Option<String>,
}
impl Case {
    fn json(&self) -> Value {
        json!({"kind": "list", "program": self.program.iter().map(|r| r.json()).collect::<Vec<_>>(), "program_text": self.program.iter().map(|r| r.compact()).collect::<Vec<_>>(), "text": self.text, "patterns": self.patterns, "lhm": self.lhm, "rhm": self.rhm, "shape": self.shape, "exceptions": self.exceptions, "warmup": self.warmup, "custom_patterns": self.custom_patterns})
    }
}

struct Env {
    cmr10: tfm::File,
    plain: Liang,
    every: Liang,
    every_ab: Liang,
}

fn real_hyphenator(env: &Env, font: &Font, patterns: &str, lhm: i32, rhm: i32) -> boxworks_hyphenate::Hyphenator {
    let _ = env;
    if patterns == "plain" {
        // the crate's own constructor (boxworks-bin uses it), then the minima
        let mut h = boxworks_hyphenate::Hyphenator::plain_tex_en_us(font.lkp.clone());
        h.left_hyphen_min = lhm;
        h.right_hyphen_min = rhm;
        return h;
    }
    let hyphenator = match patterns {
        "plain" => hyphenate::Hyphenator::plain_tex_en_us(),
        "every" => {
            let mut h = hyphenate::Hyphenator::default();
            h.load_patterns(&every_position_patterns());
            h
        }
        _ => {
            let mut h = hyphenate::Hyphenator::default();
            h.load_patterns("a1 b1");
            h
        }
    };
    boxworks_hyphenate::Hyphenator { lig_kern_program: font.lkp.clone(), hyphenator, left_hyphen_min: lhm, right_hyphen_min: rhm }
}
fn every_position_patterns() -> String {
    ('a'..='z').map(|c| format!("{c}1 ")).collect()
}

/// Judge one list. Returns the class label of a failure (for the caller's triage) or None.
fn judge(idx: u64, case: &Case, font: &Font, hy: &boxworks_hyphenate::Hyphenator, lang: &Liang, acc: &mut Acc) {
    acc.eval();
    let before = match catch(|| typeset(font, &case.text, case.shape)) {
        Ok(l) => l,
        Err(p) => {
            // not the subject of this property (C05/C12 look at the text preprocessor); count and move on
            acc.skipped += 1;
            acc.class(&format!("typesetting panicked: {}", p.site()));
            return;
        }
    };
    let after = match catch(|| {
        let mut l = before.clone();
        hy.hyphenate(&mut l);
        l
    }) {
        Ok(l) => l,
        Err(p) => {
            acc.class(&format!("panic at {}", p.site()));
            witness(&format!("panic at {}", p.site()), idx, || json!({"case": case.json(), "original": show(&before), "panic": p.describe()}));
            acc.fail(idx, case.json(), "a hyphenated list", p.describe(), format!("hyphenate panicked on {}", show(&before)));
            return;
        }
    };
    let v = check_list(&before, &after, font, lang, case.lhm, case.rhm, acc);
    if v.out_of_domain {
        acc.skipped += 1;
        acc.count("skipped_word_followed_by_punctuation_ligature");
        acc.class("skipped: word followed by a ligature with a non-letter that interacts with the word's end");
        return;
    }
    if v.expected_cuts > 0 {
        acc.nontrivial();
    }
    for n in &v.notes {
        acc.class(&format!("note: {n}"));
    }
    match v.fail {
        None => {
            acc.class(&format!("ok words={} cuts={} [{}]", v.words.min(3), v.discs.min(12), v.vs_tex));
            if v.vs_tex != "= TeX model" {
                // outside the property: the three invariants hold, but the discretionaries are not TeX's
                acc.count("invariants_hold_but_list_differs_from_tex_pass");
                witness("outside the property: invariants hold, the list differs from the transliterated TeX pass", idx, || json!({"case": case.json(), "original": show(&before), "after": show(&after), "tex_pass": tex_pass_text(&before, font, lang, case)}));
            }
        }
        Some(_) if v.d21b => {
            acc.class("I1 fails: D21b (left context before the first letter ignored)");
            acc.known("D21b", idx, || json!({"case": case.json(), "original": show(&before), "after": show(&after), "adjusted_model": "TeX §903 without hu[0]: a character/ligature node before the first letter is not used as left context"}));
        }
        Some((inv, expected, observed, note)) => {
            // a label for the reader (the verdict does not depend on it)
            let label = match inv {
                "I1" if only_ligature_flags_differ(&before, &after) => "I1: a ligature's boundary flag changes (D12b shape)",
                "I1" if v.vs_tex == "= model with the D21 switch" => "I1: = TeX's pass with left-boundary processing forced on (D21)",
                "I1" if case.program.iter().any(|r| r.left == Sym::LB) => "I1: program has a left-boundary rule (D21 shape)",
                "I1" => "I1: other",
                "I2" => "I2",
                _ if v.d12_shape => "I3: a word after a letterless token is not hyphenated (D12 shape)",
                _ => "I3: other",
            };
            acc.class(&format!("{label} [{}]", v.vs_tex));
            witness(label, idx, || json!({"case": case.json(), "original": show(&before), "after": show(&after), "expected": expected, "observed": observed}));
            acc.fail(idx, case.json(), expected, observed, format!("{inv}: {note}"));
        }
    }
}

fn tex_pass_text(before: &[H], font: &Font, lang: &Liang, case: &Case) -> String {
    let bt: Vec<TNode> = before.iter().map(to_tnode).collect();
    let hyf_fn = |w: &[char]| memo_hyf(lang, w);
    let pp = liang::PassParams { hyf: &hyf_fn, lc: &ascii_lc, uc_hyph: true, l_hyf: liang::norm_min(case.lhm as i64), r_hyf: liang::norm_min(case.rhm as i64), hyphen_char: '-', always_left_boundary: false, always_rebuild: false, ignore_left_context: false, font_bchar_at_word_end: false };
    liang::render(&liang::hyphenate_list(&bt, &font.model, &pp))
}

fn only_ligature_flags_differ(before: &[H], after: &[H]) -> bool {
    let strip = |h: &H| -> H {
        match h {
            H::Ligature(l) => H::Ligature(ds::Ligature { includes_left_boundary: false, includes_right_boundary: false, ..l.clone() }),
            o => o.clone(),
        }
    };
    let a: Vec<H> = after.iter().filter(|h| !is_inserted(h)).map(strip).collect();
    let b: Vec<H> = before.iter().map(strip).collect();
    a == b
}

/// First witness (smallest enumeration index) of every failure label, for the evidence file.
static WITNESSES: std::sync::Mutex<std::collections::BTreeMap<String, (u64, u64, Value)>> = std::sync::Mutex::new(std::collections::BTreeMap::new());
fn witness(label: &str, idx: u64, f: impl FnOnce() -> Value) {
    let mut m = WITNESSES.lock().unwrap();
    match m.get_mut(label) {
        Some(e) => {
            e.0 += 1;
            if idx < e.1 {
                e.1 = idx;
                e.2 = f();
            }
        }
        None => {
            m.insert(label.to_string(), (1, idx, f()));
        }
    }
}

// ---------------------------------------------------------------- synthetic lig/kern programs

#[derive(Clone, Copy, PartialEq, Eq, Debug, Hash, PartialOrd, Ord)]
enum Sym {
    LB,
    C(u8),
    RB,
}
#[derive(Clone, Copy, Debug, PartialEq)]
enum Op {
    Kern(i32),
    Lig(u8, u8), // inserted char, index into POSTLIG
}
#[derive(Clone, Copy, Debug, PartialEq)]
struct Rule {
    left: Sym,
    right: Sym,
    op: Op,
}
const POSTLIG: [P; 8] = [P::RetainNeitherMoveToInserted, P::RetainRightMoveToInserted, P::RetainRightMoveToRight, P::RetainLeftMoveNowhere, P::RetainLeftMoveToInserted, P::RetainBothMoveNowhere, P::RetainBothMoveToInserted, P::RetainBothMoveToRight];
const POSTLIG_PL: [&str; 8] = ["LIG", "LIG/", "LIG/>", "/LIG", "/LIG>", "/LIG/", "/LIG/>", "/LIG/>>"];
/// the right boundary character of the synthetic fonts
const RBC: u8 = b'c';

impl Rule {
    fn json(&self) -> Value {
        let s = |s: Sym| match s {
            Sym::LB => "LB".to_string(),
            Sym::RB => "RB".to_string(),
            Sym::C(c) => (c as char).to_string(),
        };
        match self.op {
            Op::Kern(k) => json!({"l": s(self.left), "r": s(self.right), "kern": k}),
            Op::Lig(z, p) => json!({"l": s(self.left), "r": s(self.right), "lig": (z as char).to_string(), "op": p}),
        }
    }
    fn from_json(v: &Value) -> Rule {
        let s = |x: &Value| match x.as_str().unwrap_or("") {
            "LB" => Sym::LB,
            "RB" => Sym::RB,
            o => Sym::C(o.as_bytes()[0]),
        };
        let op = if v["kern"].is_i64() { Op::Kern(v["kern"].as_i64().unwrap() as i32) } else { Op::Lig(v["lig"].as_str().unwrap().chars().next().unwrap() as u32 as u8, v["op"].as_u64().unwrap() as u8) };
        Rule { left: s(&v["l"]), right: s(&v["r"]), op }
    }
    fn compact(&self) -> String {
        let s = |s: Sym| match s {
            Sym::LB => "boundary".to_string(),
            Sym::RB => format!("boundary(={})", RBC as char),
            Sym::C(c) => (c as char).to_string(),
        };
        match self.op {
            Op::Kern(k) => format!("({} {}) KRN {}", s(self.left), s(self.right), k),
            Op::Lig(z, p) => format!("({} {}) {} {}", s(self.left), s(self.right), POSTLIG_PL[p as usize], z as char),
        }
    }
}

fn build_program(rules: &[Rule]) -> (Program, HashMap<Char, u16>) {
    let mut instrs: Vec<Instruction> = vec![];
    let mut eps = HashMap::new();
    let mut lb = None;
    let mut lefts: Vec<Sym> = rules.iter().map(|r| r.left).collect();
    lefts.sort();
    lefts.dedup();
    let rbc = if rules.iter().any(|r| r.right == Sym::RB) { Some(RBC) } else { None };
    for l in lefts {
        let start = instrs.len() as u16;
        match l {
            Sym::LB => lb = Some(start),
            Sym::C(c) => {
                eps.insert(Char(c), start);
            }
            Sym::RB => unreachable!(),
        }
        let rs: Vec<&Rule> = rules.iter().filter(|r| r.left == l).collect();
        for (i, r) in rs.iter().enumerate() {
            let right_char = match r.right {
                Sym::C(c) => Char(c),
                Sym::RB => Char(RBC),
                Sym::LB => unreachable!(),
            };
            let operation = match r.op {
                Op::Kern(k) => Operation::Kern(FixWord(k)),
                Op::Lig(z, p) => Operation::Ligature { char_to_insert: Char(z), post_lig_operation: POSTLIG[p as usize], post_lig_tag_invalid: false },
            };
            instrs.push(Instruction { next_instruction: if i + 1 < rs.len() { Some(0) } else { None }, right_char, operation });
        }
    }
    (Program { instructions: instrs, left_boundary_char_entrypoint: lb, right_boundary_char: rbc.map(Char), passthrough: Default::default() }, eps)
}

/// `None` when the program has an infinite loop (PLtoTF would reject the font).
fn synthetic_font(env: &Env, rules: &[Rule]) -> Option<Font> {
    let mut tfm = env.cmr10.clone();
    if !rules.is_empty() {
        let (prog, eps) = build_program(rules);
        tfm.replace_lig_kern_program(prog, eps);
    }
    let (lkp, errs) = CompiledProgram::compile_from_tfm_file(&mut tfm);
    if !errs.is_empty() {
        return None;
    }
    let model = model_font(&tfm);
    Some(Font { tfm, lkp, model })
}

fn all_rules(kern: i32, inserted: &[u8], kinds: &[u8]) -> Vec<Rule> {
    let mut ops = vec![Op::Kern(kern)];
    for z in inserted {
        for p in kinds {
            ops.push(Op::Lig(*z, *p));
        }
    }
    let mut out = vec![];
    for left in [Sym::LB, Sym::C(b'a'), Sym::C(b'b'), Sym::C(b'-')] {
        for right in [Sym::C(b'a'), Sym::C(b'b'), Sym::C(b'-'), Sym::RB] {
            for op in &ops {
                out.push(Rule { left, right, op: *op });
            }
        }
    }
    out
}

// ---------------------------------------------------------------- main

fn long_words() -> Vec<String> {
    let d7 = "difficult".repeat(7); // 63 letters
    let p61 = format!("{}shuffle", "difficult".repeat(6)); // 61 letters
    vec![d7.clone(), format!("{d7}y"), format!("{d7}ly"), format!("{p61}ffing"), format!("{p61}office"), format!("{}fi", "office".repeat(10) + "a")]
}

fn main() {
    let mut ctx = Ctx::new("C14", Level::Exploration);
    ctx.assume("lists are what boxworks_text::TextPreprocessorImpl::add_text produces from text in one font (cmr10, or cmr10 with a synthetic lig/kern program); lists built by other means (several fonts, explicit kerns, math, boxes) are not explored");
    ctx.assume("\\uchyph > 0, \\hyphenchar = '-', \\lccode = plain TeX's restricted to ASCII: the values the crate hard-codes");
    ctx.assume("'exactly the Liang positions' is read with TeX's own restriction: the positions expected in a word are those at which the transliterated pass (tex.web §902-918: reconstitute, hyphen_passed, the synchronisation of §916) creates a discretionary; inside one reconstituted ligature chain that is only the first odd position (raffish -> raf-fish, never raff-ish)");
    ctx.assume("the pass model reftex::liang::hyphenate_list is a transliteration of tex.web §894-918 written without a TeX binary; it is bound to TeX by the crate's 33 TeX-verified test expectations, which it reproduces node for node (a run refuses to start otherwise)");
    ctx.assume("synthetic programs have rules over {left boundary, a, b, -} x {a, b, -, right boundary}. Outside the quantifier (skipped and counted): a word directly followed by a ligature node that is not part of the word (it contains a non-letter or crosses the 63-letter limit) when TeX's own rebuilding of that word (tex.web §903-913 without any hyphen, by the model) does not give back the nodes it replaces: TeX §898 uses the first original character of that ligature as hyf_bchar although it is already inside the following node, and itself repeats the ligature (the crate's TeX-verified tests right_boundary_char_override_3..6 record this)");
    ctx.assume("a list in which the invariants hold but whose discretionaries differ from the transliterated TeX pass in their kerns/ligatures is counted (invariants_hold_but_list_differs_from_tex_pass), not judged: the property speaks about letters and positions only");

    let repo = std::env::var("VERIF_REPO").unwrap_or("/repo".into());
    let tfm_bytes = std::fs::read(format!("{repo}/crates/tfm/corpus/computer-modern/cmr10.tfm")).unwrap_or_default();
    let Some(cmr10) = tfm::File::deserialize(&tfm_bytes).0.ok() else {
        ctx.machinery_error(format!("cannot read cmr10.tfm under {repo}"));
        ctx.finish("");
    };
    let mut plain = Liang::new();
    let pp = std::fs::read_to_string(format!("{repo}/crates/hyphenate/src/plain_tex_patterns.txt")).unwrap_or_default();
    let pe = std::fs::read_to_string(format!("{repo}/crates/hyphenate/src/plain_tex_exceptions.txt")).unwrap_or_default();
    let errs = plain.add_patterns(&pp, &ascii_lc);
    for e in pe.split_whitespace() {
        plain.add_exception(e, &ascii_lc);
    }
    if plain.patterns.len() < 4000 || !errs.is_empty() {
        ctx.machinery_error(format!("cannot load plain TeX's patterns from {repo}"));
    }
    let mut every = Liang::new();
    every.add_patterns(&every_position_patterns(), &ascii_lc);
    let mut every_ab = Liang::new();
    every_ab.add_patterns("a1 b1", &ascii_lc);
    let env = Env { cmr10, plain, every, every_ab };

    if let Some((_fam, case)) = ctx.replay_case() {
        let mut acc = Acc::default();
        let case = if case["case"].is_object() { case["case"].clone() } else { case };
        let c = Case {
            program: case["program"].as_array().map(|a| a.iter().map(Rule::from_json).collect()).unwrap_or_default(),
            text: case["text"].as_str().unwrap_or("").to_string(),
            patterns: case["patterns"].as_str().unwrap_or("plain").to_string(),
            lhm: case["lhm"].as_i64().unwrap_or(2) as i32,
            rhm: case["rhm"].as_i64().unwrap_or(3) as i32,
            shape: case["shape"].as_u64().unwrap_or(0) as u8,
            exceptions: case["exceptions"].as_array().map(|a| a.iter().filter_map(|x| x.as_str().map(String::from)).collect()).unwrap_or_default(),
            warmup: case["warmup"].as_str().map(String::from),
            custom_patterns: case["custom_patterns"].as_str().map(String::from),
        };
        let font = synthetic_font(&env, &c.program).expect("program of a replay case compiles");
        let mut hy = real_hyphenator(&env, &font, &c.patterns, c.lhm, c.rhm);
        let mut lang = match c.patterns.as_str() {
            "plain" => env.plain.clone(),
            "every" => env.every.clone(),
            _ => env.every_ab.clone(),
        };
        if let Some(cp) = &c.custom_patterns {
            hy.hyphenator = hyphenate::Hyphenator::default();
            hy.hyphenator.load_patterns(cp);
            lang = Liang::new();
            lang.add_patterns(cp, &ascii_lc);
        }
        if let Some(w) = &c.warmup {
            let mut l = typeset(&font, w, 0);
            let _ = catch(|| hy.hyphenate(&mut l));
        }
        for e in &c.exceptions {
            hy.hyphenator.insert_exception(e);
            lang.add_exception(e, &ascii_lc);
        }
        let lang = &lang;
        judge(0, &c, &font, &hy, lang, &mut acc);
        let before = typeset(&font, &c.text, c.shape);
        eprintln!("original list: {}", show(&before));
        let mut after = before.clone();
        if catch(|| hy.hyphenate(&mut after)).is_ok() {
            eprintln!("after hyphenate: {}", show(&after));
        }
        ctx.finish_replay(acc);
    }

    self_validate(&mut ctx, &env);

    // ---------------- F1: cmr10, vocabulary x templates x pattern sets x minima
    let vocab: Vec<String> = {
        let mut v: Vec<String> = ["difficult", "office", "shuffling", "waffle", "affliction", "fifty", "efficient", "Contents", "hyphenation", "a", "fi", "baffling", "stiffly", "chaff", "flyleaf", "halfback", "shelfful", "x-y", "AVATAR", "e.g.", "offline", "fluffiest", "raffish", "offhand", "OFFICE", "Office", "well-known", "don't", "fjord", "afford", "cliffs", "fflfi", "table", "project", "association", "typewriter", "WAVY", "ff", "3.0", "--", "``office''", "table3", "present77", "project3", "algorithm2024", "3table", "naïve", "café.", "éclair", "𝐚ffine", "office—suffix", "difficult\u{a0}"].iter().map(|s| s.to_string()).collect();
        v.extend(long_words());
        // every word of plain_tex_exceptions.txt, in lower case and capitalised (punctuation comes from the templates)
        for e in pe.split_whitespace() {
            let w = e.replace('-', "");
            let mut cap = w.clone();
            cap[..1].make_ascii_uppercase();
            v.push(w);
            v.push(cap);
        }
        v
    };
    let mins: Vec<(i32, i32)> = vec![(1, 1), (1, 2), (1, 3), (2, 1), (2, 2), (2, 3), (3, 1), (3, 2), (3, 3)];
    let cmr = Font { tfm: env.cmr10.clone(), lkp: CompiledProgram::compile_from_tfm_file(&mut env.cmr10.clone()).0, model: model_font(&env.cmr10) };
    // one real hyphenator per (pattern set, minima): hyphenate(&self) is stateless
    let mut hys: Vec<(String, i32, i32, boxworks_hyphenate::Hyphenator)> = vec![];
    for ps in ["plain", "every"] {
        for &(l, r) in &mins {
            hys.push((ps.to_string(), l, r, real_hyphenator(&env, &cmr, ps, l, r)));
        }
    }
    for (l, r) in [(0, 0), (-1, 5), (64, 1), (2, 62), (63, 1), (1, 63), (62, 1), (1, 62), (31, 32), (32, 32), (i32::MIN, i32::MAX)] {
        hys.push(("every".to_string(), l, r, real_hyphenator(&env, &cmr, "every", l, r)));
    }
    {
        let templates: Vec<&str> = vec!["x {}", "x {}.", "x {}, y", "3.0 {}", "x 3.0 {}", "({})", "x ({})", "x {} {}", "{} {}", "x ``{}''", "x {}: ; {}", "x --- {}"];
        let (nv, nt, nh) = (vocab.len() as u64, templates.len() as u64, hys.len() as u64);
        let (vocab_r, templates_r, hys_r, env_r, cmr_r) = (&vocab, &templates, &hys, &env, &cmr);
        ctx.family("cmr10-one-word", &format!("cmr10: {nv} words (every cmr10 ligature at a hyphen position, capitals, explicit hyphens, punctuation, 63/64/65-letter words, a ligature across the 63-letter limit) x {nt} templates (x W | x W. | x W, y | 3.0 W | x 3.0 W | (W) | x (W) | x W W | W W | x ``W'' | x W: ; W | x --- W) x (plain TeX patterns, 'every position' patterns) x minima {{1,2,3}}^2 (+ 11 settings at the limits: 0, negative, 62/63/64, sums 63/64, i32::MIN/MAX)"), nv * nt * nh, |idx, acc| {
            let d = vcore::digits(idx, &[nv, nt, nh]);
            let w = &vocab_r[d[0] as usize];
            let (ps, l, r, hy) = &hys_r[d[2] as usize];
            let case = Case { program: vec![], text: templates_r[d[1] as usize].replace("{}", w), patterns: ps.clone(), lhm: *l, rhm: *r, shape: 0, exceptions: vec![], warmup: None, custom_patterns: None };
            if !case.text.is_ascii() {
                acc.count("text_with_a_non_ascii_character");
            }
            if case.text.as_bytes().windows(2).any(|w| w[0].is_ascii_alphabetic() && w[1].is_ascii_digit()) {
                acc.count("letters_immediately_followed_by_digits");
            }
            if liang::norm_min(*l as i64) + liang::norm_min(*r as i64) >= 63 {
                acc.count("minima_sum_63_or_more");
            }
            judge(idx, &case, cmr_r, hy, if ps == "plain" { &env_r.plain } else { &env_r.every }, acc);
            if idx % 4999 == 7 {
                acc.sample(idx, || case.json());
            }
        });
    }
    // ---------------- F2: cmr10, every pair of vocabulary words
    {
        // quick: the words of at most 16 characters; thorough: the whole vocabulary (incl. the 63..65-letter words)
        let maxlen = ctx.pick(16usize, usize::MAX);
        let short: Vec<&String> = vocab.iter().filter(|w| w.len() <= maxlen).collect();
        let sel: Vec<usize> = (0..hys.len()).collect();
        let (nv, nh) = (short.len() as u64, sel.len() as u64);
        let (short_r, hys_r, env_r, cmr_r, sel_r) = (&short, &hys, &env, &cmr, &sel);
        ctx.family("cmr10-two-words", &format!("cmr10: 'x W1 W2' for every ordered pair of the {nv} words{} x all {nh} (pattern set, minima) settings", if maxlen == 16 { " of at most 16 characters" } else { " of the vocabulary" }), nv * nv * nh, |idx, acc| {
            let d = vcore::digits(idx, &[nv, nv, nh]);
            let (ps, l, r, hy) = &hys_r[sel_r[d[2] as usize]];
            let case = Case { program: vec![], text: format!("x {} {}", short_r[d[0] as usize], short_r[d[1] as usize]), patterns: ps.clone(), lhm: *l, rhm: *r, shape: 0, exceptions: vec![], warmup: None, custom_patterns: None };
            judge(idx, &case, cmr_r, hy, if ps == "plain" { &env_r.plain } else { &env_r.every }, acc);
        });
    }
    // ---------------- F2b: two fonts (the same TFM registered as font 0 and font 1)
    {
        let words: Vec<&String> = vocab.iter().filter(|w| w.len() <= 12 && w.chars().all(|c| c.is_ascii_alphabetic())).collect();
        let mut cases: Vec<(String, usize)> = vec![];
        let sel: Vec<usize> = hys.iter().enumerate().filter(|(_, h)| matches!((h.0.as_str(), h.1, h.2), ("plain", 1, 1) | ("plain", 2, 3) | ("every", 1, 1) | ("every", 2, 2) | ("every", 1, 3) | ("every", 3, 1))).map(|(i, _)| i).collect();
        for w in &words {
            for k in 0..=w.len() {
                for (fa, fb) in [(0, 1), (1, 0), (1, 1)] {
                    // two adjacent runs in the SAME font are not one run of the main loop: TeX itself
                    // re-forms the ligatures across the seam when it rebuilds the word (the TeXbook's
                    // shelf{}ful), so only the whole word in font 1 is used for (1,1)
                    if fa == fb && k != 0 {
                        continue;
                    }
                    for tail in ["", " {0}y", "{0}."] {
                        // (a period in font 0 directly after letters of font 0 would be a same-font seam again)
                        if tail == "{0}." && (if k < w.len() { fb } else { fa }) == 0 {
                            continue;
                        }
                        for &h in &sel {
                            cases.push((format!("x {{{fa}}}{}{{{fb}}}{}{tail}", &w[..k], &w[k..]), h));
                        }
                    }
                }
            }
        }
        let (cases_r, hys_r, env_r, cmr_r) = (&cases, &hys, &env, &cmr);
        ctx.family("cmr10-two-fonts", &format!("cmr10 registered as font 0 and font 1: 'x W' with each of the {} letter-only words of at most 12 letters switched from font fa to font fb at every split position, (fa,fb) in (0,1),(1,0), or wholly in font 1, followed by nothing | a word in font 0 | (after letters of font 1) a period in font 0 x 6 (pattern set, minima) settings", words.len()), cases.len() as u64, |idx, acc| {
            let (text, h) = &cases_r[idx as usize];
            let (ps, l, r, hy) = &hys_r[*h];
            let case = Case { program: vec![], text: text.clone(), patterns: ps.clone(), lhm: *l, rhm: *r, shape: 0, exceptions: vec![], warmup: None, custom_patterns: None };
            if !text.contains("{0}{1}") && !text.contains("{1}{0}") && (text.contains("{0}") && text[3..].contains("{1}")) {
                acc.count("word_split_by_a_font_change");
            }
            judge(idx, &case, cmr_r, hy, if ps == "plain" { &env_r.plain } else { &env_r.every }, acc);
        });
    }
    // ---------------- F2c: list shapes that text alone does not produce
    {
        let words = ["difficult", "office", "Contents", "waffle", "fi", "a"];
        let templates = ["x {}", "x {} y", "x 3.0 {}", "{} {}"];
        let (nw, nt, ns, nh) = (words.len() as u64, templates.len() as u64, 6u64, hys.len() as u64);
        let (hys_r, env_r, cmr_r) = (&hys, &env, &cmr);
        ctx.family("cmr10-list-shapes", &format!("cmr10: {nw} words x {nt} templates x 6 post-edits of the list (a glue appended | every glue doubled | penalty 0 after every glue | explicit kern 0 after every glue | penalty 10000 + glue appended | font kern 0 after every glue) x all {nh} (pattern set, minima) settings"), nw * nt * ns * nh, |idx, acc| {
            let d = vcore::digits(idx, &[nw, nt, ns, nh]);
            let (ps, l, r, hy) = &hys_r[d[3] as usize];
            let case = Case { program: vec![], text: templates[d[1] as usize].replace("{}", words[d[0] as usize]), patterns: ps.clone(), lhm: *l, rhm: *r, shape: d[2] as u8 + 1, exceptions: vec![], warmup: None, custom_patterns: None };
            acc.count("hand_made_list_shape");
            judge(idx, &case, cmr_r, hy, if ps == "plain" { &env_r.plain } else { &env_r.every }, acc);
        });
    }
    // ---------------- F2d: exceptions inserted into the underlying hyphenate::Hyphenator before the pass
    {
        let lists: Vec<Vec<&str>> = vec![
            vec!["man-u-script"],
            vec!["of-fice"],
            vec!["off-ice"],
            vec!["of-fice", "off-ice"],
            vec!["off-ice", "of-fice"],
            vec!["tab-le"],
            vec!["pro-ject", "proj-ect"],
            vec!["diff-icult"],
            vec!["dif-fi-cult", "d-i-f-f-i-c-u-l-t"],
            vec!["as-sociate"],
            vec!["waff-le", "shuff-ling", "aff-lic-tion", "affliction"],
        ];
        let words = ["manuscript", "office", "Office", "offices", "table", "project", "difficult", "associate", "waffle", "shuffling", "affliction"];
        let templates = ["x {}", "x {}.", "x {} {}"];
        let smins = [(1, 1), (2, 3), (2, 2)];
        // one real hyphenator and one model language per (list, base pattern set, minima)
        let mut settings: Vec<(usize, &str, i32, i32, boxworks_hyphenate::Hyphenator, Liang)> = vec![];
        for (li, list) in lists.iter().enumerate() {
            for base in ["plain", "every"] {
                for (l, r) in smins {
                    let mut hy = real_hyphenator(&env, &cmr, base, l, r);
                    let mut lang = if base == "plain" { env.plain.clone() } else { env.every.clone() };
                    for e in list {
                        hy.hyphenator.insert_exception(e);
                        lang.add_exception(e, &ascii_lc);
                    }
                    settings.push((li, base, l, r, hy, lang));
                }
            }
        }
        let (nw, nt, nset) = (words.len() as u64, templates.len() as u64, settings.len() as u64);
        let (settings_r, lists_r, env_r, cmr_r) = (&settings, &lists, &env, &cmr);
        ctx.family("cmr10-custom-exceptions", &format!("cmr10: {} exception lists inserted through the pub field `hyphenator` (longer than every pattern; re-declared with other breaks in both orders, the last must win; plain TeX's own entries re-declared; breaks before, inside and after the ff/ffi/ffl ligatures) x base patterns (plain TeX incl. its 14 exceptions, 'every position') x minima (1,1),(2,3),(2,2) x {nw} words x {nt} templates", lists.len()), nw * nt * nset, |idx, acc| {
            let d = vcore::digits(idx, &[nw, nt, nset]);
            let (li, base, l, r, hy, lang) = &settings_r[d[2] as usize];
            let word = words[d[0] as usize];
            let case = Case { program: vec![], text: templates[d[1] as usize].replace("{}", word), patterns: base.to_string(), lhm: *l, rhm: *r, shape: 0, exceptions: lists_r[*li].iter().map(|s| s.to_string()).collect(), warmup: None, custom_patterns: None };
            // counters from the case and the model
            let wl: Vec<char> = word.to_ascii_lowercase().chars().collect();
            let base_lang = if *base == "plain" { &env_r.plain } else { &env_r.every };
            let longest = base_lang.patterns.iter().map(|p| p.key.iter().filter(|c| **c != liang::EDGE).count()).max().unwrap_or(0);
            let entries: Vec<liang::Exception> = lists_r[*li].iter().filter_map(|e| liang::parse_exception(e, &ascii_lc)).filter(|e| e.letters == wl).collect();
            if !entries.is_empty() && wl.len() > longest + 1 {
                acc.count("exception_longer_than_longest_pattern");
            }
            let earlier: Vec<&liang::Exception> = base_lang.exceptions.iter().filter(|e| e.letters == wl).chain(entries.iter()).collect();
            if earlier.len() >= 2 && earlier[..earlier.len() - 1].iter().any(|e| e.positions != earlier[earlier.len() - 1].positions) {
                acc.count("exception_redeclared_last_wins");
            }
            judge(idx, &case, cmr_r, hy, lang, acc);
        });
    }
    // ---------------- F2e: pass, insert an exception, pass again - on ONE hyphenator
    {
        let spellings = ["office", "Office", "OFFICE"];
        let entries = ["of-fice", "off-ice"];
        let bases = ["plain", "every"];
        let n = (spellings.len() * entries.len() * spellings.len() * bases.len()) as u64;
        let (env_r, cmr_r) = (&env, &cmr);
        ctx.family("cmr10-pass-insert-pass", "cmr10: 'x W1' is hyphenated, then one exception entry (of-fice | off-ice) is inserted into the same hyphenator, then 'x W2' is hyphenated and judged, for W1, W2 in office / Office / OFFICE x base patterns (plain TeX, 'every position'), minima (1,1)", n, |idx, acc| {
            let d = vcore::digits(idx, &[3, 2, 3, 2]);
            let base = bases[d[3] as usize];
            let mut hy = real_hyphenator(env_r, cmr_r, base, 1, 1);
            let mut lang = if base == "plain" { env_r.plain.clone() } else { env_r.every.clone() };
            let warm = format!("x {}", spellings[d[0] as usize]);
            let first = Case { program: vec![], text: warm.clone(), patterns: base.to_string(), lhm: 1, rhm: 1, shape: 0, exceptions: vec![], warmup: None, custom_patterns: None };
            judge(idx, &first, cmr_r, &hy, &lang, acc);
            hy.hyphenator.insert_exception(entries[d[1] as usize]);
            lang.add_exception(entries[d[1] as usize], &ascii_lc);
            let second = Case { program: vec![], text: format!("x {}", spellings[d[2] as usize]), patterns: base.to_string(), lhm: 1, rhm: 1, shape: 0, exceptions: vec![entries[d[1] as usize].to_string()], warmup: Some(warm), custom_patterns: None };
            acc.count("list_hyphenated_again_after_insert_exception");
            if d[0] == d[2] && d[2] != 0 {
                acc.count("same_capitalised_word_hyphenated_before_and_after_insert_exception");
            }
            judge(idx, &second, cmr_r, &hy, &lang, acc);
        });
    }
    // ---------------- F2f: long patterns loaded through the pub field (the 16-zero run encoding at list level)
    {
        let seq: Vec<char> = ('a'..='z').cycle().take(40).collect();
        let mut settings: Vec<(String, String, i32, i32, boxworks_hyphenate::Hyphenator, Liang)> = vec![];
        for l in [15usize, 16, 17, 31, 32, 33] {
            for anchored in [false, true] {
                // a digit after l letters, three more letters behind it
                let pattern = format!("{}{}1{}", if anchored { "." } else { "" }, seq[..l].iter().collect::<String>(), seq[l..l + 3].iter().collect::<String>());
                let word: String = seq[..l + 6].iter().collect();
                for (lm, rm) in [(2, 3), (1, 1)] {
                    let mut h = hyphenate::Hyphenator::default();
                    h.load_patterns(&pattern);
                    let hy = boxworks_hyphenate::Hyphenator { lig_kern_program: cmr.lkp.clone(), hyphenator: h, left_hyphen_min: lm, right_hyphen_min: rm };
                    let mut lang = Liang::new();
                    lang.add_patterns(&pattern, &ascii_lc);
                    settings.push((pattern.clone(), word.clone(), lm, rm, hy, lang));
                }
            }
        }
        let templates = ["x {}", "x {}.", "x {} {}"];
        let (nt, ns) = (templates.len() as u64, settings.len() as u64);
        let (settings_r, cmr_r) = (&settings, &cmr);
        ctx.family("cmr10-custom-patterns", "cmr10: a hyphenate::Hyphenator loaded (through the pub field) with ONE long pattern - a digit after 15, 16, 17, 31, 32 or 33 letters of abc..., unanchored or anchored at the start - x minima (2,3),(1,1) x the matching word in lower case and capitalised x 3 templates", nt * ns * 2, |idx, acc| {
            let d = vcore::digits(idx, &[ns, nt, 2]);
            let (pattern, word, lm, rm, hy, lang) = &settings_r[d[0] as usize];
            let mut w = word.clone();
            if d[2] == 1 {
                w[..1].make_ascii_uppercase();
            }
            let case = Case { program: vec![], text: templates[d[1] as usize].replace("{}", &w), patterns: "custom".into(), lhm: *lm, rhm: *rm, shape: 0, exceptions: vec![], warmup: None, custom_patterns: Some(pattern.clone()) };
            if pattern.chars().take_while(|c| !c.is_ascii_digit()).filter(|c| c.is_ascii_alphabetic()).count() >= 16 {
                acc.count("list_word_matched_by_pattern_with_16_or_more_leading_letters");
            }
            judge(idx, &case, cmr_r, hy, lang, acc);
        });
    }
    // ---------------- F2g: every node kind as the node that terminates the word (TeX §899)
    {
        let words = ["difficult", "office", "Contents", "table"];
        let (nw, nsh, nh) = (words.len() as u64, 12u64, hys.len() as u64);
        let (hys_r, env_r, cmr_r) = (&hys, &env, &cmr);
        ctx.family("cmr10-terminating-node", &format!("cmr10: 'x W' for {nw} words with one node appended directly after the word: explicit / accent / math kern, rule, hbox, vbox, math-on, math-off, penalty, mark, adjust, empty discretionary (TeX §899: a non-font kern, penalty, mark, adjust let the word be hyphenated; rule, boxes, math, discretionary do not) x all {nh} (pattern set, minima) settings"), nw * nsh * nh, |idx, acc| {
            let d = vcore::digits(idx, &[nw, nsh, nh]);
            let (ps, l, r, hy) = &hys_r[d[2] as usize];
            let case = Case { program: vec![], text: format!("x {}", words[d[0] as usize]), patterns: ps.clone(), lhm: *l, rhm: *r, shape: d[1] as u8 + 7, exceptions: vec![], warmup: None, custom_patterns: None };
            acc.count("word_terminated_by_each_node_kind");
            judge(idx, &case, cmr_r, hy, if ps == "plain" { &env_r.plain } else { &env_r.every }, acc);
        });
    }
    // ---------------- F3/F4/F5: synthetic programs
    let all_kinds: Vec<u8> = (0..8).collect();
    let inserted: Vec<u8> = ctx.pick(vec![b'a', b'b', b'c'], vec![b'a', b'b', b'c', b'-']);
    let rules1 = all_rules(65536, &inserted, &all_kinds);
    let rules2 = all_rules(2 * 65536, &inserted, &all_kinds);
    let words_ab = |maxlen: usize| -> Vec<String> {
        let mut v = vec![];
        for len in 1..=maxlen {
            for m in 0..(1u32 << len) {
                v.push((0..len).map(|i| if m >> i & 1 == 1 { 'b' } else { 'a' }).collect::<String>());
            }
        }
        v
    };
    let synth_templates: Vec<&str> = vec!["x {}", "x {}.", "x {}-a", "x -{}", "x .{}", "{} {}", "x . {}"];
    let ins_text = |v: &[u8]| v.iter().map(|c| (*c as char).to_string()).collect::<Vec<_>>().join("|");
    {
        let words = words_ab(4);
        // (0xE9 = é: a ligature character above 127; KRN 0: a kern node of width zero)
        let mut wide = all_rules(65536, &[b'a', b'b', b'c', b'-', 0xE9], &all_kinds);
        wide.extend(all_rules(0, &[], &[]));
        let mut programs: Vec<Vec<Rule>> = vec![vec![]];
        programs.extend(wide.iter().map(|r| vec![*r]));
        let smins: Vec<(i32, i32)> = vec![(1, 1), (2, 1), (1, 2)];
        let (np, words_r, programs_r, env_r, st, smins_r) = (programs.len() as u64, &words, &programs, &env, &synth_templates, &smins);
        ctx.family_ranges("synthetic-one-rule", &format!("cmr10 with its lig/kern program replaced by the empty program or one of the {} single rules over {{left boundary,a,b,-}} x {{a,b,-,right boundary(=c)}} x {{kern, kern of width 0, 8 ligature kinds inserting a|b|c|-|é(0xE9)}} x all {} words over {{a,b}} of length 1..4 x {} templates (x W | x W. | x W-a | x -W | x .W | W W | x . W) x 'every position' patterns x minima (1,1),(2,1),(1,2)", np - 1, words.len(), st.len()), np, |r, acc| {
            for pi in r {
                run_synthetic(pi, &programs_r[pi as usize], words_r, st, smins_r, env_r, acc);
            }
        });
    }
    {
        // quick: 400 rules (ligatures inserting a|b|c); thorough: 528 rules (also inserting '-')
        let words = words_ab(4);
        let st: Vec<&str> = synth_templates.clone();
        let smins: Vec<(i32, i32)> = vec![(1, 1), (2, 2), (1, 2)];
        let n1 = rules1.len() as u64;
        let (words_r, env_r, st_r, smins_r, rules1_r, rules2_r) = (&words, &env, &st, &smins, &rules1, &rules2);
        ctx.family("synthetic-two-rules", &format!("every unordered pair of the {n1} single rules (ligatures inserting {}) with different (left,right) (index space {n1}^2) x all {} words over {{a,b}} of length 1..4 x {} templates ({}) x 'every position' patterns x minima (1,1),(2,2),(1,2)", ins_text(&inserted), words.len(), st.len(), st.join(" | ").replace("{}", "W")), n1 * n1, |idx, acc| {
            let (i, j) = (idx / n1, idx % n1);
            if j <= i {
                return;
            }
            let (a, b) = (rules1_r[i as usize], rules2_r[j as usize]);
            if a.left == b.left && a.right == b.right {
                acc.skipped += 1;
                return;
            }
            run_synthetic(idx, &[a, b], words_r, st_r, smins_r, env_r, acc);
        });
    }
    {
        // three rules over a reduced rule set. quick: kern, LIG, LIG/, LIG/>, /LIG>, /LIG/> inserting a;
        // thorough: also ligatures inserting c (a superset)
        let kinds: Vec<u8> = vec![0, 1, 2, 4, 6];
        let ins3: Vec<u8> = ctx.pick(vec![b'a'], vec![b'a', b'c']);
        let r1 = all_rules(65536, &ins3, &kinds);
        let r2 = all_rules(2 * 65536, &ins3, &kinds);
        let r3 = all_rules(3 * 65536, &ins3, &kinds);
        let words = words_ab(3);
        let st: Vec<&str> = vec!["x {}", "x {}.", "x -{}", "x {}-a"];
        let smins: Vec<(i32, i32)> = vec![(1, 1)];
        let n = r1.len() as u64;
        let (words_r, env_r, st_r, smins_r, r1, r2, r3) = (&words, &env, &st, &smins, &r1, &r2, &r3);
        ctx.family("synthetic-three-rules", &format!("every unordered triple of {n} rules (kern{} inserting {}) with pairwise different (left,right) (index space {n}^3) x all words over {{a,b}} of length 1..3 x {} templates ({}) x 'every position' patterns x minima (1,1)", kinds.iter().map(|k| format!(", {}", POSTLIG_PL[*k as usize])).collect::<String>(), ins_text(&ins3), st.len(), st.join(" | ").replace("{}", "W")), n * n * n, |idx, acc| {
            let (i, j, k) = (idx / (n * n), idx / n % n, idx % n);
            if !(i < j && j < k) {
                return;
            }
            let (a, b, c) = (r1[i as usize], r2[j as usize], r3[k as usize]);
            let key = |r: &Rule| (r.left, r.right);
            if key(&a) == key(&b) || key(&a) == key(&c) || key(&b) == key(&c) {
                acc.skipped += 1;
                return;
            }
            run_synthetic(idx, &[a, b, c], words_r, st_r, smins_r, env_r, acc);
        });
    }

    ctx.require("list_hyphenated_again_after_insert_exception", "one hyphenator hyphenates a list, gets an exception, hyphenates a second list");
    ctx.require("same_capitalised_word_hyphenated_before_and_after_insert_exception", "the same spelling with capitals is hyphenated before and after an exception for its word is inserted");
    ctx.require("list_word_matched_by_pattern_with_16_or_more_leading_letters", "a word in a list is cut by a pattern whose digit follows 16 or more unscored letters (the 16-zero run byte of the op stream)");
    ctx.require("word_terminated_by_each_node_kind", "a word directly followed by each kind of node (kerns of every kind, rule, boxes, math, penalty, mark, adjust, discretionary)");
    ctx.require("letters_immediately_followed_by_digits", "a run of letters directly followed by digits of the same font (table3)");
    ctx.require("exception_longer_than_longest_pattern", "a word whose exception entry has more letters than the longest pattern plus one is hyphenated in a list");
    ctx.require("exception_redeclared_last_wins", "a word whose exception was declared before with other breaks (plain TeX's entry, or an earlier insert) is hyphenated in a list");
    ctx.require("word_split_by_a_font_change", "a run of letters changes font in the middle (TeX tries only the letters of the first font)");
    ctx.require("hand_made_list_shape", "lists with doubled/trailing glue, zero penalties and zero kerns");
    ctx.require("synthetic_rule_with_a_zero_width_kern", "a lig/kern rule whose kern has width 0");
    ctx.require("synthetic_ligature_character_above_127", "a ligature rule that inserts a character above 127");
    ctx.require("text_with_a_non_ascii_character", "text with 2-, 3- and 4-byte characters (all non-letters for plain TeX's \\lccode)");
    ctx.require("minima_sum_63_or_more", "hyphen minima whose sum reaches TeX's 63-letter limit");
    ctx.require("cut_strictly_inside_a_ligature", "an expected hyphen falls strictly inside a ligature of the original list");
    ctx.require("second_odd_position_inside_one_ligature", "two Liang positions inside one ligature (TeX offers only the first)");
    ctx.require("word_cut_off_at_63_letters", "a word of more than 63 letters is tried with its first 63 letters");
    ctx.require("word_preceded_by_non_letters", "a hyphenated word whose first letter is preceded by non-letter nodes after the glue");
    ctx.require("word_after_letterless_token", "a hyphenated word that follows a token without letters (the D12 shape)");
    ctx.require("word_with_capitals_hyphenated", "a word with upper-case letters that has hyphens");
    ctx.require("synthetic_left_boundary_rule_fired", "a left-boundary rule changed the original list");
    ctx.require("synthetic_right_boundary_rule_fired", "a right-boundary rule changed the original list");
    ctx.require("synthetic_hyphen_rule_at_a_cut", "the program has a rule (letter, '-') for the letter before an expected hyphen");
    ctx.require("synthetic_program_with_loop_skipped", "programs with an infinite ligature loop were met and skipped");
    {
        let m = WITNESSES.lock().unwrap();
        let v: Vec<Value> = m.iter().map(|(k, (n, _, w))| json!({"label": k, "cases": n, "first": w})).collect();
        ctx.extra("failure_labels_with_first_witness", json!(v));
        // one replayable witness per failure label (the six replay files written by `finish` are the
        // six smallest indices, which usually belong to one label)
        if ctx.replay.is_none() && ctx.only_family.is_none() {
            let dir = std::path::PathBuf::from(std::env::var("VERIF_OUT").unwrap_or_else(|_| "/verif".into())).join("replays");
            let _ = std::fs::create_dir_all(&dir);
            if let Ok(rd) = std::fs::read_dir(&dir) {
                for e in rd.flatten() {
                    if e.file_name().to_string_lossy().starts_with("C14w-") {
                        let _ = std::fs::remove_file(e.path());
                    }
                }
            }
            for (k, (label, (_, _, w))) in m.iter().filter(|(l, _)| !l.starts_with("outside")).enumerate() {
                let path = dir.join(format!("C14w-{}.json", k + 1));
                let _ = std::fs::write(&path, serde_json::to_string_pretty(&json!({"property": "C14", "family": "", "case": w["case"], "note": label, "replay": format!("./check C14 --replay {}", path.display())})).unwrap());
            }
        }
    }
    ctx.finish("one evaluation = one list (text typeset in a font, then hyphenated) judged by three invariants: (1) deleting the inserted discretionaries restores the list node for node, (2) letters are conserved at every inserted discretionary, (3) in exactly the words TeX's word finder selects, the inserted discretionaries cover every position TeX's pass offers and lie within the positions Liang's patterns allow inside the minima; non-trivial = at least one hyphen is expected in the list");
}

fn run_synthetic(idx: u64, rules: &[Rule], words: &[String], templates: &[&str], mins: &[(i32, i32)], env: &Env, acc: &mut Acc) {
    let Some(font) = synthetic_font(env, rules) else {
        acc.skipped += 1;
        acc.count("synthetic_program_with_loop_skipped");
        return;
    };
    for &(l, r) in mins {
        let hy = real_hyphenator(env, &font, "every_ab", l, r);
        for w in words {
            for t in templates {
                let case = Case { program: rules.to_vec(), text: t.replace("{}", w), patterns: "every_ab".into(), lhm: l, rhm: r, shape: 0, exceptions: vec![], warmup: None, custom_patterns: None };
                // counters from the case: does a boundary / hyphen rule touch this text?
                let first = w.as_bytes()[0];
                let last = *w.as_bytes().last().unwrap();
                if rules.iter().any(|r| r.left == Sym::LB && r.right == Sym::C(first)) && !t.starts_with("x -{") && !t.starts_with("x .{") {
                    acc.count("synthetic_left_boundary_rule_fired");
                }
                if rules.iter().any(|r| r.right == Sym::RB && r.left == Sym::C(last)) && (t.ends_with("{}")) {
                    acc.count("synthetic_right_boundary_rule_fired");
                }
                if rules.iter().any(|r| r.right == Sym::C(b'-') && matches!(r.left, Sym::C(c) if w.as_bytes()[..w.len() - 1].contains(&c))) {
                    acc.count("synthetic_hyphen_rule_at_a_cut");
                }
                if rules.iter().any(|r| r.op == Op::Kern(0)) {
                    acc.count("synthetic_rule_with_a_zero_width_kern");
                }
                if rules.iter().any(|r| matches!(r.op, Op::Lig(z, _) if z >= 128)) {
                    acc.count("synthetic_ligature_character_above_127");
                }
                judge(idx, &case, &font, &hy, &env.every_ab, acc);
            }
        }
    }
    if idx % 9973 == 1 {
        acc.sample(idx, || json!({"program": rules.iter().map(|r| r.compact()).collect::<Vec<_>>()}));
    }
}

// ---------------------------------------------------------------- model self-validation

// generated from crates/boxworks-hyphenate/src/lib.rs (tests verified against TeX with TEXCRAFT_VERIFY=tex)
const TEX_VERIFIED: &[(&str, &str, &[&str], &str, Option<&str>, i32)] = &[
    ("no_hyphens", "mint", &[], "c:m c:i c:n c:t", None, 1),
    ("most_simple_case", "a-b", &[], "c:a d[c:-||0] c:b", None, 1),
    ("lig_1", "a-b", &["ab -> axb^"], "d[c:a c:-||2] c:a l:x<> c:b", None, 1),
    ("lig_with_hyphen", "a-b", &["a- -> ax-^"], "d[c:a l:x<> c:-||1] c:a c:b", None, 1),
    ("lig_with_hyphen_and_letters", "a-b", &["a- -> ax-^", "ab -> ac^_"], "d[c:a l:x<> c:-|c:b|2] c:a l:c<b>", None, 1),
    ("left_boundary_char_1", "a-b", &["|b -> |c^_"], "c:a d[c:-|l:c<b>L|1] c:b", None, 1),
    ("left_boundary_char_2", "a-b", &["|d -> |c^_"], "c:a d[c:-||0] c:b", None, 1),
    ("left_boundary_char_and_pre_break_1", "a-b", &["|- -> |c^_"], "c:a d[c:-||0] c:b", None, 1),
    ("left_boundary_char_and_pre_break_2", "ab-c", &["bc -> _z^_", "|b -> |d^_"], "c:a d[c:b c:-|c:c|1] l:z<bc>", None, 1),
    ("pre_break_lig_kern_starts_from_separation_point", "abc-d", &["ab -> ax^_", "xc -> _y^_", "yd -> _z^_"], "d[c:a l:y<bc> c:-|c:d|2] c:a l:z<bcd>", None, 1),
    ("right_boundary_char_after_hyphen", "a-b", &["-| -> -c^|"], "c:a d[c:- l:c<>R||0] c:b", None, 1),
    ("big_lig_1", "a-bc", &["ab -> _x^_", "xc -> _y^_"], "d[c:a c:-|c:b c:c|1] l:y<abc>", None, 1),
    ("big_lig_2", "a-bc", &["ab -> _x^_", "xc -> _y^_", "bc -> _z^_"], "d[c:a c:-|l:z<bc>|1] l:y<abc>", None, 1),
    ("big_lig_3", "ab-c", &["ab -> _x^_", "xc -> _y^_"], "d[l:x<ab> c:-|c:c|1] l:y<abc>", None, 1),
    ("big_lig_4", "ab-c", &["ab -> ax^_"], "c:a l:x<b> d[c:-||0] c:c", None, 1),
    ("big_lig_with_hyphen", "ab-c", &["ab -> ax^_", "x- -> xy^-"], "d[c:a l:x<b> l:y<> c:-||2] c:a l:x<b> c:c", None, 1),
    ("big_lig_with_hyphen_2", "ab-c", &["ab -> ax^b", "x- -> xy^-"], "c:a l:x<> c:b d[c:-||0] c:c", None, 1),
    ("empty_lig_before", "a-b", &["ab -> ax^b"], "d[c:a c:-||2] c:a l:x<> c:b", None, 1),
    ("simple_kern", "a-b", &["ab -> a[100]b"], "d[c:a c:-||2] c:a k c:b", None, 1),
    ("same_kern", "a-b", &["ab -> a[100]b", "a- -> a[100]-"], "d[c:a k c:-||2] c:a k c:b", None, 1),
    ("synchronization_1", "a-bcdefgh", &["ab -> _x^_", "bc -> _y^_", "cd -> _z^_", "de -> _w^_", "ef -> _v^_"], "d[c:a c:-|l:y<bc> l:w<de> c:f|3] l:x<ab> l:z<cd> l:v<ef> c:g c:h", None, 1),
    ("synchronization_2", "a-bcd-ef-gh", &["ab -> _x^_", "bc -> _y^_", "cd -> _z^_", "de -> _w^_", "ef -> _v^_"], "d[c:a c:-|l:y<bc> l:w<de> c:f|3] l:x<ab> l:z<cd> l:v<ef> d[c:-||0] c:g c:h", None, 1),
    ("synchronization_3", "a-bcde", &["ab -> _x^_", "bc -> _y^_", "xc -> _y^_", "yd -> yzd^"], "d[c:a c:-|l:y<bc> l:z<>|2] l:y<abc> l:z<> c:d c:e", None, 1),
    ("word_ends_in_comma_1", "baby,", &["y, -> y[100],", "y| -> y[200]|"], "c:b c:a c:b c:y k c:,", Some("baby"), 1),
    ("word_ends_in_comma_2", "baby,", &["y, -> y[100],", "y| -> y[200]|"], "c:b c:a d[c:-||0] c:b c:y k c:,", Some("ba-by"), 1),
    ("right_boundary_char_override_1", "ba-by", &["y| -> y.^|"], "c:b c:a d[c:-||0] c:b c:y l:.<>R", None, 1),
    ("right_boundary_char_override_2", "ab.", &["|b -> |c^_", "c. -> c,^_"], "c:a d[c:-|l:c<b>L l:,<>R|1] c:b c:.", Some("a-b"), 1),
    ("right_boundary_char_override_3", "journey.", &["y. -> y^,_", ",| -> ,?^|"], "c:j c:o c:u c:r d[c:-||0] c:n c:e c:y l:,<>R l:,<.> l:?<>R", Some(""), 1),
    ("right_boundary_char_override_4", "journey.", &["y. -> y^,_", "y, -> y^?_"], "c:j c:o c:u c:r d[c:-||0] c:n c:e c:y l:?<>R l:?<.>", Some(""), 1),
    ("right_boundary_char_override_5", "journey.", &["y. -> y,^_"], "c:j c:o c:u c:r d[c:-||0] c:n c:e c:y l:,<>R l:,<.>", Some(""), 1),
    ("right_boundary_char_override_6", "journey.", &["y. -> y^,_", "y, -> y^?,"], "c:j c:o c:u c:r d[c:-||0] c:n c:e c:y l:?<> l:,<>R l:,<.>", Some(""), 1),
    ("sneezing", "sneezing", &["y. -> y^,_", "y, -> y^?,"], "c:s c:n c:e c:e c:z d[c:-||0] c:i c:n c:g", Some(""), 3),
    ("difficult", "d-if-fi-cult", &["ff -> _0^_", "0i -> _1^_"], "c:d c:i d[c:f c:-|c:f c:i|1] l:1<ffi> d[c:-||0] c:c c:u c:l c:t", Some(""), 3),
];

/// The compact rule notation of the repository's tests (`tfm::ligkern::lang::Operation::parse_compact`):
/// `ab -> a[100]b` kern; `ab -> axb^` ligature: left or `_`, inserted, right or `_`, `^` after the
/// character the cursor ends on; `|` as left = left boundary, as right = the boundary character.
fn parse_compact_rule(line: &str) -> (Option<char>, char, LkOp) {
    let (lhs, rhs) = line.split_once("->").expect("rule has ->");
    let lhs: Vec<char> = lhs.trim().chars().collect();
    let rhs = rhs.trim();
    let left = if lhs[0] == '|' { None } else { Some(lhs[0]) };
    let right = lhs[1];
    if rhs.contains('[') {
        return (left, right, LkOp::Kern(rhs[rhs.find('[').unwrap() + 1..rhs.find(']').unwrap()].parse::<i64>().unwrap()));
    }
    let mut chars: Vec<char> = vec![];
    let mut cursor = 0;
    for c in rhs.chars() {
        if c == '^' {
            cursor = chars.len() - 1;
        } else {
            chars.push(c);
        }
    }
    let (keep_l, keep_r) = (chars[0] != '_', chars[2] != '_');
    let kind = match (keep_l, keep_r, cursor) {
        (false, false, 1) => 0,
        (false, true, 1) => 1,
        (false, true, 2) => 5,
        (true, false, 0) => 2,
        (true, false, 1) => 6,
        (true, true, 0) => 3,
        (true, true, 1) => 7,
        (true, true, 2) => 11,
        other => panic!("bad compact rule {line}: {other:?}"),
    };
    (left, right, LkOp::Lig { kind, ch: chars[1] })
}

/// The repository's TeX-verified expectations replayed through the model: for each of the 33 cases the
/// list is typeset by the model's cursor machine, hyphenated by the transliterated pass (§894-918)
/// with plain TeX's patterns plus the case's `\hyphenation` entry, and compared node for node with
/// what TeX produced.
fn self_validate(ctx: &mut Ctx, env: &Env) {
    let mut ok = 0;
    for (name, input, program, want, patterns, lhm) in TEX_VERIFIED {
        let mut font = LkFont::default();
        for line in *program {
            let r = parse_compact_rule(line);
            if r.1 == '|' {
                font.bchar = Some('|');
            }
            font.rules.push(r);
        }
        let word: Vec<char> = input.chars().filter(|c| *c != '-').collect();
        let mut list = liang::typeset_run(&font, &['x']);
        list.push(TNode::Other(Node::Glue));
        list.extend(liang::typeset_run(&font, &word));
        let mut lang = env.plain.clone();
        for e in patterns.unwrap_or(input).split_whitespace() {
            lang.add_exception(e, &ascii_lc);
        }
        let hyf_fn = |w: &[char]| lang.hyf(w);
        let pp = liang::PassParams { hyf: &hyf_fn, lc: &ascii_lc, uc_hyph: true, l_hyf: liang::norm_min(*lhm as i64), r_hyf: 1, hyphen_char: '-', always_left_boundary: false, always_rebuild: false, ignore_left_context: false, font_bchar_at_word_end: false };
        let got = match catch(|| liang::hyphenate_list(&list, &font, &pp)) {
            Ok(g) => liang::render(&g[2.min(g.len())..]),
            Err(p) => format!("model panicked: {}", p.describe()),
        };
        if got == *want {
            ok += 1;
        } else {
            ctx.machinery_error(format!("model self-validation (boxworks-hyphenate test {name}): TeX gives [{want}], the model gives [{got}] from [{}]", liang::render(&list)));
        }
    }
    ctx.extra("model_self_validation", json!({"tex_verified_cases_reproduced_by_the_model": ok, "of": TEX_VERIFIED.len()}));
    // word finder: word_ends_in_comma: "baby" kern "," -> word baby, hb = the kern, bchar = ','
    let fp = liang::FinderParams { lc: &ascii_lc, uc_hyph: true, l_hyf: 1, r_hyf: 1, hyphen_char_ok: &|_| true };
    let ch = |c: char| Node::Char { c, font: 0 };
    let mut list = vec![ch('x'), Node::Glue];
    list.extend("baby".chars().map(ch));
    list.push(Node::Kern { normal: true });
    list.push(ch(','));
    match liang::words(&list, &fp).as_slice() {
        [w] if w.letters == vec!['b', 'a', 'b', 'y'] && w.hb == 6 && w.bchar == liang::Bchar::Char(',') && w.ha == 1 => {}
        other => ctx.machinery_error(format!("word finder self-validation (word_ends_in_comma): {other:?}")),
    }
}
