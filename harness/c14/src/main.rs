//! C14 — not built yet.
fn main() {
    eprintln!("c14: check not built yet");
    std::process::exit(2);
}
