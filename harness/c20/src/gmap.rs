//! Grouping map: real `GroupingContainer` against `reftex::scope::ScopeModel`.

use crate::common::{mismatch, Mismatch};
use reftex::scope::{Scope as MScope, ScopeModel};
use std::collections::HashMap;
use texcraft_stdext::collections::groupingmap::{BackingContainer, GroupingContainer, Item, NoGroupToEndError, Scope};
use vcore::Acc;

pub const N_ACT: usize = 10;
pub type GC<T> = GroupingContainer<usize, u8, T>;
pub type Model = ScopeModel<usize, u8>;

/// The two backing containers the crate ships.
pub trait Back: BackingContainer<usize, u8> + PartialEq + std::fmt::Debug {
    const NAME: &'static str;
    /// Physical size of the backing store (for the Vec: slots, including empty ones).
    fn raw_len(&self) -> usize;
}
impl Back for HashMap<usize, u8> {
    const NAME: &'static str = "GroupingHashMap";
    fn raw_len(&self) -> usize {
        self.len()
    }
}
impl Back for Vec<Option<u8>> {
    const NAME: &'static str = "GroupingVec";
    fn raw_len(&self) -> usize {
        Vec::len(self)
    }
}

#[derive(Clone, Copy, Debug, PartialEq, Eq)]
pub enum Act {
    Ins { k: usize, v: u8, global: bool },
    Begin,
    End,
}

/// Action alphabet: 0..8 = insert(k, v, Local|Global) for k, v in {0,1}; 8 = begin_group; 9 = end_group.
pub fn act(a: u8) -> Act {
    match a {
        0..=7 => Act::Ins { k: ((a >> 2) & 1) as usize, v: (a >> 1) & 1, global: a & 1 == 1 },
        8 => Act::Begin,
        _ => Act::End,
    }
}

/// Second alphabet (pattern "a second/third instance", "both sides of a limit"): three keys with
/// gaps, so a Vec-backed map is extended by 0, 1 and several slots. 0..12 = insert(k, v, Local|Global)
/// for k in {0,2,5}, v in {0,1}; 12 = begin_group; 13 = end_group.
pub fn act3(a: u8) -> Act {
    match a {
        0..=11 => Act::Ins { k: [0usize, 2, 5][(a >> 2) as usize], v: (a >> 1) & 1, global: a & 1 == 1 },
        12 => Act::Begin,
        _ => Act::End,
    }
}

/// An action alphabet plus the way the container is created: `init` empty = `Default`, otherwise
/// `FromIterator<(K, V)>` on these pairs (a later pair for the same key wins).
#[derive(Clone, Copy)]
pub struct Alpha {
    pub n: usize,
    pub dec: fn(u8) -> Act,
    pub init: &'static [(usize, u8)],
}
pub const A2: Alpha = Alpha { n: N_ACT, dec: act, init: &[] };
pub const A3: Alpha = Alpha { n: 14, dec: act3, init: &[] };
pub const INITS: [&[(usize, u8)]; 4] = [&[(0, 1)], &[(0, 0), (0, 1)], &[(1, 1), (0, 0)], &[(5, 1)]];

pub fn render(h: &[u8], al: &Alpha) -> String {
    let mut s = String::new();
    if !al.init.is_empty() {
        s.push_str(&format!("from_iter({:?})", al.init));
    }
    for (i, a) in h.iter().enumerate() {
        if i > 0 || !al.init.is_empty() {
            s.push(' ');
        }
        match (al.dec)(*a) {
            Act::Ins { k, v, global } => s.push_str(&format!("{}{}={}", if global { "G" } else { "L" }, k, v)),
            Act::Begin => s.push('{'),
            Act::End => s.push('}'),
        }
    }
    s
}

/// Everything the public read API shows of the current level.
#[derive(Clone, PartialEq, Eq, Debug, Hash)]
pub struct Vis {
    pub items: Vec<(usize, u8)>,
    pub gets: [Option<u8>; 7],
    pub len: usize,
    pub empty: bool,
}

pub fn vis<T: Back>(c: &GC<T>) -> Vis {
    let mut items: Vec<(usize, u8)> = c.iter().map(|(k, v)| (k, *v)).collect();
    items.sort();
    let mut gets = [None; 7];
    for (k, g) in gets.iter_mut().enumerate() {
        *g = c.get(&k).copied();
    }
    Vis { items, gets, len: c.len(), empty: c.is_empty() }
}
fn vis_of(map: &std::collections::BTreeMap<usize, u8>) -> Vis {
    let mut gets = [None; 7];
    for (k, g) in gets.iter_mut().enumerate() {
        *g = map.get(&k).copied();
    }
    Vis { items: map.iter().map(|(k, v)| (*k, *v)).collect(), gets, len: map.len(), empty: map.is_empty() }
}
pub fn model_vis(m: &Model) -> Vis {
    vis_of(m.visible())
}

/// What a drain of `end_group` calls shows: the visible contents at every level (current first),
/// then the contents after the first refused `end_group`, which must equal the outermost level;
/// `refused_twice` records that a further call is refused as well.
#[derive(Clone, PartialEq, Eq, Debug, Hash)]
pub struct Drain {
    pub levels: Vec<Vis>,
    pub after_refusal: Vis,
    pub refused_twice: bool,
}

pub fn drain<T: Back>(mut c: GC<T>) -> Drain {
    let mut levels = vec![vis(&c)];
    let mut guard = 0;
    while c.end_group() == Ok(()) {
        levels.push(vis(&c));
        guard += 1;
        if guard > 64 {
            break;
        }
    }
    let after_refusal = vis(&c);
    let refused_twice = c.end_group() == Err(NoGroupToEndError {});
    Drain { levels, after_refusal, refused_twice }
}
pub fn model_drain(m: &Model) -> Drain {
    let levels: Vec<Vis> = m.drain().iter().map(vis_of).collect();
    let after_refusal = levels.last().unwrap().clone();
    Drain { levels, after_refusal, refused_twice: true }
}

/// `iter_all()` in canonical form: one sorted segment per level (outermost first). `None` = BeginGroup.
pub fn iter_all_items<T: Back>(c: &GC<T>) -> Vec<Option<(usize, u8)>> {
    c.iter_all()
        .map(|it| match it {
            Item::BeginGroup => None,
            Item::Value((k, v)) => Some((k, *v)),
        })
        .collect()
}
pub fn segments(items: &[Option<(usize, u8)>]) -> Vec<Vec<(usize, u8)>> {
    let mut out = vec![vec![]];
    for it in items {
        match it {
            None => out.push(vec![]),
            Some(kv) => out.last_mut().unwrap().push(*kv),
        }
    }
    for s in out.iter_mut() {
        s.sort();
    }
    out
}
pub fn rebuild<T: Back>(items: &[Option<(usize, u8)>]) -> GC<T> {
    items
        .iter()
        .map(|it| match it {
            None => Item::BeginGroup,
            Some(kv) => Item::Value(kv),
        })
        .map(Item::adapt_map(|kv: &(usize, u8)| *kv))
        .collect()
}

/// Collision counters, computed from the action and the *model* state before it.
fn count_collisions(a: Act, m: &Model, acc: &mut Acc, nontrivial: &mut bool) {
    let lv = m.levels();
    let d = m.depth();
    match a {
        Act::End => {
            if d == 0 {
                acc.count("end_group_without_open_group");
            } else {
                if lv[d] != lv[d - 1] {
                    *nontrivial = true;
                } else {
                    acc.count("end_group_of_a_group_that_changed_nothing");
                }
                for k in [0usize, 1, 2, 5] {
                    if d >= 2 && lv[d].get(&k) != lv[d - 1].get(&k) && lv[d - 1].get(&k) != lv[d - 2].get(&k) {
                        acc.count("end_group_restored_value_shadowed_twice");
                    }
                    if lv[d].contains_key(&k) && !lv[d - 1].contains_key(&k) {
                        acc.count("end_group_deleted_key_first_defined_in_group");
                    }
                }
            }
        }
        Act::Ins { k, v, global: true } => {
            if d >= 1 {
                *nontrivial = true;
            }
            if lv.iter().all(|l| l.get(&k) == Some(&v)) {
                acc.count("insert_of_the_value_every_level_already_has");
            }
            if d >= 2 && m.shadow_depth(&k) >= 1 {
                acc.count("global_insert_purged_saved_value_at_depth_ge_2");
            }
            if d >= 1 && lv[d].contains_key(&k) && !lv[0].contains_key(&k) {
                acc.count("global_insert_over_key_unknown_to_outermost_level");
            }
        }
        Act::Ins { k, v, global: false } => {
            if d >= 1 && lv[d].get(&k) != lv[d - 1].get(&k) {
                acc.count("second_local_insert_of_key_in_same_group");
            }
            if lv[d].get(&k) == Some(&v) {
                acc.count("local_insert_of_the_value_that_is_already_current");
            }
            // Vec-backed map: slots 0..=max key ever inserted exist
            let slots = lv.iter().flat_map(|l| l.keys()).max().map(|m| m + 1).unwrap_or(0);
            if k > slots {
                acc.count("insert_beyond_the_end_leaving_a_gap");
            } else if k == slots {
                acc.count("insert_exactly_at_the_end");
            }
        }
        Act::Begin => {}
    }
}

/// Apply one action to the real container and to the model; compare whether end_group was
/// accepted and everything visible afterwards.
///
/// The `bool` returned by `insert` is undocumented and the property does not speak about it: it is
/// only recorded (`ret_differs` is set when it is not "the key had a visible value before").
pub fn apply_both<T: Back>(c: &mut GC<T>, m: &mut Model, a: Act, pos: usize, ret_differs: &mut bool) -> Result<(), Mismatch> {
    match a {
        Act::Ins { k, v, global } => {
            let want = m.insert(k, v, if global { MScope::Global } else { MScope::Local });
            if !global && pos % 2 == 1 {
                // second public route to a local insert (odd positions of a history)
                c.extend(std::iter::once((k, v)));
            } else {
                let got = c.insert(k, v, if global { Scope::Global } else { Scope::Local });
                if got != want {
                    *ret_differs = true;
                }
            }
        }
        Act::Begin => {
            c.begin_group();
            m.begin_group();
        }
        Act::End => {
            let got = c.end_group();
            let want = m.end_group();
            let same = matches!((&got, &want), (Ok(()), Ok(())) | (Err(NoGroupToEndError {}), Err(_)));
            if !same {
                return Err(mismatch(format!("end_group returns {}", if want.is_ok() { "Ok(())" } else { "Err(NoGroupToEndError)" }), format!("{got:?}"), format!("{}: return value of end_group at step {pos}", T::NAME)));
            }
        }
    }
    let (g, w) = (vis(c), model_vis(m));
    if g != w {
        return Err(mismatch(format!("{w:?}"), format!("{g:?}"), format!("{}: visible contents (iter/get/len/is_empty) after step {pos}", T::NAME)));
    }
    Ok(())
}

/// Exact fingerprint of the implementation state, through the public API only: per level the
/// `iter_all()` segment (which keys the group log of that level holds, with their values) and the
/// visible value of each key once the inner groups have been ended (one byte per level, at most 15
/// levels), plus the physical size of the backing store in the last byte.
pub type Fp = [u8; 16];

fn fingerprint(segs: &[Vec<(usize, u8)>], dr: &Drain, raw_len: usize) -> Option<Fp> {
    let n = segs.len();
    if n > 15 || dr.levels.len() != n {
        return None;
    }
    let mut fp = [0u8; 16];
    for i in 0..n {
        let mut code = 0u8;
        let mut mul = 1u8;
        for k in 0..2usize {
            let e: Vec<u8> = segs[i].iter().filter(|kv| kv.0 == k).map(|kv| kv.1).collect();
            // a replay that lists a key twice in one group (not minimal, but possibly correct) has no code
            if e.len() > 1 || segs[i].iter().any(|kv| kv.0 > 1 || kv.1 > 1) {
                return None;
            }
            code += mul * e.first().map(|v| 1 + v).unwrap_or(0);
            mul *= 3;
        }
        let level = &dr.levels[n - 1 - i];
        for k in 0..2usize {
            code += mul * level.gets[k].map(|v| 1 + v).unwrap_or(0);
            mul = mul.wrapping_mul(3);
        }
        fp[i] = code + 1;
    }
    // physical size of the backing store (a Vec keeps empty slots of rolled-back keys)
    fp[15] = raw_len.min(254) as u8 + 1;
    Some(fp)
}

pub fn init_fp() -> Fp {
    let mut fp = [0u8; 16];
    fp[0] = 1;
    fp[15] = 1;
    fp
}

/// Replay a history on a fresh real container and a fresh model, comparing after every step.
fn reach<T: Back>(h: &[u8], al: &Alpha, mut count: Option<(&mut Acc, &mut bool)>, ret_differs: &mut bool) -> Result<(GC<T>, Model), Mismatch> {
    let (mut c, mut m) = if al.init.is_empty() {
        (GC::<T>::default(), Model::new())
    } else {
        // FromIterator<(K, V)>: plain pairs go to the outermost level
        let c: GC<T> = al.init.iter().copied().collect();
        let mut m = Model::with_initial(al.init.iter().copied().collect());
        let (g, w) = (vis(&c), model_vis(&m));
        if g != w {
            // which pair wins for a repeated key is nobody's stated contract: first-wins is recorded and followed
            let first = Model::with_initial(al.init.iter().rev().copied().collect());
            if g != model_vis(&first) {
                return Err(mismatch(format!("{w:?}"), format!("{g:?}"), format!("{}: visible contents after from_iter of plain pairs", T::NAME)));
            }
            if let Some((acc, _)) = count.as_mut() {
                acc.class("gmap: from_iter of plain pairs keeps the FIRST pair of a repeated key (recorded, not judged)");
            }
            m = first;
        }
        (c, m)
    };
    for (i, a) in h.iter().enumerate() {
        let a = (al.dec)(*a);
        if !matches!(a, Act::Ins { global: true, .. } | Act::Begin | Act::End) && i % 2 == 1 {
            if let Some((acc, _)) = count.as_mut() {
                acc.count("local_insert_through_extend");
            }
        }
        if let Some((acc, nontrivial)) = count.as_mut() {
            count_collisions(a, &m, acc, nontrivial);
        }
        apply_both(&mut c, &mut m, a, i, ret_differs)?;
    }
    Ok((c, m))
}

/// Fingerprint of a state whose `iter_all()` cannot be used as an exact description: the history
/// itself, so the state is merged with nothing.
fn unmerged_fp(h: &[u8]) -> Fp {
    let mut fp = [0u8; 16];
    fp[0] = 0xFF;
    for (i, a) in h.iter().take(15).enumerate() {
        fp[i + 1] = a + 1;
    }
    fp
}

/// One history on one backing container: step-by-step comparison with the model, drain, and the
/// replay law at the state reached (visible values, `==`, iter_all and drain of the rebuilt
/// container). Returns the fingerprint of the implementation state reached.
pub fn check_history<T: Back>(h: &[u8], al: &Alpha, acc: &mut Acc) -> Result<Fp, Mismatch> {
    let mut nontrivial = false;
    let mut ret_differs = false;
    let (c, m) = reach::<T>(h, al, Some((acc, &mut nontrivial)), &mut ret_differs)?;
    // a key whose value changes in two open groups that are not adjacent (nothing in between)
    {
        let lv = m.levels();
        for k in [0usize, 1, 2, 5] {
            let changed: Vec<usize> = (1..lv.len()).filter(|i| lv[*i].get(&k) != lv[*i - 1].get(&k)).collect();
            if changed.windows(2).any(|w| w[1] - w[0] >= 2) {
                acc.count("key_changed_in_two_nonadjacent_open_groups");
                break;
            }
        }
    }
    if nontrivial {
        acc.nontrivial();
    }
    if h.iter().enumerate().any(|(i, a)| matches!((al.dec)(*a), Act::Ins { global, .. } if global || i % 2 == 0)) {
        acc.class(if ret_differs { "gmap: some insert() returned something else than 'the key had a visible value' (recorded, not judged)" } else { "gmap: every insert() returned whether the key had a visible value" });
    }
    acc.traces_validated += 1;
    let want_vis = model_vis(&m);
    let want_drain = model_drain(&m);

    let items = iter_all_items(&c);
    let segs = segments(&items);
    if segs.len() != m.depth() + 1 {
        return Err(mismatch(format!("{} BeginGroup items", m.depth()), format!("{items:?}"), format!("{}: iter_all does not yield one BeginGroup per open group", T::NAME)));
    }
    let r: GC<T> = rebuild(&items);
    let got = vis(&r);
    if got != want_vis {
        return Err(mismatch(format!("{want_vis:?}"), format!("{got:?} rebuilt from {items:?}"), format!("{}: replay law: from_iter(iter_all()) shows different visible values", T::NAME)));
    }
    // Recorded, not judged: the property speaks of visible values and behaviour, not of the derived
    // `==` on backing store and group logs, nor of iter_all being the same again after a replay.
    // Where one of them does not hold, iter_all is not an exact description of the state and the
    // state is not merged with any other (see `unmerged_fp`).
    let mut exact = true;
    if r == c {
        acc.class("gmap replay: from_iter(iter_all()) == original");
    } else if r.backing_container().raw_len() != c.backing_container().raw_len() {
        // a Vec-backed map keeps an empty slot for a rolled-back key, the rebuilt one never had it
        acc.class("gmap replay: from_iter(iter_all()) != original, backing stores have different slot counts (recorded, not judged)");
    } else {
        acc.class("gmap replay: from_iter(iter_all()) != original with equal slot counts (recorded, not judged)");
        exact = false;
    }
    if segments(&iter_all_items(&r)) != segs {
        acc.class("gmap replay: iter_all of the rebuilt container differs from iter_all of the original (recorded, not judged)");
        exact = false;
    }
    if m.depth() >= 1 && segs.iter().skip(1).any(|s| !s.is_empty()) {
        acc.count("replay_with_nonempty_group_log");
    }
    // drains (consume both containers)
    let dr = drain(r);
    if dr != want_drain {
        return Err(mismatch(format!("{want_drain:?}"), format!("{dr:?}"), format!("{}: replay law: ending the groups of the rebuilt container shows different values", T::NAME)));
    }
    let raw_len = c.backing_container().raw_len();
    let dc = drain(c);
    if dc != want_drain {
        return Err(mismatch(format!("{want_drain:?}"), format!("{dc:?}"), format!("{}: ending all groups (and one more) shows different values", T::NAME)));
    }
    if !exact {
        return Ok(unmerged_fp(h));
    }
    Ok(fingerprint(&segs, &dc, raw_len).unwrap_or_else(|| unmerged_fp(h)))
}

/// Replay law, second half, at the state reached by `h`: a container rebuilt from `iter_all()`
/// behaves like the model under every continuation of length 1..=`cont` (return values and visible
/// contents after every step, drain at the end).
pub fn check_continuations<T: Back>(h: &[u8], al: &Alpha, cont: usize, acc: &mut Acc) -> Result<(), Mismatch> {
    let mut ret_differs = false;
    let (c, m) = reach::<T>(h, al, None, &mut ret_differs)?;
    let items = iter_all_items(&c);
    let mut conts: Vec<Vec<u8>> = vec![];
    for a in 0..al.n as u8 {
        conts.push(vec![a]);
        if cont > 1 {
            for b in 0..al.n as u8 {
                conts.push(vec![a, b]);
            }
        }
    }
    for cs in &conts {
        let mut r: GC<T> = rebuild(&items);
        let mut mm = m.clone();
        for (j, a) in cs.iter().enumerate() {
            apply_both(&mut r, &mut mm, (al.dec)(*a), h.len() + j, &mut ret_differs).map_err(|mut e| {
                e.note = format!("replay law: rebuilt container under continuation [{}]: {}", render(cs, &Alpha { init: &[], ..*al }), e.note);
                e
            })?;
        }
        let (g, w) = (drain(r), model_drain(&mm));
        if g != w {
            return Err(mismatch(format!("{w:?}"), format!("{g:?}"), format!("{}: replay law: rebuilt container after continuation [{}], ending all groups", T::NAME, render(cs, &Alpha { init: &[], ..*al }))));
        }
        acc.count("replay_continuations_checked");
    }
    Ok(())
}
