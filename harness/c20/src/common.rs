//! Shared plumbing of the C20 families: mismatch records and the "judge" wrapper that runs a case
//! under panic capture and re-executes a failing case five times (the subject's HashMaps use
//! `RandomState`; the property quantifies over hash seeds, so any failing execution counts, and the
//! replay file records whether the failure depends on the hash order).

use serde_json::Value;
use vcore::{catch, Acc};

#[derive(Debug, Clone)]
pub struct Mismatch {
    pub expected: String,
    pub observed: String,
    pub note: String,
}

pub fn mismatch(expected: impl Into<String>, observed: impl Into<String>, note: impl Into<String>) -> Mismatch {
    Mismatch { expected: expected.into(), observed: observed.into(), note: note.into() }
}

fn run_once<R>(acc: &mut Acc, run: &dyn Fn(&mut Acc) -> Result<R, Mismatch>) -> Result<R, Mismatch> {
    match catch(|| run(acc)) {
        Ok(r) => r,
        Err(p) => Err(mismatch("the operation returns", p.describe(), "the subject panicked")),
    }
}

/// Run one case. Counters are accumulated from the first execution only.
pub fn judge<R>(idx: u64, acc: &mut Acc, case: &dyn Fn() -> Value, run: &dyn Fn(&mut Acc) -> Result<R, Mismatch>) -> Option<R> {
    match run_once(acc, run) {
        Ok(r) => Some(r),
        Err(m) => {
            // only the failures with the smallest indices are kept; within one accumulator indices
            // increase, so once it holds its quota a further failure is only counted
            if acc.fails.len() >= 6 {
                acc.fail_count += 1;
                return None;
            }
            let mut k = 0;
            for _ in 0..5 {
                let mut scratch = Acc::default();
                if run_once(&mut scratch, run).is_err() {
                    k += 1;
                }
            }
            let order = if k < 5 { " (depends on the hash order of this execution)" } else { "" };
            acc.fail(idx, case(), m.expected, m.observed, format!("{}; fails in {k} of 5 re-executions{order}", m.note));
            None
        }
    }
}
