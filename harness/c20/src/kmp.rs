//! KMP `Matcher` against the definition: `next` returns true exactly when the text read so far
//! ends with the pattern (overlapping occurrences included).

use crate::common::{mismatch, Mismatch};
use texcraft_stdext::algorithms::substringsearch::Matcher;
use texcraft_stdext::collections::nevec::Nevec;
use vcore::Acc;

pub fn letters(v: &[u64]) -> String {
    v.iter().map(|d| (b'a' + *d as u8) as char).collect()
}

pub fn naive(pat: &[u64], text: &[u64]) -> Vec<bool> {
    (0..text.len()).map(|i| text[..=i].ends_with(pat)).collect()
}

pub fn has_border(pat: &[u64]) -> bool {
    (1..pat.len()).any(|b| pat[..b] == pat[pat.len() - b..])
}

pub fn check(pat: &[u64], text: &[u64], acc: &mut Acc) -> Result<(), Mismatch> {
    let want = naive(pat, text);
    let ends: Vec<usize> = want.iter().enumerate().filter(|x| *x.1).map(|x| x.0).collect();
    if !ends.is_empty() {
        acc.nontrivial();
    }
    if has_border(pat) {
        acc.count("kmp_pattern_has_border");
    }
    if ends.windows(2).any(|w| w[1] - w[0] < pat.len()) {
        acc.count("kmp_overlapping_matches");
    }
    if ends.windows(2).any(|w| w[1] - w[0] >= pat.len()) {
        acc.count("kmp_disjoint_repeated_matches");
    }
    let m = Matcher::new(Nevec::new_with_tail(pat[0], pat[1..].to_vec()));
    let sub: Vec<u64> = m.substring().into_iter().copied().collect();
    if sub != pat {
        // the accessor is not part of the property (which is about the reported positions): recorded only
        acc.class("kmp: Matcher::substring() differs from the pattern given (recorded, not judged)");
    }
    // two searches from one matcher: the second must not see the state of the first
    for round in 0..2 {
        let mut s = m.start();
        let got: Vec<bool> = text.iter().map(|c| s.next(c)).collect();
        if got != want {
            let pos = got.iter().zip(want.iter()).position(|(a, b)| a != b).unwrap_or(0);
            return Err(mismatch(
                format!("matches end at {ends:?}"),
                format!("matches end at {:?}", got.iter().enumerate().filter(|x| *x.1).map(|x| x.0).collect::<Vec<_>>()),
                format!("pattern {:?} in text {:?}: first difference at position {pos} (search {} from the same matcher)", letters(pat), letters(text), round + 1),
            ));
        }
    }
    Ok(())
}
