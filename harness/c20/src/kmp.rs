//! KMP `Matcher` against the definition: `next` returns true exactly when the text read so far
//! ends with the pattern (overlapping occurrences included).

use crate::common::{mismatch, Mismatch};
use texcraft_stdext::algorithms::substringsearch::Matcher;
use texcraft_stdext::collections::nevec::Nevec;
use vcore::Acc;

pub fn letters(v: &[u64]) -> String {
    v.iter().map(|d| (b'a' + *d as u8) as char).collect()
}

pub fn naive(pat: &[u64], text: &[u64]) -> Vec<bool> {
    (0..text.len()).map(|i| text[..=i].ends_with(pat)).collect()
}

pub fn has_border(pat: &[u64]) -> bool {
    (1..pat.len()).any(|b| pat[..b] == pat[pat.len() - b..])
}

pub fn check(pat: &[u64], text: &[u64], acc: &mut Acc) -> Result<(), Mismatch> {
    let want = naive(pat, text);
    let ends: Vec<usize> = want.iter().enumerate().filter(|x| *x.1).map(|x| x.0).collect();
    if !ends.is_empty() {
        acc.nontrivial();
    }
    if has_border(pat) {
        acc.count("kmp_pattern_has_border");
    }
    if ends.windows(2).any(|w| w[1] - w[0] < pat.len()) {
        acc.count("kmp_overlapping_matches");
    }
    if ends.windows(2).any(|w| w[1] - w[0] >= pat.len()) {
        acc.count("kmp_disjoint_repeated_matches");
    }
    if ends.windows(2).any(|w| w[1] - w[0] + 2 <= pat.len()) {
        acc.count("kmp_overlap_by_two_or_more");
    }
    if text == pat {
        acc.count("kmp_text_is_exactly_the_pattern");
    }
    // textbook prefix function / automaton run in the harness, only to count fallback chains
    {
        let mut pf = vec![0usize; pat.len()];
        let mut k = 0;
        let mut two = false;
        for i in 1..pat.len() {
            let mut steps = 0;
            while k > 0 && pat[k] != pat[i] {
                k = pf[k - 1];
                steps += 1;
            }
            two |= steps >= 2;
            if pat[k] == pat[i] {
                k += 1;
            }
            pf[i] = k;
        }
        if two {
            acc.count("kmp_prefix_function_needs_two_fallback_steps");
        }
        let mut q = 0;
        let mut two = false;
        for c in text {
            let mut steps = 0;
            if q == pat.len() {
                q = pf[q - 1];
            }
            while q > 0 && pat[q] != *c {
                q = pf[q - 1];
                steps += 1;
            }
            two |= steps >= 2;
            if pat[q] == *c {
                q += 1;
            }
        }
        if two {
            acc.count("kmp_search_needs_two_fallback_steps");
        }
    }
    let m = Matcher::new(Nevec::new_with_tail(pat[0], pat[1..].to_vec()));
    let sub: Vec<u64> = m.substring().into_iter().copied().collect();
    if sub != pat {
        // the accessor is not part of the property (which is about the reported positions): recorded only
        acc.class("kmp: Matcher::substring() differs from the pattern given (recorded, not judged)");
    }
    // two searches from one matcher (the second must not see the state of the first), one from a
    // clone, one from a matcher that went through serde_json (its tables are serialised)
    let cloned = m.clone();
    let revived: Matcher<u64> = serde_json::to_string(&m)
        .map_err(|e| mismatch("serialises", e.to_string(), "serde_json::to_string of the matcher"))
        .and_then(|t| serde_json::from_str(&t).map_err(|e| mismatch("deserialises", format!("{e} on {t}"), "serde_json::from_str of the matcher")))?;
    for round in 0..4 {
        let mut s = match round {
            0 | 1 => m.start(),
            2 => cloned.start(),
            _ => revived.start(),
        };
        let got: Vec<bool> = text.iter().map(|c| s.next(c)).collect();
        if got != want {
            let pos = got.iter().zip(want.iter()).position(|(a, b)| a != b).unwrap_or(0);
            return Err(mismatch(
                format!("matches end at {ends:?}"),
                format!("matches end at {:?}", got.iter().enumerate().filter(|x| *x.1).map(|x| x.0).collect::<Vec<_>>()),
                format!("pattern {:?} in text {:?}: first difference at position {pos} (search {}: 1, 2 same matcher, 3 clone, 4 after serde round trip)", letters(pat), letters(text), round + 1),
            ));
        }
    }
    Ok(())
}
