//! C20 — core containers and identifiers: grouping map, interner, KMP matcher, nevec (this binary),
//! command tags under all thread schedules (engine in /verif/harness-sched, folded in here).
//! Engines: BEX (all histories / all inputs) + XS (BFS with merging on the implementation state).
//! DESIGN.md §3 C20.

mod common;
mod gmap;
mod intern;
mod kmp;
mod nev;

use common::judge;
use serde_json::{json, Value};
use std::collections::HashMap;
use vcore::{Acc, Ctx, Level};

// ---------------------------------------------------------------- model self-validation

/// The repository's own expectations (doc tests and unit tests of the three modules), replayed
/// through the *models*.
fn self_validate() -> Result<(), String> {
    use reftex::scope::{NoGroupToEnd, Scope, ScopeModel};
    // groupingmap.rs module docs, second example ("paganini")
    let mut m: ScopeModel<&str, &str> = ScopeModel::new();
    m.insert("paganini", "black", Scope::Local);
    m.begin_group();
    m.insert("paganini", "gray", Scope::Local);
    let a = m.get(&"paganini") == Some(&"gray") && m.end_group() == Ok(()) && m.get(&"paganini") == Some(&"black");
    m.begin_group();
    m.insert("mint", "ginger", Scope::Local);
    let b = m.get(&"mint") == Some(&"ginger") && m.end_group() == Ok(()) && m.get(&"mint").is_none();
    // third example: end_group with no group
    let mut e: ScopeModel<String, String> = ScopeModel::new();
    let c = e.end_group() == Err(NoGroupToEnd);
    // fourth example: global insert
    let mut g: ScopeModel<&str, &str> = ScopeModel::new();
    g.insert("paganini", "black", Scope::Local);
    g.begin_group();
    g.insert("paganini", "gray", Scope::Global);
    let d = g.end_group() == Ok(()) && g.get(&"paganini") == Some(&"gray");
    // tests::insert_after_nested_insert
    let mut t: ScopeModel<i32, i32> = ScopeModel::new();
    t.begin_group();
    t.insert(3, 5, Scope::Local);
    let f = t.end_group() == Ok(()) && t.get(&3).is_none() && {
        t.insert(3, 4, Scope::Local);
        t.get(&3) == Some(&4)
    };
    // tests::insert_global_after_no_insert
    let mut t: ScopeModel<i32, i32> = ScopeModel::new();
    t.begin_group();
    t.insert(3, 5, Scope::Global);
    let h = t.end_group() == Ok(()) && t.get(&3) == Some(&5);
    if !(a && b && c && d && f && h) {
        return Err(format!("reftex::scope fails the groupingmap.rs doc/unit expectations: {:?}", [a, b, c, d, f, h]));
    }
    // substringsearch.rs module docs: [2,3,2] in 1,2,3,2,3,2 -> f f f t f t
    if kmp::naive(&[2, 3, 2], &[1, 2, 3, 2, 3, 2]) != [false, false, false, true, false, true] {
        return Err("the naive matcher fails the substringsearch.rs doc example".into());
    }
    // interner.rs module docs: hello, world, hello -> keys 1, 2, 1 (the Vec<String> oracle is built into
    // intern::check; here its key rule "position of first occurrence + 1" on the doc example)
    let mut model: Vec<&str> = vec![];
    let keys: Vec<usize> = ["hello", "world", "hello"]
        .iter()
        .map(|s| match model.iter().position(|m| m == s) {
            Some(p) => p + 1,
            None => {
                model.push(s);
                model.len()
            }
        })
        .collect();
    if keys != [1, 2, 1] {
        return Err("the Vec<String> oracle fails the interner.rs doc example".into());
    }
    Ok(())
}

// ---------------------------------------------------------------- cases

/// 0: two keys {0,1}; 1: three keys {0,2,5}; 2+i: two keys, container created by from_iter(INITS[i]).
fn alpha_of(id: u64) -> gmap::Alpha {
    match id {
        0 => gmap::A2,
        1 => gmap::A3,
        i => gmap::Alpha { init: gmap::INITS[(i as usize - 2) % gmap::INITS.len()], ..gmap::A2 },
    }
}

fn gmap_case(kind: &str, container: &str, alpha: u64, h: &[u8], cont: usize) -> Value {
    json!({"kind": kind, "container": container, "alpha": alpha, "h": h, "cont": cont,
           "text": format!("{} (L/G k=v: local/global insert - a local insert at an odd position goes through extend(), {{ begin_group, }} end_group)", gmap::render(h, &alpha_of(alpha))),
           "test_body": "let mut m = GroupingHashMap::default() /* or GroupingVec; or the from_iter shown */; apply the operations of `text` in order; compare get/len/iter, and for cont > 0 rebuild with m.iter_all().collect() and apply every continuation of that length"})
}

/// One history: step-by-step comparison, drain, replay law at the state reached.
fn run_gmap(container: &str, alpha: u64, idx: u64, h: &[u8], acc: &mut Acc) -> Option<gmap::Fp> {
    acc.eval();
    let al = alpha_of(alpha);
    let case = || gmap_case("gmap", container, alpha, h, 0);
    if container == "hash" {
        judge(idx, acc, &case, &|acc: &mut Acc| gmap::check_history::<HashMap<usize, u8>>(h, &al, acc))
    } else {
        judge(idx, acc, &case, &|acc: &mut Acc| gmap::check_history::<Vec<Option<u8>>>(h, &al, acc))
    }
}

/// One state (given by a history that reaches it): the rebuilt container under every continuation.
fn run_gmap_cont(container: &str, alpha: u64, idx: u64, h: &[u8], cont: usize, acc: &mut Acc) {
    acc.eval();
    acc.nontrivial();
    let al = alpha_of(alpha);
    let case = || gmap_case("gmap-cont", container, alpha, h, cont);
    if container == "hash" {
        judge(idx, acc, &case, &|acc: &mut Acc| gmap::check_continuations::<HashMap<usize, u8>>(h, &al, cont, acc));
    } else {
        judge(idx, acc, &case, &|acc: &mut Acc| gmap::check_continuations::<Vec<Option<u8>>>(h, &al, cont, acc));
    }
}

/// All variants (hasher x serde position x serde route) of one interner history over string set `set`.
fn run_interner(idx: u64, set: u64, ops: &[u64], only: Option<(bool, Option<usize>, bool)>, acc: &mut Acc) {
    let strs = intern::SETS[set as usize % 2];
    let mut variants: Vec<(bool, Option<usize>, bool)> = vec![];
    for constant in [false, true] {
        variants.push((constant, None, false));
        for p in 0..=ops.len() {
            variants.push((constant, Some(p), false));
            variants.push((constant, Some(p), true));
        }
    }
    if intern::nontrivial(ops) {
        acc.nontrivial();
    }
    for (vi, (constant, serde_at, via_value)) in variants.into_iter().enumerate() {
        if let Some(o) = only {
            if o != (constant, serde_at, via_value) {
                continue;
            }
        }
        acc.eval();
        acc.traces_validated += 1;
        let case = || json!({"kind": "interner", "set": set, "ops": ops, "constant_hasher": constant, "serde_at": serde_at, "serde_via_value": via_value, "text": intern::render(ops, strs)});
        let r: Option<()> = if constant {
            judge(idx * 32 + vi as u64, acc, &case, &|acc: &mut Acc| intern::check::<intern::ConstBuild>(ops, strs, serde_at, via_value, true, acc))
        } else {
            judge(idx * 32 + vi as u64, acc, &case, &|acc: &mut Acc| intern::check::<intern::RandomBuild>(ops, strs, serde_at, via_value, false, acc))
        };
        if r.is_some() {
            acc.class(&format!("interner ok: {} distinct strings, {} hasher, serde {}", distinct_interned(ops), if constant { "constant" } else { "random" }, if serde_at.is_some() { "yes" } else { "no" }));
        }
    }
}
fn distinct_interned(ops: &[u64]) -> usize {
    let mut s: Vec<u64> = ops.iter().filter(|o| *o % 2 == 0).map(|o| o / 2).collect();
    s.sort();
    s.dedup();
    s.len()
}

fn run_kmp(idx: u64, pat: &[u64], text: &[u64], acc: &mut Acc) {
    acc.eval();
    let case = || json!({"kind": "kmp", "pat": pat, "text": text, "render": format!("pattern {:?} in {:?}", kmp::letters(pat), kmp::letters(text))});
    if judge(idx, acc, &case, &|acc: &mut Acc| kmp::check(pat, text, acc)).is_some() {
        let n = kmp::naive(pat, text).iter().filter(|b| **b).count();
        acc.class(&format!("kmp ok: pattern length {}, {} match(es)", pat.len(), n.min(6)));
    }
}

/// Nevec is only the storage of the matcher's pattern; the property statement does not speak about
/// it. Its agreement with a `Vec` model is therefore recorded as outcome classes and never judged.
fn run_nevec(_idx: u64, ctor: u64, ops: &[u64], acc: &mut Acc) {
    acc.eval();
    match vcore::catch(|| nev::check(ctor, ops, acc)) {
        Ok(Ok(())) => acc.class("nevec: behaves like a Vec that is never empty"),
        Ok(Err(m)) => {
            let what: String = m.note.chars().filter(|c| !c.is_ascii_digit()).take(60).collect();
            acc.class(&format!("nevec: differs from the Vec model in {what} (recorded, not judged)"));
        }
        Err(_) => acc.class("nevec: an operation panicked (recorded, not judged)"),
    }
}

fn kmp_family(ctx: &mut Ctx, name: &str, k: u64, maxpat: u32, maxtext: u32) {
    let npat = vcore::strings_upto(k, maxpat) - 1; // without the empty pattern (a Nevec cannot be empty)
    let ntext = vcore::strings_upto(k, maxtext);
    ctx.family(name, &format!("all patterns of length 1..={maxpat} x all texts of length 0..={maxtext} over a {k}-letter alphabet, two searches per matcher, one from a clone and one from a serde_json round trip of the matcher"), npat * ntext, |i, acc| {
        let pat = vcore::nth_string(k, 1 + i / ntext);
        let text = vcore::nth_string(k, i % ntext);
        run_kmp(i, &pat, &text, acc);
        if i % 400_009 == 77 {
            acc.sample(1000 + i, || json!({"pattern": kmp::letters(&pat), "text": kmp::letters(&text)}));
        }
    });
}

// ---------------------------------------------------------------- main

fn main() {
    let mut ctx = Ctx::new("C20", Level::ModelChecking);
    ctx.assume("grouping map: keys {0,1}, values {0,1}; a value that is never assigned does not exist (no removal operation in the public API)");
    ctx.assume("not judged, only recorded as outcome classes (the property statement does not speak about them): the bool returned by insert, `==` between the original and from_iter(iter_all()), iter_all being unchanged by a replay, which numbers the interner uses as keys, Matcher::substring(), everything about Nevec");
    ctx.assume("end_group: only accepted (Ok) versus refused (Err) is compared; a refusal must leave the visible contents unchanged");
    ctx.assume("HashMap iteration order inside the subject (RandomState) is not controlled; every failing case is re-executed 5 times and any failing execution counts");
    ctx.assume("interner: resolve is observed after every step for every issued key, and must be None for the first never-issued key, the one after it, key 1 and u32::MAX when not issued (resolve takes &self, so this subsumes resolve as a history operation); a serde round trip must keep every issued key valid (anchor: deserialisation rebuild)");
    ctx.assume("tags: sequentially consistent interleavings at the seam's acquire/release points (shuttle); data races are outside this engine (DESIGN §5)");
    if let Err(e) = self_validate() {
        ctx.machinery_error(e);
        ctx.finish("model self-validation failed");
    }

    if let Some((fam, case)) = ctx.replay_case() {
        if fam == "tags-schedules" || case["kind"] == "tags" {
            println!("REPLAY property=C20: thread-schedule replay files are handled by /verif/harness-sched/run --replay (already run by ./check)");
            std::process::exit(0);
        }
        let mut acc = Acc::default();
        replay(&case, &mut acc);
        ctx.finish_replay(acc);
    }

    // (i) every history, no merging, both containers
    {
        let len = ctx.pick(7u32, 8u32);
        let n = vcore::strings_upto(gmap::N_ACT as u64, len);
        for (container, name) in [("hash", "gmap-histories-hashmap"), ("vec", "gmap-histories-vec")] {
            ctx.family(name, &format!("every history of length <= {len} over 10 actions (insert(k,v,Local|Global) for k,v in {{0,1}}, begin_group, end_group also with no group open); after every step return value, get, len, is_empty, iter; at the end drain of end_group calls and replay law (visible values and drain of the rebuilt map)"), n, |i, acc| {
                let h: Vec<u8> = vcore::nth_string(gmap::N_ACT as u64, i).into_iter().map(|x| x as u8).collect();
                run_gmap(container, 0, i, &h, acc);
                if i == 1_939_310 && container == "hash" {
                    // (sample indices only order the samples that are kept)
                    acc.sample(1, || json!({"grouping_map_history": gmap::render(&h, &gmap::A2), "legend": "L/G k=v: local/global insert, { begin_group, } end_group", "checked": "end_group accepted/refused, get/len/iter after every step against the stack-of-snapshots model; drain; replay law"}));
                }
            });
        }
    }
    // (i-b) three keys with gaps {0,2,5}: a third key in every log, a Vec extended by 0 / 1 / several slots
    {
        let len = ctx.pick(6u32, 7u32);
        let n = vcore::strings_upto(gmap::A3.n as u64, len);
        for (container, name) in [("hash", "gmap-histories-3keys-hashmap"), ("vec", "gmap-histories-3keys-vec")] {
            ctx.family(name, &format!("every history of length <= {len} over 14 actions (insert(k,v,Local|Global) for k in {{0,2,5}}, v in {{0,1}}, begin_group, end_group); same comparisons as the two-key family"), n, |i, acc| {
                let h: Vec<u8> = vcore::nth_string(gmap::A3.n as u64, i).into_iter().map(|x| x as u8).collect();
                run_gmap(container, 1, i, &h, acc);
            });
        }
    }
    // (i-c) containers created by FromIterator<(K, V)> (plain pairs), then every short history, with continuations
    {
        let len = ctx.pick(4u32, 5u32);
        let per = vcore::strings_upto(gmap::N_ACT as u64, len);
        let ni = gmap::INITS.len() as u64;
        for (container, name) in [("hash", "gmap-from-pairs-hashmap"), ("vec", "gmap-from-pairs-vec")] {
            ctx.family(name, &format!("container = from_iter of plain pairs {:?} (one pair; the same key twice; two keys; a key beyond the end), then every history of length <= {len} over the 10 two-key actions; replay law incl. every continuation of length <= 1", gmap::INITS), ni * per, |i, acc| {
                let h: Vec<u8> = vcore::nth_string(gmap::N_ACT as u64, i % per).into_iter().map(|x| x as u8).collect();
                let alpha = 2 + i / per;
                if run_gmap(container, alpha, i, &h, acc).is_some() {
                    run_gmap_cont(container, alpha, i, &h, 1, acc);
                    acc.count("history_on_container_built_from_plain_pairs");
                }
            });
        }
    }
    // (ii) BFS with merging on the exact implementation state, replay law with continuations <= 2
    for (container, name) in [("hash", "gmap-xs-hashmap"), ("vec", "gmap-xs-vec")] {
        if !ctx.wants(name) {
            continue;
        }
        let t = std::time::Instant::now();
        let depth = ctx.pick(11usize, 14usize);
        let deadline = std::time::Instant::now() + std::time::Duration::from_secs_f64(ctx.remaining_s().min(ctx.pick(60.0, 2400.0)));
        let (acc, stats) = vcore::xs::bfs(gmap::N_ACT, depth, ctx.pick(3_000_000, 40_000_000), ctx.threads, deadline, gmap::init_fp(), |h, acc| {
            // the frontier history h[..n-1] is the representative of a distinct state: its continuation
            // check runs once, together with the first transition out of it
            if h.last() == Some(&0) {
                run_gmap_cont(container, 0, u64::MAX, &h[..h.len() - 1], 2, acc);
            }
            run_gmap(container, 0, u64::MAX, h, acc)
        });
        ctx.extra(
            &format!("xs_{name}"),
            json!({"depth_completed": stats.depth_completed, "depth_bound": depth, "frontier_sizes": stats.frontier_sizes, "capped": stats.capped,
            "fingerprint": "per level: the iter_all() segment (keys in that group's log with their values; level 0: the outermost values) and the value of each key visible at that level when the inner groups are ended (drain), plus the physical number of slots of the backing store; a state where from_iter(iter_all()) != original (equal slot counts), or whose iter_all is not reproduced by the rebuilt container, or lists a key twice in a group, is fingerprinted by its history and merged with nothing"}),
        );
        ctx.push_family(
            name,
            &format!("BFS to depth {depth} over the same 10 actions, states merged on the exact implementation state; at every transition: model comparison, drain, replay law (visible values and drain of the rebuilt container); at every distinct state of depth < {depth} (once, on its representative history): the rebuilt container under every continuation of length <= 2"),
            stats.capped.is_none(),
            stats.capped.clone(),
            t.elapsed().as_secs_f64(),
            acc,
        );
    }
    // (iii) interner: ASCII set and multi-byte set
    {
        for (set, name) in [(0u64, "interner-histories"), (1u64, "interner-histories-multibyte")] {
            let len = if set == 0 { ctx.pick(5u32, 6u32) } else { ctx.pick(4u32, 5u32) };
            let n = vcore::strings_upto(intern::N_OPS, len);
            ctx.family(name, &format!("every history of length <= {len} over get_or_intern/get x {:?}; each under RandomState and under a constant hasher, without and with a serde_json round trip (text route and Value route) before every position (incl. the end); resolve/get of everything after every step", intern::SETS[set as usize]), n, |i, acc| {
                let ops = vcore::nth_string(intern::N_OPS, i);
                run_interner(i, set, &ops, None, acc);
                if i == 20_333 && set == 1 {
                    acc.sample(2, || json!({"interner_history": intern::render(&ops, intern::SETS[1]), "variants": "RandomState and constant hasher, without and with a serde round trip before every position"}));
                }
            });
        }
    }
    // (iv) KMP
    kmp_family(&mut ctx, "kmp-binary", 2, 7, 13);
    let tl = ctx.pick(10, 12);
    kmp_family(&mut ctx, "kmp-ternary", 3, 4, tl);
    // nevec
    {
        let len = ctx.pick(6u32, 8u32);
        let per = vcore::strings_upto(nev::N_OPS, len);
        ctx.family("nevec-histories", &format!("4 constructors x every history of length <= {len} over push(0), push(1), pop_from_tail, *last_mut()=, *get_mut(1)=, *get_mut(0)=; len/last/get/index/iter/Display after every step, clone and pop at the end"), nev::N_CTOR * per, |i, acc| {
            let ops = vcore::nth_string(nev::N_OPS, i % per);
            run_nevec(i, i / per, &ops, acc);
            if i % 30_011 == 99 {
                acc.sample(i, || json!({"nevec": nev::render(i / per, &ops)}));
            }
        });
    }
    // tags: fold in what the thread-schedule engine measured on this run
    fold_schedules(&mut ctx);

    if ctx.only_family.is_none() {
        for (c, m) in [
            ("end_group_restored_value_shadowed_twice", "end_group restored a value that itself shadows an outer value"),
            ("global_insert_purged_saved_value_at_depth_ge_2", "a global insert at depth >= 2 for a key with a saved value"),
            ("end_group_without_open_group", "end_group with no group open"),
            ("end_group_deleted_key_first_defined_in_group", "end_group removed a key that the enclosing level does not have"),
            ("global_insert_over_key_unknown_to_outermost_level", "global insert of a key that only exists inside groups"),
            ("second_local_insert_of_key_in_same_group", "the group log already holds the key"),
            ("end_group_of_a_group_that_changed_nothing", "an empty group (or one whose inserts changed nothing) is ended"),
            ("insert_of_the_value_every_level_already_has", "global insert that changes nothing"),
            ("local_insert_of_the_value_that_is_already_current", "local insert of the current value"),
            ("insert_beyond_the_end_leaving_a_gap", "key larger than every key the model holds plus one (Vec: resize, then push)"),
            ("insert_exactly_at_the_end", "key equal to the number of slots the model accounts for (Vec: push)"),
            ("local_insert_through_extend", "local insert performed by extend()"),
            ("key_changed_in_two_nonadjacent_open_groups", "a key changes in open groups i and j >= i+2 and in none between"),
            ("history_on_container_built_from_plain_pairs", "history run on a container made by FromIterator<(K,V)>"),
            ("replay_with_nonempty_group_log", "replay law on a state with a non-empty group log"),
            ("replay_continuations_checked", "continuations run on rebuilt containers"),
            ("interner_lookup_in_bucket_with_two_other_strings", "constant hasher: lookup walks a list with >= 2 other strings"),
            ("interner_new_string_already_occurs_in_buffer", "a new string is a substring of the shared buffer"),
            ("interner_empty_string_interned_after_others", "the empty string gets a key when the buffer is not empty"),
            ("interner_existing_string_after_deserialise", "dedup map rebuilt by deserialisation finds an old string"),
            ("interner_new_string_after_deserialise", "a new string is interned into a deserialised interner"),
            ("resolve_of_first_unissued_key", "resolve of the first never-issued key (and the next, the smallest, the largest) was required to be None"),
            ("interner_multibyte_string_interned_at_nonzero_offset", "a string with multi-byte characters starts inside the buffer"),
            ("interner_string_interned_after_a_multibyte_string", "byte offsets and character counts of the buffer differ when a string is added"),
            ("kmp_pattern_has_border", "the pattern has a proper prefix that is also a suffix"),
            ("kmp_overlapping_matches", "two occurrences overlap"),
            ("kmp_disjoint_repeated_matches", "two occurrences do not overlap"),
            ("kmp_overlap_by_two_or_more", "two occurrences share >= 2 elements"),
            ("kmp_prefix_function_needs_two_fallback_steps", "building the prefix function falls back twice at one position"),
            ("kmp_search_needs_two_fallback_steps", "one text element makes the search fall back twice"),
            ("kmp_text_is_exactly_the_pattern", "text == pattern"),
            ("nevec_pop_from_tail_on_single_element", "pop_from_tail on a one-element vector"),
        ] {
            ctx.require(c, m);
        }
    }
    ctx.finish(
        "grouping map: every operation history inside the bound on both backing containers, compared step by step with the stack-of-snapshots model (non-trivial = an end_group that changes what is visible, or a global insert inside a group), plus BFS with state merging on the exact implementation state and the replay law under all continuations of length <= 2; interner: every history x hasher x serde position (non-trivial = >= 2 distinct strings interned and an interned string looked up again); KMP: every pattern x text (non-trivial = at least one occurrence); nevec: every history, recorded only; tags: every thread schedule of the listed configurations (counted as transitions, distinct outcomes as states)",
    );
}

/// Read /verif/evidence/C20-sched.json (written by /verif/harness-sched/run just before this binary
/// is started by ./check) and add its counts as the family "tags-schedules".
fn fold_schedules(ctx: &mut Ctx) {
    if !ctx.wants("tags-schedules") {
        return;
    }
    let out = std::env::var("VERIF_OUT").unwrap_or_else(|_| "/verif".into());
    let path = format!("{out}/evidence/C20-sched.json");
    let Ok(text) = std::fs::read_to_string(&path) else {
        eprintln!("[C20] {path} not present: the thread-schedule engine did not run; evidence covers the sequential containers only");
        ctx.extra("tag_schedules", json!({"present": false, "note": "harness-sched/run did not run before this binary"}));
        return;
    };
    let v: Value = match serde_json::from_str(&text) {
        Ok(v) => v,
        Err(e) => {
            ctx.machinery_error(format!("{path} is not JSON: {e}"));
            return;
        }
    };
    let tier = if ctx.quick() { "quick" } else { "thorough" };
    if v["tier"] != tier || v["complete"] != true {
        eprintln!("[C20] {path} is from another tier or an incomplete run: not folded in");
        ctx.extra("tag_schedules", json!({"present": true, "folded": false, "file": v}));
        return;
    }
    let mut acc = Acc::default();
    let mut bounds = vec![];
    for (ci, c) in v["configurations"].as_array().cloned().unwrap_or_default().into_iter().enumerate() {
        let s = c["schedules"].as_u64().unwrap_or(0);
        let o = c["distinct_outcomes"].as_u64().unwrap_or(0);
        acc.evals += s;
        acc.nontrivial += c["schedules_with_contention"].as_u64().unwrap_or(0);
        acc.transitions += s;
        acc.states += o;
        acc.traces_validated += s;
        acc.count_n("tag_schedules_explored", s);
        acc.count_n("tag_schedules_lock_contended", c["schedules_with_contention"].as_u64().unwrap_or(0));
        acc.class(&format!("tags {}: {} schedules, {} outcomes", c["name"].as_str().unwrap_or("?"), s, o));
        bounds.push(format!("{} ({} schedules)", c["name"].as_str().unwrap_or("?"), s));
        // (sample indices only order the samples that are kept: one tag configuration, then a grouping-map and an interner history)
        acc.sample(if ci == 0 { 0 } else { 5000 + ci as u64 }, || json!({"tag_configuration": c["name"], "sample_outcomes": c["sample_outcomes"], "legend": "per thread: ranks of the tags it created, s<rank> = value its StaticTag::get() returned"}));
    }
    ctx.require("tag_schedules_lock_contended", "schedules in which a thread had to wait for a seam lock");
    ctx.extra("tag_schedules", json!({"present": true, "folded": true, "file": v}));
    let wall = v["wall_s"].as_f64().unwrap_or(0.0);
    ctx.push_family("tags-schedules", &format!("shuttle check_dfs (every schedule) through the H1 sync seam: {}", bounds.join("; ")), v["exhaustive"] == true, v["caps_hit"].as_array().filter(|a| !a.is_empty()).map(|a| a.iter().filter_map(|x| x.as_str()).collect::<Vec<_>>().join("; ")), wall, acc);
}

fn u64s(v: &Value) -> Vec<u64> {
    v.as_array().map(|a| a.iter().map(|x| x.as_u64().unwrap_or(0)).collect()).unwrap_or_default()
}

fn replay(case: &Value, acc: &mut Acc) {
    match case["kind"].as_str() {
        Some("gmap") => {
            let h: Vec<u8> = u64s(&case["h"]).into_iter().map(|x| x as u8).collect();
            let container = case["container"].as_str().unwrap_or("hash").to_string();
            run_gmap(&container, case["alpha"].as_u64().unwrap_or(0), 0, &h, acc);
        }
        Some("gmap-cont") => {
            let h: Vec<u8> = u64s(&case["h"]).into_iter().map(|x| x as u8).collect();
            let container = case["container"].as_str().unwrap_or("hash").to_string();
            run_gmap_cont(&container, case["alpha"].as_u64().unwrap_or(0), 0, &h, case["cont"].as_u64().unwrap_or(2) as usize, acc);
        }
        Some("interner") => {
            let ops = u64s(&case["ops"]);
            let only = (case["constant_hasher"] == true, case["serde_at"].as_u64().map(|x| x as usize), case["serde_via_value"] == true);
            run_interner(0, case["set"].as_u64().unwrap_or(0), &ops, Some(only), acc);
        }
        Some("kmp") => run_kmp(0, &u64s(&case["pat"]), &u64s(&case["text"]), acc),
        Some("nevec") => run_nevec(0, case["ctor"].as_u64().unwrap_or(0), &u64s(&case["ops"]), acc),
        _ => {
            eprintln!("replay: unknown case kind");
            std::process::exit(2);
        }
    }
}
