//! C20 — not built yet.
fn main() {
    eprintln!("c20: check not built yet");
    std::process::exit(2);
}
