//! `Nevec` (non-empty vector) against `Vec<u8>` that is never allowed to become empty.

use crate::common::{mismatch, Mismatch};
use texcraft_stdext::collections::nevec::Nevec;
use texcraft_stdext::nevec;
use vcore::Acc;

pub const N_CTOR: u64 = 4;
pub const N_OPS: u64 = 6;

pub fn render(ctor: u64, ops: &[u64]) -> String {
    let c = ["new(9)", "new_with_tail(9,[8,7])", "with_capacity(9,4)", "nevec![9,8]"][ctor as usize];
    let o: Vec<&str> = ops.iter().map(|o| ["push(0)", "push(1)", "pop_from_tail", "*last_mut()=2", "*get_mut(1)=3", "*get_mut(0)=4"][*o as usize]).collect();
    format!("{c} {}", o.join(" "))
}

fn observe(v: &Nevec<u8>, m: &[u8], when: &str) -> Result<(), Mismatch> {
    let err = |what: &str, want: String, got: String| Err(mismatch(want, got, format!("{what} {when}")));
    if v.len() != m.len() {
        return err("len", m.len().to_string(), v.len().to_string());
    }
    if v.last() != m.last().unwrap() {
        return err("last", format!("{:?}", m.last()), format!("{:?}", v.last()));
    }
    for i in 0..m.len() + 2 {
        if v.get(i) != m.get(i) {
            return err(&format!("get({i})"), format!("{:?}", m.get(i)), format!("{:?}", v.get(i)));
        }
    }
    for (i, x) in m.iter().enumerate() {
        if v[i] != *x {
            return err(&format!("index [{i}]"), x.to_string(), v[i].to_string());
        }
    }
    let it: Vec<u8> = v.into_iter().copied().collect();
    if it != m {
        return err("iteration", format!("{m:?}"), format!("{it:?}"));
    }
    let shown = v.to_string();
    let want: String = m.iter().map(|x| x.to_string()).collect();
    if shown != want {
        return err("Display", want, shown);
    }
    Ok(())
}

pub fn check(ctor: u64, ops: &[u64], acc: &mut Acc) -> Result<(), Mismatch> {
    let (mut v, mut m): (Nevec<u8>, Vec<u8>) = match ctor {
        0 => (Nevec::new(9), vec![9]),
        1 => (Nevec::new_with_tail(9, vec![8, 7]), vec![9, 8, 7]),
        2 => (Nevec::with_capacity(9, 4), vec![9]),
        _ => (nevec![9, 8], vec![9, 8]),
    };
    observe(&v, &m, "after construction")?;
    for (i, op) in ops.iter().enumerate() {
        match op {
            0 | 1 => {
                v.push(*op as u8);
                m.push(*op as u8);
            }
            2 => {
                let want = if m.len() > 1 { m.pop() } else { None };
                if want.is_none() {
                    acc.count("nevec_pop_from_tail_on_single_element");
                }
                let got = v.pop_from_tail();
                if got != want {
                    return Err(mismatch(format!("{want:?}"), format!("{got:?}"), format!("pop_from_tail at step {i}")));
                }
            }
            3 => {
                *v.last_mut() = 2;
                *m.last_mut().unwrap() = 2;
            }
            4 => match (v.get_mut(1), m.get_mut(1)) {
                (Some(a), Some(b)) => {
                    *a = 3;
                    *b = 3;
                }
                (None, None) => {}
                (a, b) => return Err(mismatch(format!("{b:?}"), format!("{a:?}"), format!("get_mut(1) at step {i}"))),
            },
            _ => match (v.get_mut(0), m.get_mut(0)) {
                (Some(a), Some(b)) => {
                    *a = 4;
                    *b = 4;
                }
                (a, b) => return Err(mismatch(format!("{b:?}"), format!("{a:?}"), format!("get_mut(0) at step {i}"))),
            },
        }
        observe(&v, &m, &format!("after step {i}"))?;
    }
    // `is_empty` is documented as "returns whether the vector is non-empty, which it always is" and
    // returns true; recorded as an outcome class, not judged (the property does not speak about it).
    acc.class(if v.is_empty() { "nevec is_empty() = true on a non-empty vector (as documented)" } else { "nevec is_empty() = false" });
    let c = v.clone();
    observe(&c, &m, "on a clone")?;
    let got = v.pop();
    if Some(got) != m.last().copied() {
        return Err(mismatch(format!("{:?}", m.last()), format!("{got}"), "pop (consuming)"));
    }
    Ok(())
}
