//! Interner: real `Interner<NonZeroU32, S>` against `Vec<String>` + linear search.

use crate::common::{mismatch, Mismatch};
use std::hash::{BuildHasher, BuildHasherDefault, Hasher};
use std::num::NonZeroU32;
use texcraft_stdext::collections::interner::Interner;
use vcore::Acc;

/// Strings that are prefixes / suffixes / concatenations of each other inside the shared buffer.
pub const STRS: [&str; 6] = ["", "a", "b", "ab", "ba", "aa"];
pub const N_OPS: u64 = 12;

/// Every string hashes to the same value.
#[derive(Default, Clone, Copy)]
pub struct ConstHasher;
impl Hasher for ConstHasher {
    fn finish(&self) -> u64 {
        7
    }
    fn write(&mut self, _: &[u8]) {}
}
pub type ConstBuild = BuildHasherDefault<ConstHasher>;
pub type RandomBuild = std::collections::hash_map::RandomState;

/// op = 2*string + (0: get_or_intern, 1: get)
pub fn render(ops: &[u64]) -> String {
    ops.iter().map(|o| format!("{}({:?})", if o % 2 == 0 { "get_or_intern" } else { "get" }, STRS[(o / 2) as usize])).collect::<Vec<_>>().join(" ")
}

fn key(i: usize) -> NonZeroU32 {
    NonZeroU32::new(i as u32 + 1).unwrap()
}

/// resolve of every issued key, of the first unissued key and of a far key; get of every string.
fn observe<S: BuildHasher>(it: &Interner<NonZeroU32, S>, model: &[String], when: &str) -> Result<(), Mismatch> {
    for (i, m) in model.iter().enumerate() {
        let got = it.resolve(key(i));
        if got != Some(m.as_str()) {
            return Err(mismatch(format!("resolve({}) = Some({m:?})", i + 1), format!("{got:?}"), format!("resolve of an issued key {when}")));
        }
    }
    for k in [model.len(), model.len() + 1, u32::MAX as usize - 1] {
        let got = it.resolve(key(k));
        if got.is_some() {
            return Err(mismatch(format!("resolve({}) = None", k + 1), format!("{got:?}"), format!("resolve of a key that was never issued {when}")));
        }
    }
    for s in STRS {
        let want = model.iter().position(|m| m == s).map(key);
        let got = it.get(s);
        if got != want {
            return Err(mismatch(format!("get({s:?}) = {want:?}"), format!("{got:?}"), format!("get {when}")));
        }
    }
    Ok(())
}

fn roundtrip<S: BuildHasher + Default>(it: Interner<NonZeroU32, S>) -> Result<Interner<NonZeroU32, S>, Mismatch> {
    let text = serde_json::to_string(&it).map_err(|e| mismatch("serialises", e.to_string(), "serde_json::to_string of the interner"))?;
    serde_json::from_str(&text).map_err(|e| mismatch("deserialises", format!("{e} on {text}"), "serde_json::from_str of the serialised interner"))
}

/// One execution: the history `ops` with a serde round trip before op number `serde_at` (== len: at the end).
pub fn check<S: BuildHasher + Default>(ops: &[u64], serde_at: Option<usize>, constant: bool, acc: &mut Acc) -> Result<(), Mismatch> {
    let mut it: Interner<NonZeroU32, S> = Default::default();
    let mut model: Vec<String> = vec![];
    let mut deserialised = false;
    observe(&it, &model, "on the empty interner")?;
    for (i, op) in ops.iter().enumerate() {
        if serde_at == Some(i) {
            it = roundtrip(it)?;
            deserialised = true;
            observe(&it, &model, &format!("after the serde round trip before step {i}"))?;
        }
        let s = STRS[(op / 2) as usize];
        let known = model.iter().position(|m| m == s);
        if constant && model.iter().filter(|m| m.as_str() != s).count() >= 2 {
            acc.count("interner_lookup_in_bucket_with_two_other_strings");
        }
        if op % 2 == 0 {
            let want = match known {
                Some(p) => {
                    if deserialised {
                        acc.count("interner_existing_string_after_deserialise");
                    }
                    p
                }
                None => {
                    let buffer: String = model.concat();
                    if !s.is_empty() && buffer.contains(s) {
                        acc.count("interner_new_string_already_occurs_in_buffer");
                    }
                    if s.is_empty() && !model.is_empty() {
                        acc.count("interner_empty_string_interned_after_others");
                    }
                    if deserialised {
                        acc.count("interner_new_string_after_deserialise");
                    }
                    model.push(s.to_string());
                    model.len() - 1
                }
            };
            let got = it.get_or_intern(s);
            if got != key(want) {
                return Err(mismatch(format!("get_or_intern({s:?}) = {}", want + 1), format!("{}", got.get()), format!("key returned at step {i}")));
            }
        } else {
            let got = it.get(s);
            if got != known.map(key) {
                return Err(mismatch(format!("get({s:?}) = {:?}", known.map(|p| p + 1)), format!("{got:?}"), format!("get at step {i}")));
            }
        }
        observe(&it, &model, &format!("after step {i}"))?;
    }
    if serde_at == Some(ops.len()) {
        let it = roundtrip(it)?;
        observe(&it, &model, "after the final serde round trip")?;
    }
    Ok(())
}

/// Non-trivial by rule N: at least two distinct strings are interned and a string that is already
/// interned is looked up again (by get_or_intern or get).
pub fn nontrivial(ops: &[u64]) -> bool {
    let mut seen: Vec<u64> = vec![];
    let mut relook = false;
    for op in ops {
        let s = op / 2;
        if seen.contains(&s) {
            relook = true;
        } else if op % 2 == 0 {
            seen.push(s);
        }
    }
    seen.len() >= 2 && relook
}
