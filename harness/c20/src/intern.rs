//! Interner: real `Interner<NonZeroU32, S>` against `Vec<String>` + linear search.

use crate::common::{mismatch, Mismatch};
use std::hash::{BuildHasher, BuildHasherDefault, Hasher};
use std::num::NonZeroU32;
use texcraft_stdext::collections::interner::Interner;
use vcore::Acc;

/// Strings that are prefixes / suffixes / concatenations of each other inside the shared buffer.
pub const STRS: [&str; 6] = ["", "a", "b", "ab", "ba", "aa"];
/// Second set: 2-, 3- and 4-byte characters (byte length != char count), strings that share leading
/// bytes ("é" = C3 A9, "ê" = C3 AA), and multi-byte strings that are prefix / suffix of each other.
pub const STRS_MB: [&str; 6] = ["é", "ê", "€", "𝄞", "éé", "a€"];
pub const SETS: [&[&str; 6]; 2] = [&STRS, &STRS_MB];
pub const N_OPS: u64 = 12;

/// Every string hashes to the same value.
#[derive(Default, Clone, Copy)]
pub struct ConstHasher;
impl Hasher for ConstHasher {
    fn finish(&self) -> u64 {
        7
    }
    fn write(&mut self, _: &[u8]) {}
}
pub type ConstBuild = BuildHasherDefault<ConstHasher>;
pub type RandomBuild = std::collections::hash_map::RandomState;

/// op = 2*string + (0: get_or_intern, 1: get)
pub fn render(ops: &[u64], strs: &[&str; 6]) -> String {
    ops.iter().map(|o| format!("{}({:?})", if o % 2 == 0 { "get_or_intern" } else { "get" }, strs[(o / 2) as usize])).collect::<Vec<_>>().join(" ")
}

/// The oracle: the strings interned so far, each with the key the interner handed out for it the
/// first time. Which numbers are used as keys is the interner's business (recorded as an outcome
/// class); the property demands equal keys exactly for equal strings, and that every issued key
/// resolves to its string.
type Model = Vec<(String, NonZeroU32)>;

fn key_of(model: &Model, s: &str) -> Option<NonZeroU32> {
    model.iter().find(|m| m.0 == s).map(|m| m.1)
}

/// resolve of every issued key; get of every string.
fn observe<S: BuildHasher>(it: &Interner<NonZeroU32, S>, model: &Model, strs: &[&str; 6], when: &str) -> Result<(), Mismatch> {
    for (m, k) in model.iter() {
        let got = it.resolve(*k);
        if got != Some(m.as_str()) {
            return Err(mismatch(format!("resolve({k}) = Some({m:?})"), format!("{got:?}"), format!("resolve of an issued key {when}")));
        }
    }
    // keys that were never issued: the first unissued one, the one after it, the smallest and the largest key
    let max = model.iter().map(|m| m.1.get()).max().unwrap_or(0);
    for raw in [max.saturating_add(1), max.saturating_add(2), 1, u32::MAX] {
        let k = NonZeroU32::new(raw).unwrap();
        if model.iter().any(|m| m.1 == k) {
            continue;
        }
        let got = it.resolve(k);
        if got.is_some() {
            return Err(mismatch(format!("resolve({k}) = None (the key was never issued; {} keys issued)", model.len()), format!("{got:?}"), format!("resolve of a never-issued key {when}: a key that stands for no string resolves to one")));
        }
    }
    for s in strs.iter().copied() {
        let want = key_of(model, s);
        let got = it.get(s);
        if got != want {
            return Err(mismatch(format!("get({s:?}) = {want:?}"), format!("{got:?}"), format!("get {when} (an interned string has the key it was given, any other string has none)")));
        }
    }
    Ok(())
}

/// Recorded, not judged (the property does not say which numbers are used): whether keys are 1, 2, 3, ...
fn record_incidentals<S: BuildHasher>(_it: &Interner<NonZeroU32, S>, model: &Model, acc: &mut Acc) {
    let consecutive = model.iter().enumerate().all(|(i, m)| m.1.get() as usize == i + 1);
    acc.class(if consecutive { "interner: keys are 1, 2, 3, ... in order of first interning" } else { "interner: keys are not consecutive from 1 (recorded, not judged)" });
}

fn roundtrip<S: BuildHasher + Default>(it: Interner<NonZeroU32, S>, via_value: bool) -> Result<Interner<NonZeroU32, S>, Mismatch> {
    if via_value {
        let v = serde_json::to_value(&it).map_err(|e| mismatch("serialises", e.to_string(), "serde_json::to_value of the interner"))?;
        return serde_json::from_value(v.clone()).map_err(|e| mismatch("deserialises", format!("{e} on {v}"), "serde_json::from_value of the serialised interner"));
    }
    let text = serde_json::to_string(&it).map_err(|e| mismatch("serialises", e.to_string(), "serde_json::to_string of the interner"))?;
    serde_json::from_str(&text).map_err(|e| mismatch("deserialises", format!("{e} on {text}"), "serde_json::from_str of the serialised interner"))
}

/// One execution: the history `ops` with a serde round trip before op number `serde_at` (== len: at the end).
pub fn check<S: BuildHasher + Default>(ops: &[u64], strs: &[&str; 6], serde_at: Option<usize>, via_value: bool, constant: bool, acc: &mut Acc) -> Result<(), Mismatch> {
    let mut it: Interner<NonZeroU32, S> = Default::default();
    let mut model: Model = vec![];
    let mut deserialised = false;
    observe(&it, &model, strs, "on the empty interner")?;
    acc.count("resolve_of_first_unissued_key");
    for (i, op) in ops.iter().enumerate() {
        if serde_at == Some(i) {
            it = roundtrip(it, via_value)?;
            deserialised = true;
            observe(&it, &model, strs, &format!("after the serde round trip before step {i}"))?;
        }
        let s = strs[(op / 2) as usize];
        let known = key_of(&model, s);
        if constant && model.iter().filter(|m| m.0 != s).count() >= 2 {
            acc.count("interner_lookup_in_bucket_with_two_other_strings");
        }
        if op % 2 == 0 {
            let got = it.get_or_intern(s);
            match known {
                Some(k) => {
                    if deserialised {
                        acc.count("interner_existing_string_after_deserialise");
                    }
                    if got != k {
                        return Err(mismatch(format!("get_or_intern({s:?}) = {k}, the key this string was given before"), format!("{got}"), format!("equal strings get equal keys (step {i})")));
                    }
                }
                None => {
                    let buffer: String = model.iter().map(|m| m.0.as_str()).collect();
                    if !s.is_empty() && buffer.contains(s) {
                        acc.count("interner_new_string_already_occurs_in_buffer");
                    }
                    if s.is_empty() && !model.is_empty() {
                        acc.count("interner_empty_string_interned_after_others");
                    }
                    if deserialised {
                        acc.count("interner_new_string_after_deserialise");
                    }
                    if s.len() != s.chars().count() && !model.is_empty() {
                        acc.count("interner_multibyte_string_interned_at_nonzero_offset");
                    }
                    if model.iter().any(|m| m.0.len() != m.0.chars().count()) {
                        acc.count("interner_string_interned_after_a_multibyte_string");
                    }
                    if let Some(other) = model.iter().find(|m| m.1 == got) {
                        return Err(mismatch(format!("get_or_intern({s:?}) = a key no other string has"), format!("{got}, the key of {:?}", other.0), format!("different strings get different keys (step {i})")));
                    }
                    model.push((s.to_string(), got));
                }
            }
        } else {
            let got = it.get(s);
            if got != known {
                return Err(mismatch(format!("get({s:?}) = {known:?}"), format!("{got:?}"), format!("get at step {i}")));
            }
        }
        observe(&it, &model, strs, &format!("after step {i}"))?;
        acc.count("resolve_of_first_unissued_key");
    }
    if serde_at == Some(ops.len()) {
        it = roundtrip(it, via_value)?;
        observe(&it, &model, strs, "after the final serde round trip")?;
    }
    record_incidentals(&it, &model, acc);
    Ok(())
}

/// Non-trivial by rule N: at least two distinct strings are interned and a string that is already
/// interned is looked up again (by get_or_intern or get).
pub fn nontrivial(ops: &[u64]) -> bool {
    let mut seen: Vec<u64> = vec![];
    let mut relook = false;
    for op in ops {
        let s = op / 2;
        if seen.contains(&s) {
            relook = true;
        } else if op % 2 == 0 {
            seen.push(s);
        }
    }
    seen.len() >= 2 && relook
}
