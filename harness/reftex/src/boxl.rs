//! (module to be written)
