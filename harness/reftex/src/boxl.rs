//! Box language (C18): value boundary sets, lexeme alphabets and the few expectations that are not the
//! identity. The oracle of C18 is "print then parse gives the list back", so there is no model of the
//! language here; what lives here is everything the enumerators and the known-finding predicate need
//! that must not come from the repository.

/// Scaled values at the boundaries of the print/parse code: zero, one unit in the last place, the
/// half point (a one-digit fraction), whole points, the largest legal dimension (TeX §421: 2^30-1 sp =
/// 16383.99998pt) and a value with a five-digit fraction.
pub const SCALED: [i32; 11] = [0, 1, -1, 32768, -32768, 65536, 655360, (1 << 30) - 1, -((1 << 30) - 1), 12345678, -7];
/// A short sub-menu for nested positions.
pub const SCALED_SHORT: [i32; 4] = [0, -1, 32768, (1 << 30) - 1];
/// i32 contents that are not legal TeX dimensions (|x| >= 2^30). i32::MIN is excluded where it is the
/// sentinel for a running rule dimension.
pub const SCALED_BEYOND: [i32; 5] = [1 << 30, -(1 << 30), i32::MAX, i32::MIN + 1, i32::MIN];

pub const PENALTIES: [i32; 11] = [0, 1, -1, 10000, -10000, 10001, -10001, i32::MAX - 1, i32::MAX, i32::MIN + 1, i32::MIN];

/// Characters: ASCII letter, space, the escape character, control characters with and without a short
/// escape, the characters of the language's own syntax, non-ASCII, a combining mark (printed as \u{..}
/// by Rust's escape_debug), a non-ASCII white space, the ends of the scalar range. No double quote:
/// the property excludes it.
pub const CHARS: [char; 31] = [
    'a', 'Z', ' ', '\\', '\n', '\t', '\r', '\0', '\u{1}', '\u{7f}', '\u{80}', '\'', '#', '(', ']', ',', '=', 'é', '\u{301}', '\u{a0}', '\u{2028}', '日', '\u{d7ff}', '\u{e000}', '\u{ffff}', '\u{10000}', '𝄞', '\u{fffff}',
    '\u{100000}', '\u{10fffe}', '\u{10ffff}',
];
pub const CHARS_SHORT: [char; 7] = ['a', '\\', '\n', 'é', '日', '𝄞', '\u{10ffff}'];

pub const FONTS: [u32; 7] = [0, 1, 255, 256, i32::MAX as u32, 1 << 31, u32::MAX];

/// Glue ratios as (numerator, denominator) pairs of scaled numbers.
pub const RATIOS: [(i32, i32); 18] = [
    (0, 1), (1, 1), (65536, 65536), (1, 3), (-5, 7), (98304, 65536), (16383, 1), (1073741760, 65536), (1073741823, 65536), (16384, 1), (-16384, 1),
    (1114144768, 65536), (1234567890, 65537), (i32::MAX, 109225), (19999, 1), (20000, 1), (1 << 30, 1), (i32::MAX, 1),
];

/// The quotient the way the subject is documented to form it (TeX §186 prints a `real`): IEEE single
/// precision division of the two integers converted to single precision.
pub fn glue_ratio_f32(num: i32, den: i32) -> f32 {
    (num as f32) / (den as f32)
}

/// D20 predicate on the *case*: the box's glue ratio is at least 16384 in absolute value, so its
/// text (clamped to 20000.0 as in TeX §186) is not a legal dimension and the reader, which reads the
/// ratio with the dimension scanner, cannot accept it.
pub fn d20_applies(num: i32, den: i32) -> bool {
    let g = glue_ratio_f32(num, den).abs();
    g >= 16384.0
}

/// Is `start..end` a span inside `source` that falls on character boundaries?
pub fn span_ok(source: &str, start: usize, end: usize) -> bool {
    start <= end && end <= source.len() && source.is_char_boundary(start) && source.is_char_boundary(end)
}

/// Lexemes of DESIGN §3 C18 (plus the space, so that both `1pt x` and `1ptx` are formed).
pub const LEXEMES: [&str; 18] = ["chars", "glue", "(", ")", "[", "]", ",", "=", "\"a\"", "\"", "1pt", "1fil", "-", "#c\n", "x", " ", "日", "\"é𝄞\""];

/// Pieces of well-formed programs (calls, argument fragments, brackets, comments, white space): most
/// short concatenations parse, with comments and line breaks in every position `format` has to handle.
pub const PROGRAM_PIECES: [&str; 26] = [
    "chars(\"ab\")", "chars(\"a\", font=1)", "glue(1pt, 2fil, 3pt)", "glue(", "width=1pt", "1pt", ",", ")", "hbox(content=[", "])", "]", "#c\n", "\n", " ", "kern(-.5pt)", "penalty(1,)", "vbox(", "content=[",
    "disc(pre_break=[", "rule(\"running\"", "chars(\"é日𝄞\")", "#é日𝄞\n", "#c", "\r\n", "\r", "#(",
];

/// Pieces for the inside of a string literal: the escape machine of the lexer.
pub const STRING_PIECES: [&str; 15] = ["\\", "\"", "u", "{", "}", "\\u{", "F", "FFFFFFFF", "0", "n", "q", "é", "110000", "D800", " "];

/// Number lexemes: sign x integer part x fraction x unit.
pub fn number_lexemes() -> Vec<String> {
    let signs = ["", "-"];
    let ints = ["", "0", "1", "255", "256", "16383", "16384", "32767", "32768", "2147483646", "2147483647", "2147483648", "2147483649", "4294967295", "4294967296", "99999999999999999999"];
    let fracs = ["", ".", ".5", ".99998", ".99999", ".999999", ".9999999999999999", ".99999999999999999", ".999999999999999999", ".00000000000000001", ".5.5"];
    let units = ["", "pt", "sp", "in", "em", "fil", "filll", "fillll", "xx", "truept"];
    let mut out = vec![];
    for s in signs {
        for i in ints {
            for f in fracs {
                for u in units {
                    let t = format!("{s}{i}{f}{u}");
                    if !t.is_empty() {
                        out.push(t);
                    }
                }
            }
        }
    }
    out.sort();
    out.dedup();
    out
}

/// The functions of the language with their parameter names (lang/mod.rs documentation table).
pub const FUNCTIONS: [(&str, &[&str]); 13] = [
    ("chars", &["content", "font"]),
    ("glue", &["width", "stretch", "shrink"]),
    ("penalty", &["value"]),
    ("kern", &["width"]),
    ("hbox", &["height", "width", "depth", "shift_amount", "glue_ratio", "glue_order", "content"]),
    ("lig", &["char", "original_chars", "font", "includes_left_boundary", "includes_right_boundary"]),
    ("vbox", &["height", "width", "depth", "shift_amount", "content"]),
    ("disc", &["pre_break", "post_break", "replace_count"]),
    ("rule", &["height", "width", "depth"]),
    ("mark", &[]),
    ("adjust", &["content"]),
    ("insertion", &["box_number", "height", "split_max_depth", "split_top_skip_width", "split_top_skip_stretch", "split_top_skip_shrink", "float_penalty", "vbox"]),
    ("math", &["kind"]),
];

/// One value of every type (and some near misses) for the argument-type matrix.
pub const ARG_VALUES: [&str; 36] = [
    "", "1", "-1", "255", "256", "1pt", "-0.5pt", "1fil", "2filll", "\"a\"", "\"ab\"", "\"\"", "\"é\"", "\"日本\"", "\"𝄞\"", "\"true\"", "\"false\"", "\"running\"", "\"normal\"", "\"fill\"", "\"1.5\"", "\"-0.25\"", "\"16383.99998\"",
    "\"16384.0\"", "\"19999.99\"", "\"20000.0\"", "\"20000.01\"", "\"1e5\"", "\"nan\"", "\"before\"", "\"after\"", "[]", "[chars(\"a\")]", "[glue()]", "[penalty(1) kern(1pt)]", "x",
];
