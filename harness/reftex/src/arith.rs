//! TeX's integer arithmetic (tex.web part 7), transliterated with i64 so that Pascal's range checks
//! become explicit. `Err(())` stands for TeX setting `arith_error`.

pub const INFINITY: i64 = 0o17777777777; // 2^31-1, tex.web §110 (largest integer)
pub const MAX_DIMEN: i64 = 0o7777777777; // 2^30-1, tex.web §421
pub const UNITY: i64 = 0o200000; // 2^16
pub const INF_BAD: i64 = 10000; // §108

/// §103 print_scaled: the shortest decimal that rounds to `s` scaled points (without the unit).
pub fn print_scaled(s: i64) -> String {
    let mut out = String::new();
    let mut s = s;
    if s < 0 {
        out.push('-');
        s = -s;
    }
    out.push_str(&(s / UNITY).to_string());
    out.push('.');
    s = 10 * (s % UNITY) + 5;
    let mut delta = 10i64;
    loop {
        if delta > UNITY {
            s = s + 0o100000 - 50000; // round the last digit
        }
        out.push((b'0' + (s / UNITY) as u8) as char);
        s = 10 * (s % UNITY);
        delta *= 10;
        if s <= delta {
            break;
        }
    }
    out
}

/// §102 round_decimals: digits d[0..k) after the decimal point (k <= 17) -> scaled fraction.
pub fn round_decimals(digits: &[u8]) -> i64 {
    let mut a: i64 = 0;
    for d in digits.iter().rev() {
        a = (a + (*d as i64) * 2 * UNITY) / 10;
    }
    (a + 1) / 2
}

/// §105 mult_and_add(n, x, y, max_answer) = n*x + y, or arith_error.
pub fn mult_and_add(n: i64, x: i64, y: i64, max_answer: i64) -> Result<i64, ()> {
    let (mut n, mut x) = (n, x);
    if n < 0 {
        x = -x;
        n = -n;
    }
    if n == 0 {
        Ok(y)
    } else if x <= (max_answer - y) / n && -x <= (max_answer + y) / n {
        Ok(n * x + y)
    } else {
        Err(())
    }
}
pub fn nx_plus_y(n: i64, x: i64, y: i64) -> Result<i64, ()> {
    mult_and_add(n, x, y, MAX_DIMEN)
}
pub fn mult_integers(n: i64, x: i64) -> Result<i64, ()> {
    mult_and_add(n, x, 0, INFINITY)
}

/// §106 x_over_n: (quotient, remainder) with truncation toward zero; n = 0 is arith_error.
pub fn x_over_n(x: i64, n: i64) -> Result<(i64, i64), ()> {
    if n == 0 {
        return Err(());
    }
    let (mut x, mut n, mut negative) = (x, n, false);
    if n < 0 {
        x = -x;
        n = -n;
        negative = true;
    }
    let (q, r) = if x >= 0 { (x / n, x % n) } else { (-((-x) / n), -((-x) % n)) };
    Ok((q, if negative { -r } else { r }))
}

/// §107 xn_over_d: x*n/d for 0 <= n <= 2^16, 0 < d <= 2^16, exact with 64-bit arithmetic;
/// returns (quotient, remainder); |result| >= 2^30 is arith_error.
pub fn xn_over_d(x: i64, n: i64, d: i64) -> Result<(i64, i64), ()> {
    let positive = x >= 0;
    let ax = x.abs();
    let t = ax * n;
    let (q, r) = (t / d, t % d);
    if q >= 1 << 30 {
        return Err(());
    }
    if positive {
        Ok((q, r))
    } else {
        Ok((-q, -r))
    }
}

/// §108 badness(t, s): approximately 100(t/s)^3, for t >= 0.
pub fn badness(t: i64, s: i64) -> i64 {
    if t == 0 {
        0
    } else if s <= 0 {
        INF_BAD
    } else {
        let r = if t <= 7230584 {
            (t * 297) / s
        } else if s >= 1663497 {
            t / (s / 297)
        } else {
            t
        };
        if r > 1290 {
            INF_BAD
        } else {
            (r * r * r + 0o400000) / 0o1000000
        }
    }
}

#[cfg(test)]
mod tests {
    use super::*;
    #[test]
    fn knuth_values() {
        assert_eq!(print_scaled(65536), "1.0");
        assert_eq!(print_scaled(1), "0.00002");
        assert_eq!(print_scaled(-32768), "-0.5");
        assert_eq!(print_scaled(MAX_DIMEN), "16383.99998");
        assert_eq!(round_decimals(&[5]), 32768);
        assert_eq!(round_decimals(&[0, 0, 0, 0, 1]), 1);
        assert_eq!(badness(1, 1), 100);
        assert_eq!(badness(10, 5), 800);
        assert_eq!(badness(1, 0), INF_BAD);
        assert_eq!(x_over_n(-7, 2), Ok((-3, -1)));
        assert_eq!(x_over_n(7, -2), Ok((-3, 1)));
    }
}
