//! Stack-of-snapshots model of TeX grouping (C01, C20).
//!
//! TeX §268-§284: every assignment is either local (undone by the matching end of group) or global
//! (survives every enclosing group). TeX implements this with a save stack that records old
//! values (`eq_save` §279, `eq_define` §277, `geq_define` §279, `unsave` §281-§283). The model here is
//! the *definition* those sections implement, with no save stack at all:
//!
//! * the state is a stack of complete key -> value maps ("snapshots"); `levels[0]` is what is
//!   visible with no group open, the last level is what is visible now;
//! * `begin_group` (§274 `new_save_level`) pushes a copy of the top level;
//! * a local assignment (§277 `eq_define`) writes the top level only;
//! * a global assignment (§279 `geq_define`) writes **every** level (so the value survives every
//!   `unsave`, and every value saved for that key is forgotten - §283 "if the level is level_one
//!   the saved value is destroyed" is the save-stack way of saying the same thing);
//! * `end_group` (§281 `unsave`) pops the top level; with no group open it is an error and nothing
//!   changes (TeX: "Extra }" §1069, the container: `Err(NoGroupToEndError)`).
//!
//! `\globaldefs` (§1211 / §1214): if positive every assignment is global, if negative every assignment is local,
//! whatever prefix was given; `effective_scope` applies that rule.
//!
//! Generic over key and value so that C20 (container keys/values) and C01 (VM variables with
//! their printed values) can both use it. A value that "does not exist" is simply an absent key;
//! C01 models "undefined" by using `Option` values or `remove_*` below.

use std::collections::BTreeMap;

#[derive(Clone, Copy, PartialEq, Eq, Debug, Hash, PartialOrd, Ord)]
pub enum Scope {
    Local,
    Global,
}

/// §1214: `if global_defs<>0 then if global_defs<0 then (a>=4 => a:=a-4) else (a<4 => a:=a+4)`.
pub fn effective_scope(requested: Scope, globaldefs: i64) -> Scope {
    if globaldefs > 0 {
        Scope::Global
    } else if globaldefs < 0 {
        Scope::Local
    } else {
        requested
    }
}

/// Returned by `end_group` when no group is open.
#[derive(Clone, Copy, PartialEq, Eq, Debug)]
pub struct NoGroupToEnd;

#[derive(Clone, PartialEq, Eq, Debug, Hash, PartialOrd, Ord)]
pub struct ScopeModel<K: Ord + Clone, V: Clone> {
    /// `levels[0]`: outside all groups; `levels.last()`: visible now. Never empty.
    levels: Vec<BTreeMap<K, V>>,
}

impl<K: Ord + Clone, V: Clone> Default for ScopeModel<K, V> {
    fn default() -> Self {
        Self::new()
    }
}

impl<K: Ord + Clone, V: Clone> ScopeModel<K, V> {
    pub fn new() -> Self {
        ScopeModel { levels: vec![BTreeMap::new()] }
    }
    /// A model whose outermost level already holds `init` (e.g. the VM's initial register values).
    pub fn with_initial(init: BTreeMap<K, V>) -> Self {
        ScopeModel { levels: vec![init] }
    }
    /// Number of open groups.
    pub fn depth(&self) -> usize {
        self.levels.len() - 1
    }
    pub fn begin_group(&mut self) {
        let top = self.levels.last().unwrap().clone();
        self.levels.push(top);
    }
    pub fn end_group(&mut self) -> Result<(), NoGroupToEnd> {
        if self.levels.len() == 1 {
            return Err(NoGroupToEnd);
        }
        self.levels.pop();
        Ok(())
    }
    /// Assign. Returns whether the key had a visible value before the assignment.
    pub fn insert(&mut self, k: K, v: V, scope: Scope) -> bool {
        let existed = self.levels.last().unwrap().contains_key(&k);
        match scope {
            Scope::Local => {
                self.levels.last_mut().unwrap().insert(k, v);
            }
            Scope::Global => {
                for l in self.levels.iter_mut() {
                    l.insert(k.clone(), v.clone());
                }
            }
        }
        existed
    }
    /// Assign under a `\globaldefs` setting (§1214).
    pub fn insert_with_globaldefs(&mut self, k: K, v: V, requested: Scope, globaldefs: i64) -> bool {
        self.insert(k, v, effective_scope(requested, globaldefs))
    }
    /// Make the key undefined in the given scope (C01: `\let\a=\undefined`-style assignments).
    pub fn remove(&mut self, k: &K, scope: Scope) -> bool {
        let existed = self.levels.last().unwrap().contains_key(k);
        match scope {
            Scope::Local => {
                self.levels.last_mut().unwrap().remove(k);
            }
            Scope::Global => {
                for l in self.levels.iter_mut() {
                    l.remove(k);
                }
            }
        }
        existed
    }
    pub fn get(&self, k: &K) -> Option<&V> {
        self.levels.last().unwrap().get(k)
    }
    pub fn len(&self) -> usize {
        self.levels.last().unwrap().len()
    }
    pub fn is_empty(&self) -> bool {
        self.levels.last().unwrap().is_empty()
    }
    /// What is visible now.
    pub fn visible(&self) -> &BTreeMap<K, V> {
        self.levels.last().unwrap()
    }
    /// All levels, outermost first.
    pub fn levels(&self) -> &[BTreeMap<K, V>] {
        &self.levels
    }
    /// What a sequence of `end_group` calls will make visible: the current level first, then each
    /// enclosing level, ending with the outermost one.
    pub fn drain(&self) -> Vec<BTreeMap<K, V>> {
        self.levels.iter().rev().cloned().collect()
    }
    /// The value the key will have again after `n` groups have been closed (None: undefined then,
    /// or fewer than `n` groups are open).
    pub fn get_after_closing(&self, k: &K, n: usize) -> Option<&V> {
        if n >= self.levels.len() {
            return None;
        }
        self.levels[self.levels.len() - 1 - n].get(k)
    }
    /// Number of levels (including the current one) in which the key's value differs from the value
    /// one level further out: 1 + how many times the current value is "shadowing" something.
    /// Used by the collision counters of the checks.
    pub fn shadow_depth(&self, k: &K) -> usize
    where
        V: PartialEq,
    {
        let mut n = 0;
        for i in 1..self.levels.len() {
            if self.levels[i].get(k) != self.levels[i - 1].get(k) {
                n += 1;
            }
        }
        n
    }
}

#[cfg(test)]
mod tests {
    use super::*;

    // tex.web §1214 and The TeXbook p.275 (\globaldefs).
    #[test]
    fn globaldefs() {
        assert_eq!(effective_scope(Scope::Local, 1), Scope::Global);
        assert_eq!(effective_scope(Scope::Global, -1), Scope::Local);
        assert_eq!(effective_scope(Scope::Local, 0), Scope::Local);
        assert_eq!(effective_scope(Scope::Global, 0), Scope::Global);
    }

    // §279 geq_define / §283: `\count1=1 {{\count1=3 \global\count1=2 }}\the\count1` gives 2 (DESIGN §4 D1 witness).
    #[test]
    fn global_survives_all_levels() {
        let mut m: ScopeModel<u8, i32> = ScopeModel::new();
        m.insert(1, 1, Scope::Local);
        m.begin_group();
        m.begin_group();
        m.insert(1, 3, Scope::Local);
        m.insert(1, 2, Scope::Global);
        assert_eq!(m.end_group(), Ok(()));
        assert_eq!(m.get(&1), Some(&2));
        assert_eq!(m.end_group(), Ok(()));
        assert_eq!(m.get(&1), Some(&2));
        assert_eq!(m.end_group(), Err(NoGroupToEnd));
        assert_eq!(m.get(&1), Some(&2));
    }

    #[test]
    fn local_is_rolled_back() {
        let mut m: ScopeModel<u8, i32> = ScopeModel::new();
        m.begin_group();
        assert!(!m.insert(3, 5, Scope::Local));
        assert!(m.insert(3, 6, Scope::Local));
        assert_eq!(m.shadow_depth(&3), 1);
        m.end_group().unwrap();
        assert_eq!(m.get(&3), None);
        assert_eq!(m.len(), 0);
    }
}
