//! Lig/kern reference model over *raw* TFM instruction words.
//!
//! * `run`   – transliteration of TeX's main loop, tex.web §1034‑1040 (`main_loop`, `main_loop_wrapup`,
//!             `main_loop_move`, `main_loop_move_lig`, `main_loop_lookahead`, `main_lig_loop`) with the
//!             node bookkeeping (`lig_stack`, `cur_q`, `pack_lig`, `lft_hit`, `rt_hit`) kept, so that the
//!             output is the horizontal list TeX would build for one word: character nodes, ligature
//!             nodes (character, original characters, boundary flags = `subtype`) and kerns.
//! * `knuth_loop` – the infinite-loop detector of TFtoPL §88‑95 (function `f(x,y)` memoised in a table
//!             of pairs with a *pending* class), restricted to the instructions TeX executes.
//! * `pair_loops` – bounded direct simulation of one starting pair, the cross-check of `knuth_loop`.
//!
//! A raw instruction is the 4-byte word `[skip_byte, next_char, op_byte, remainder]` of the TFM
//! `lig_kern` array (tex.web §545). No repository types; all arithmetic is on `usize`/`i32` indices.

/// `[skip_byte, next_char, op_byte, remainder]`
pub type Word = [u8; 4];

pub const STOP_FLAG: u8 = 128; // tex.web §545
pub const KERN_FLAG: u8 = 128; // tex.web §545
const NON_CHAR: i32 = 256; // tex.web §549

/// The part of a loaded font that the main loop looks at.
#[derive(Clone, Debug, PartialEq, Eq)]
pub struct Font {
    pub words: Vec<Word>,
    /// `start[c]` = index of the first instruction that `main_lig_loop` examines for left character `c`
    /// (after the `lig_kern_restart` indirection of §1039), or None if `char_tag(c) <> lig_tag`.
    pub start: Vec<Option<usize>>,
    /// `font_bchar` (§549/§576): the right boundary character.
    pub bchar: Option<u8>,
    /// `bchar_label` (§549/§576): start of the left boundary program; None = `non_address`.
    pub bchar_label: Option<usize>,
    /// false = TeX. true = the reading of TFtoPL §91 `hash_input`, which enters *every* word of a chain
    /// as a ligature/kern command, also words with skip byte > 128 that TeX never executes (the
    /// "phantom ligature"). Only used to characterise a deviation; never the expectation.
    pub exec_stop_words: bool,
}

impl Font {
    /// A font given directly by resolved entry points (no TFM involved).
    pub fn new(words: Vec<Word>, starts: &[(u8, usize)], bchar: Option<u8>, bchar_label: Option<usize>) -> Font {
        let mut start = vec![None; 256];
        for (c, s) in starts {
            start[*c as usize] = Some(*s);
        }
        Font { words, start, bchar, bchar_label, exec_stop_words: false }
    }

    /// Entry points as a TFM file gives them: `lig_rem[c]` is the remainder byte of every character
    /// whose tag is 1. §1039: if the first instruction has `skip_byte > stop_flag` the program really
    /// starts at `256*op_byte + remainder`. §573/§576: the first word supplies `bchar` and the last
    /// word `bchar_label` when their skip byte is 255.
    pub fn from_tfm(words: Vec<Word>, lig_rem: &[(u8, u8)]) -> Font {
        let nl = words.len();
        let mut start = vec![None; 256];
        for (c, r) in lig_rem {
            let mut k = *r as usize;
            if let Some(w) = words.get(k) {
                if w[0] > STOP_FLAG {
                    k = 256 * w[2] as usize + w[3] as usize;
                }
            }
            start[*c as usize] = Some(k);
        }
        let bchar = match words.first() {
            Some(w) if w[0] == 255 => Some(w[1]),
            _ => None,
        };
        let bchar_label = match words.last() {
            Some(w) if w[0] == 255 => {
                let l = 256 * w[2] as usize + w[3] as usize;
                if l < nl {
                    Some(l)
                } else {
                    None
                }
            }
            _ => None,
        };
        Font { words, start, bchar, bchar_label, exec_stop_words: false }
    }
}

#[derive(Clone, Debug, PartialEq, Eq)]
pub enum Node {
    Char(u8),
    /// `orig` = characters of `lig_ptr`; `left`/`right` = the boundary bits of `subtype` (§143).
    Lig { c: u8, orig: Vec<u8>, left: bool, right: bool },
    /// Index into the kern table: `256*(op_byte-128)+remainder` (§557 `char_kern`).
    Kern(usize),
}

/// One executed ligature/kern command (for the vacuity counters of the checks).
#[derive(Clone, Copy, Debug, PartialEq, Eq)]
pub struct Fired {
    pub k: usize,
    pub kern: bool,
    /// `cur_l = non_char`: a left boundary rule.
    pub left_boundary: bool,
    /// `lig_stack = null` when the command matched: the right character was the boundary character.
    pub right_boundary: bool,
    /// a ligature was already under construction at the cursor (`ligature_present`) or the right
    /// character was itself inserted by an earlier command.
    pub on_ligature: bool,
}

#[derive(Clone, Debug, Default, PartialEq, Eq)]
pub struct Run {
    pub nodes: Vec<Node>,
    pub fired: Vec<Fired>,
}

#[derive(Clone, Copy, Debug)]
enum LigItem {
    /// a character node (always the bottom of the stack: its link is null)
    CharNode(u8),
    /// a `lig_item` (§1035 `new_lig_item`): character + optional `lig_ptr` (one character node)
    Item { ch: u8, ptr: Option<u8> },
}
impl LigItem {
    fn character(&self) -> u8 {
        match self {
            LigItem::CharNode(c) => *c,
            LigItem::Item { ch, .. } => *ch,
        }
    }
}

#[derive(Clone, Copy, PartialEq, Eq)]
enum L {
    Wrapup,
    Move,
    Move1,
    Move2,
    MoveLig,
    Lookahead,
    LigLoop,
    LigLoop1,
}

/// Run the main loop on one word. `left_boundary = false` is `\noboundary` before the word
/// (`cancel_boundary`); `bchar` is the right boundary character in force (normally `font.bchar`).
/// Every character is assumed to exist in the font (no `char_warning` path, `false_bchar = non_char`).
/// Returns None when more than `budget` ligature commands were executed (the loop `check_interrupt`
/// exists for).
#[allow(unused_assignments)]
pub fn run(font: &Font, word: &[u8], left_boundary: bool, bchar: Option<u8>, budget: usize) -> Option<Run> {
    let mut out = Run::default();
    if word.is_empty() {
        return Some(out);
    }
    let mut bchar: i32 = bchar.map(|c| c as i32).unwrap_or(NON_CHAR);
    let mut input = word[1..].iter().copied();
    let mut nodes: Vec<Node> = vec![];
    // §1034: the first character becomes lig_stack; cur_q := tail
    let mut lig_stack: Vec<LigItem> = vec![LigItem::CharNode(word[0])];
    let mut cur_l: i32 = word[0] as i32;
    let mut cur_r: i32 = NON_CHAR;
    let mut cur_q: usize = nodes.len();
    let mut ligature_present = false;
    let mut lft_hit = false;
    let mut rt_hit = false;
    let mut main_k: usize = 0;
    let mut steps = 0usize;
    // whether the character now in cur_r was inserted by a command (only for `Fired::on_ligature`)
    let mut r_inserted = false;

    // pack_lig(#) / wrapup(#), §1035
    macro_rules! wrapup {
        ($flag:expr) => {
            if cur_l < NON_CHAR {
                if ligature_present {
                    let orig: Vec<u8> = nodes
                        .drain(cur_q..)
                        .map(|n| match n {
                            Node::Char(c) => c,
                            _ => unreachable!("only character nodes follow cur_q"),
                        })
                        .collect();
                    let left = lft_hit;
                    if lft_hit {
                        lft_hit = false;
                    }
                    let mut right = false;
                    if $flag && lig_stack.is_empty() {
                        right = true;
                        rt_hit = false;
                    }
                    nodes.push(Node::Lig { c: cur_l as u8, orig, left, right });
                    ligature_present = false;
                }
            }
        };
    }

    let mut at = if left_boundary && font.bchar_label.is_some() {
        // begin with cursor after left boundary
        main_k = font.bchar_label.unwrap();
        cur_r = cur_l;
        cur_l = NON_CHAR;
        L::LigLoop1
    } else {
        L::Move2
    };

    loop {
        match at {
            L::Wrapup => {
                wrapup!(rt_hit);
                at = L::Move;
            }
            L::Move => {
                // §1036
                let Some(top) = lig_stack.last() else { break };
                cur_q = nodes.len();
                cur_l = top.character() as i32;
                at = L::Move1;
            }
            L::Move1 => {
                at = match lig_stack.last() {
                    Some(LigItem::CharNode(_)) => L::Move2,
                    _ => L::MoveLig,
                };
            }
            L::Move2 => {
                // link(tail):=lig_stack; tail:=lig_stack
                let Some(LigItem::CharNode(c)) = lig_stack.pop() else { unreachable!("main_loop_move+2 needs a character node") };
                nodes.push(Node::Char(c));
                at = L::Lookahead;
            }
            L::MoveLig => {
                // §1037
                let Some(LigItem::Item { ptr, .. }) = lig_stack.pop() else { unreachable!("main_loop_move_lig needs a lig item") };
                if let Some(c) = ptr {
                    nodes.push(Node::Char(c));
                }
                ligature_present = true;
                match lig_stack.last() {
                    None => {
                        if ptr.is_some() {
                            at = L::Lookahead;
                            continue;
                        }
                        cur_r = bchar;
                        r_inserted = false;
                    }
                    Some(t) => {
                        cur_r = t.character() as i32;
                        r_inserted = matches!(t, LigItem::Item { .. });
                    }
                }
                at = L::LigLoop;
            }
            L::Lookahead => {
                // §1038 (only letters and the end of the word exist here)
                match input.next() {
                    Some(c) => {
                        lig_stack = vec![LigItem::CharNode(c)];
                        cur_r = c as i32;
                    }
                    None => {
                        cur_r = bchar;
                        lig_stack.clear();
                    }
                }
                r_inserted = false;
                at = L::LigLoop;
            }
            L::LigLoop => {
                // §1039
                if cur_r == NON_CHAR {
                    at = L::Wrapup;
                    continue;
                }
                match font.start.get(cur_l as usize).copied().flatten() {
                    None => at = L::Wrapup,
                    Some(k) => {
                        main_k = k;
                        at = L::LigLoop1;
                    }
                }
            }
            L::LigLoop1 => {
                let Some(j) = font.words.get(main_k).copied() else {
                    // TeX refuses to load a font whose programs leave the array (§573); stop here.
                    at = L::Wrapup;
                    continue;
                };
                let [skip, next, op, rem] = j;
                if next as i32 == cur_r && (skip <= STOP_FLAG || font.exec_stop_words) {
                    // §1040
                    let f = Fired { k: main_k, kern: op >= KERN_FLAG, left_boundary: cur_l == NON_CHAR, right_boundary: lig_stack.is_empty(), on_ligature: ligature_present || r_inserted };
                    out.fired.push(f);
                    if op >= KERN_FLAG {
                        wrapup!(rt_hit);
                        nodes.push(Node::Kern(256 * (op - KERN_FLAG) as usize + rem as usize));
                        at = L::Move;
                        continue;
                    }
                    if cur_l == NON_CHAR {
                        lft_hit = true;
                    } else if lig_stack.is_empty() {
                        rt_hit = true;
                    }
                    steps += 1;
                    if steps > budget {
                        return None;
                    }
                    match op {
                        1 | 5 => {
                            cur_l = rem as i32;
                            ligature_present = true;
                        }
                        2 | 6 => {
                            cur_r = rem as i32;
                            r_inserted = true;
                            match lig_stack.pop() {
                                None => {
                                    // right boundary character is being consumed
                                    lig_stack.push(LigItem::Item { ch: rem, ptr: None });
                                    bchar = NON_CHAR;
                                }
                                Some(LigItem::CharNode(c)) => lig_stack.push(LigItem::Item { ch: rem, ptr: Some(c) }),
                                Some(LigItem::Item { ptr, .. }) => lig_stack.push(LigItem::Item { ch: rem, ptr }),
                            }
                        }
                        3 => {
                            cur_r = rem as i32;
                            r_inserted = true;
                            lig_stack.push(LigItem::Item { ch: rem, ptr: None });
                        }
                        7 | 11 => {
                            wrapup!(false);
                            cur_q = nodes.len();
                            cur_l = rem as i32;
                            ligature_present = true;
                        }
                        _ => {
                            // =: (and every nonstandard code, as in §1040 `othercases`)
                            cur_l = rem as i32;
                            ligature_present = true;
                            at = if lig_stack.is_empty() { L::Wrapup } else { L::Move1 };
                            continue;
                        }
                    }
                    if op > 4 && op != 7 {
                        at = L::Wrapup;
                        continue;
                    }
                    if cur_l < NON_CHAR {
                        at = L::LigLoop;
                        continue;
                    }
                    match font.bchar_label {
                        Some(k) => {
                            main_k = k;
                            at = L::LigLoop1;
                        }
                        None => at = L::Wrapup, // cannot happen: cur_l = non_char only via bchar_label
                    }
                    continue;
                }
                if skip == 0 {
                    main_k += 1;
                } else {
                    if skip >= STOP_FLAG {
                        at = L::Wrapup;
                        continue;
                    }
                    main_k += skip as usize + 1;
                }
                // stay at LigLoop1
            }
        }
    }
    out.nodes = nodes;
    Some(out)
}

// ------------------------------------------------------------------ loop detection, TFtoPL §88-95

#[derive(Clone, Copy, PartialEq, Eq, Debug)]
enum Class {
    Simple,
    LeftZ,
    RightZ,
    BothZ,
    Pending,
}

/// The table of TFtoPL §89: (x, y) -> (class, lig_z), x = 256 for the left boundary.
struct Hash {
    class: Vec<Class>,
    lig_z: Vec<i32>,
    present: Vec<bool>,
    cycle: Option<(i32, i32)>,
}

fn key(x: i32, y: i32) -> usize {
    (x as usize) * 256 + y as usize
}

impl Hash {
    /// §94 `eval`
    fn eval(&mut self, x: i32, y: i32) -> i32 {
        if x > 256 || y > 255 || x < 0 || y < 0 {
            return y; // 257 = "cycle broken" marker of §95
        }
        let h = key(x, y);
        if !self.present[h] {
            return y;
        }
        self.f(h, x, y)
    }
    /// §95 `f`
    fn f(&mut self, h: usize, x: i32, y: i32) -> i32 {
        match self.class[h] {
            Class::Simple => {}
            Class::LeftZ => {
                self.class[h] = Class::Pending;
                let z = self.lig_z[h];
                self.lig_z[h] = self.eval(z, y);
                self.class[h] = Class::Simple;
            }
            Class::RightZ => {
                self.class[h] = Class::Pending;
                let z = self.lig_z[h];
                self.lig_z[h] = self.eval(x, z);
                self.class[h] = Class::Simple;
            }
            Class::BothZ => {
                self.class[h] = Class::Pending;
                let z = self.lig_z[h];
                let w = self.eval(x, z);
                self.lig_z[h] = self.eval(w, y);
                self.class[h] = Class::Simple;
            }
            Class::Pending => {
                self.cycle = Some((x, y));
                self.lig_z[h] = 257;
                self.class[h] = Class::Simple;
            }
        }
        self.lig_z[h]
    }
}

/// The instructions TeX examines for left character `x` (256 = left boundary), in order, as
/// (index, word). Stops at a word whose skip byte is >= 128 (after examining it) or outside the array.
pub fn chain(font: &Font, x: i32) -> Vec<(usize, Word)> {
    let mut out = vec![];
    let start = if x == NON_CHAR { font.bchar_label } else { font.start.get(x as usize).copied().flatten() };
    let Some(mut k) = start else { return out };
    while let Some(w) = font.words.get(k) {
        if out.len() > font.words.len() {
            break;
        }
        out.push((k, *w));
        if w[0] >= STOP_FLAG {
            break;
        }
        k += w[0] as usize + 1;
    }
    out
}

/// The command TeX executes for the pair (x, y): the first word of x's chain with `next_char = y`,
/// provided its skip byte is <= 128 (§1039: a matching word with a larger skip byte is not executed
/// and ends the search).
pub fn command_for(font: &Font, x: i32, y: u8) -> Option<(usize, Word)> {
    for (k, w) in chain(font, x) {
        if w[1] == y {
            return if w[0] <= STOP_FLAG || font.exec_stop_words { Some((k, w)) } else { None };
        }
    }
    None
}

/// TFtoPL §88-95 on the commands TeX executes. Returns the pair at which a pending entry was met
/// (x = 256 for the left boundary), or None if no pair loops.
pub fn knuth_loop(font: &Font) -> Option<(i32, i32)> {
    let n = 257 * 256;
    let mut h = Hash { class: vec![Class::Simple; n], lig_z: vec![0; n], present: vec![false; n], cycle: None };
    let mut order: Vec<(i32, i32)> = vec![];
    // §91: enter the commands of every character, then of the boundary (c = 256)
    for x in (0..=256).map(|c| c as i32) {
        for (_, w) in chain(font, x) {
            let [skip, y, t, rem] = w;
            if skip > STOP_FLAG && !font.exec_stop_words {
                continue; // never executed by TeX (§1039); TFtoPL's hash_input would enter it
            }
            let hk = key(x, y as i32);
            if h.present[hk] {
                continue; // the first command for a pair wins
            }
            // §92: compute cc and zz
            let (cc, zz) = if t >= KERN_FLAG {
                (Class::Simple, y as i32)
            } else {
                match t {
                    5 | 11 => (Class::Simple, y as i32),
                    1 | 7 => (Class::LeftZ, rem as i32),
                    2 => (Class::RightZ, rem as i32),
                    3 => (Class::BothZ, rem as i32),
                    _ => (Class::Simple, rem as i32), // 0, 6 and the nonstandard codes (executed as =:)
                }
            };
            h.present[hk] = true;
            h.class[hk] = cc;
            h.lig_z[hk] = zz;
            order.push((x, y as i32));
        }
    }
    // §90: evaluate every non-simple entry
    for (x, y) in order {
        let hk = key(x, y);
        if h.class[hk] != Class::Simple {
            h.f(hk, x, y);
        }
    }
    h.cycle
}

/// Does the pair (x, y) (x = 256: left boundary), taken alone and followed by the right boundary,
/// execute more than `budget` ligature commands?
pub fn pair_loops(font: &Font, x: i32, y: u8, budget: usize) -> bool {
    let r = if x == NON_CHAR {
        run(font, &[y], true, font.bchar, budget)
    } else {
        // no left boundary processing for an inner pair
        run(font, &[x as u8, y], false, font.bchar, budget)
    };
    r.is_none()
}

/// All (x, y) for which TeX has a ligature (not kern) command, x = 256 for the boundary.
pub fn lig_pairs(font: &Font) -> Vec<(i32, u8)> {
    let mut out = vec![];
    for x in (0..=256).map(|c| c as i32) {
        let mut seen = [false; 256];
        for (_, w) in chain(font, x) {
            if seen[w[1] as usize] {
                continue;
            }
            seen[w[1] as usize] = true;
            if (w[0] <= STOP_FLAG || font.exec_stop_words) && w[2] < KERN_FLAG {
                out.push((x, w[1]));
            }
        }
    }
    out
}

/// Loop oracle by direct simulation: the starting pairs that never terminate.
pub fn looping_pairs(font: &Font, budget: usize) -> Vec<(i32, u8)> {
    lig_pairs(font).into_iter().filter(|(x, y)| pair_loops(font, *x, *y, budget)).collect()
}

#[cfg(test)]
mod tests {
    use super::*;
    #[test]
    fn fi() {
        // f i -> =: 12
        let font = Font::new(vec![[128, b'i', 0, 12]], &[(b'f', 0)], None, None);
        let r = run(&font, b"fi", true, None, 100).unwrap();
        assert_eq!(r.nodes, vec![Node::Lig { c: 12, orig: b"fi".to_vec(), left: false, right: false }]);
        assert!(knuth_loop(&font).is_none());
    }
    #[test]
    fn swap_loop() {
        // x y -> =:| z ; z y -> =:| x
        let font = Font::new(vec![[128, b'y', 1, b'z'], [128, b'y', 1, b'x']], &[(b'x', 0), (b'z', 1)], None, None);
        assert!(knuth_loop(&font).is_some());
        assert!(pair_loops(&font, b'x' as i32, b'y', 1000));
    }
}
