//! TeX's line scanner, tex.web §343-356 (get_next for the "file" states), with source positions.
//!
//! The model is a transliteration of Knuth's code on a line buffer of `(character, column)` pairs:
//!
//! * §31/§37 `input_ln`: a source is a sequence of lines (split at `\n`; no final empty line when the
//!   text ends in `\n`; the empty text has no line – the crate's documented convention, TeX itself
//!   leaves line splitting to the operating system); trailing U+0020 characters are removed.
//! * §360/§362 `limit←last; if end_line_char_inactive then decr(limit) else buffer[limit]←end_line_char`:
//!   the end-line character in force *when the line is loaded* is appended.
//! * §343/§344/§347 the state machine new_line (N) / mid_line (M) / skip_blanks (S).
//! * §352 `^^` reduction at top level, §354-356 control sequence names with `^^` reduction inside
//!   names; both with the two-hex-digit form behind the switch `hex` (TeX: on).
//! * §345/§346 invalid characters are reported and scanning goes on (`goto restart`).
//!
//! Position convention (DESIGN §3 C03): TeX has no per-token positions. A token is positioned at the
//! buffer slot it was read from: an ordinary character at its own column, a control sequence at its
//! escape character, a character produced by `^^x` / `^^xy` at the column of the *last* character of
//! the sequence (the slot rewritten in place – the convention pinned by the crate's own tests,
//! `"^^k"` -> `('+', Other, 2)`), tokens made from the end-line character at column = length of the
//! trimmed line.
//!
//! Category codes are TeX's numbers 0..=15.

pub const ESCAPE: u8 = 0;
pub const LEFT_BRACE: u8 = 1;
pub const RIGHT_BRACE: u8 = 2;
pub const MATH_SHIFT: u8 = 3;
pub const TAB_MARK: u8 = 4;
pub const CAR_RET: u8 = 5;
pub const MAC_PARAM: u8 = 6;
pub const SUP_MARK: u8 = 7;
pub const SUB_MARK: u8 = 8;
pub const IGNORE: u8 = 9;
pub const SPACER: u8 = 10;
pub const LETTER: u8 = 11;
pub const OTHER_CHAR: u8 = 12;
pub const ACTIVE_CHAR: u8 = 13;
pub const COMMENT: u8 = 14;
pub const INVALID_CHAR: u8 = 15;

/// A category code table: 128 low entries plus a short list of overrides (any character).
/// Characters >= 128 without an override are `other_char`.
#[derive(Clone, Debug)]
pub struct Table {
    pub low: [u8; 128],
    pub over: Vec<(char, u8)>,
}

impl Table {
    /// INITEX (§232) plus the assignments of plain.tex (The TeXbook p. 343):
    /// `\catcode`\{=1 \}=2 \$=3 \&=4 \#=6 \^=7 \^^K=7 \_=8 \^^A=8 \^^I=10 \~=13 \^^L=13`.
    pub fn plain() -> Table {
        let mut low = [OTHER_CHAR; 128];
        for c in b'a'..=b'z' {
            low[c as usize] = LETTER;
        }
        for c in b'A'..=b'Z' {
            low[c as usize] = LETTER;
        }
        low[0] = IGNORE;
        low[13] = CAR_RET;
        low[b' ' as usize] = SPACER;
        low[b'\\' as usize] = ESCAPE;
        low[b'%' as usize] = COMMENT;
        low[127] = INVALID_CHAR;
        low[b'{' as usize] = LEFT_BRACE;
        low[b'}' as usize] = RIGHT_BRACE;
        low[b'$' as usize] = MATH_SHIFT;
        low[b'&' as usize] = TAB_MARK;
        low[b'#' as usize] = MAC_PARAM;
        low[b'^' as usize] = SUP_MARK;
        low[11] = SUP_MARK;
        low[b'_' as usize] = SUB_MARK;
        low[1] = SUB_MARK;
        low[9] = SPACER;
        low[b'~' as usize] = ACTIVE_CHAR;
        low[12] = ACTIVE_CHAR;
        Table { low, over: vec![] }
    }
    pub fn from_low(low: [u8; 128]) -> Table {
        Table { low, over: vec![] }
    }
    pub fn with(mut self, c: char, cat: u8) -> Table {
        self.over.retain(|(x, _)| *x != c);
        self.over.push((c, cat));
        self
    }
    #[inline]
    pub fn cat(&self, c: char) -> u8 {
        for (x, k) in &self.over {
            if *x == c {
                return *k;
            }
        }
        if (c as u32) < 128 {
            self.low[c as usize]
        } else {
            OTHER_CHAR
        }
    }
}

/// What the scanner is parameterised by at every call (both can change between two tokens).
#[derive(Clone, Debug)]
pub struct Config {
    pub table: Table,
    /// `\endlinechar` (None = inactive, §360 `end_line_char_inactive`).
    pub end_line_char: Option<char>,
    /// §352/§355 two-hex-digit form `^^xy` (TeX: true; the adjusted expectation of D4: false).
    pub hex: bool,
}

#[derive(Clone, Debug, PartialEq, Eq, Hash)]
pub enum TokV {
    /// control sequence with its name (the empty name is §354 `null_cs`)
    Cs(String),
    /// character token with its category code (space tokens are `(' ', 10)`, §347)
    Ch(char, u8),
}

#[derive(Clone, Debug, PartialEq, Eq)]
pub struct Tok {
    pub v: TokV,
    /// 1-based line number inside the source
    pub line: usize,
    /// 0-based column (in characters) inside that line of the source
    pub col: usize,
    /// column of the *first* source character of the token: differs from `col` only when the
    /// character the token starts with was produced by a `^^` sequence (then `col_first..=col` is the
    /// span of that sequence)
    pub col_first: usize,
}

impl TokV {
    /// `\name`, or `c/cat` for character tokens.
    pub fn exact(&self) -> String {
        match self {
            TokV::Cs(n) => format!("\\{n}"),
            TokV::Ch(c, k) => format!("{c}/{k}"),
        }
    }
    /// The text a trace shows for the token: `\name` or the character.
    pub fn text(&self) -> String {
        match self {
            TokV::Cs(n) => format!("\\{n}"),
            TokV::Ch(c, _) => c.to_string(),
        }
    }
}

#[derive(Clone, Debug, PartialEq, Eq)]
pub enum Item {
    Tok(Tok),
    /// §346: an invalid character was met (and skipped)
    Invalid { c: char, line: usize, col: usize },
    /// a further line was started (reported by `Source::next` between two lines)
    NewLine,
    End,
}

#[derive(Clone, Copy, Debug, PartialEq, Eq)]
pub enum State {
    NewLine,
    MidLine,
    SkipBlanks,
}

/// Things that happened while scanning, for the vacuity counters of the checks (facts about the
/// case as seen by the model, never about the implementation's answer).
#[derive(Clone, Copy, Debug, Default, PartialEq, Eq)]
pub struct Events {
    /// a two-hex-digit form was *available* (doubled catcode-7 character followed by two of 0-9a-f);
    /// recorded with `hex` on and off: this is the `applies` predicate of finding D4
    pub hex_form_seen: bool,
    /// a `^^` sequence whose last character is the last character of the line buffer
    pub caret_at_line_end: bool,
    /// reduction inside a control sequence name (§355)
    pub caret_in_name: bool,
    /// the first character of a reduced sequence was itself the product of a reduction
    pub caret_recursive: bool,
    pub trailing_blanks_trimmed: bool,
    /// the state changed at least once inside a line
    pub state_changes: u32,
    pub reductions: u32,
    /// `^^` followed by a character >= 128 was met (no reduction, §352 `if c<128`)
    pub caret_before_non_ascii: bool,
}

#[inline]
fn is_hex(c: char) -> bool {
    matches!(c, '0'..='9' | 'a'..='f')
}
#[inline]
fn hexv(c: char) -> u32 {
    c.to_digit(16).unwrap()
}
/// §352 `if c<64 then cur_chr←c+64 else cur_chr←c-64` (c < 128)
#[inline]
fn flip64(c: char) -> char {
    let u = c as u32;
    char::from_u32(if u < 64 { u + 64 } else { u - 64 }).unwrap()
}

/// Split a text into its lines (raw, untrimmed).
pub fn split_lines(text: &str) -> Vec<String> {
    if text.is_empty() {
        return vec![];
    }
    let mut v: Vec<String> = text.split('\n').map(|s| s.to_string()).collect();
    if text.ends_with('\n') {
        v.pop();
    }
    v
}

/// One source of lines (a file, a terminal line, the text given to a lexer).
#[derive(Clone, Debug)]
pub struct Source {
    /// the lines as they stand in the source (untrimmed)
    pub lines: Vec<String>,
    /// index of the next line to load (= number of lines loaded so far)
    pub next_line: usize,
    /// the line buffer: character, column in the source line, "is the product of a reduction"
    buf: Vec<(char, usize, bool, usize)>,
    loc: usize,
    pub state: State,
    pub ev: Events,
}

impl Source {
    pub fn new(text: &str) -> Source {
        Source { lines: split_lines(text), next_line: 0, buf: vec![], loc: 0, state: State::NewLine, ev: Events::default() }
    }
    /// Raw text of line `n` (1-based).
    pub fn line_text(&self, n: usize) -> &str {
        &self.lines[n - 1]
    }
    /// Number of the line in the buffer (1-based; 0 before the first line was loaded).
    pub fn current_line(&self) -> usize {
        self.next_line
    }
    pub fn has_more_lines(&self) -> bool {
        self.next_line < self.lines.len()
    }
    /// `loc > limit`: nothing is left in the current line.
    pub fn line_exhausted(&self) -> bool {
        self.loc >= self.buf.len()
    }
    /// Load the next line (§362 / §538): right-trim spaces, append the end-line character, state N.
    /// Returns false (and leaves an empty buffer) when there is no further line.
    pub fn start_next_line(&mut self, end_line_char: Option<char>) -> bool {
        self.buf.clear();
        self.loc = 0;
        self.state = State::NewLine;
        if self.next_line >= self.lines.len() {
            return false;
        }
        let raw = &self.lines[self.next_line];
        self.next_line += 1;
        let trimmed = raw.trim_end_matches(' ');
        if trimmed.len() != raw.len() {
            self.ev.trailing_blanks_trimmed = true;
        }
        let mut n = 0;
        for c in trimmed.chars() {
            self.buf.push((c, n, false, n));
            n += 1;
        }
        if let Some(e) = end_line_char {
            self.buf.push((e, n, false, n));
        }
        true
    }
    /// Forget the rest of the current line (`loc←limit+1`).
    pub fn drop_rest_of_line(&mut self) {
        self.loc = self.buf.len();
    }
    /// Forget all further lines.
    pub fn drop_further_lines(&mut self) {
        self.next_line = self.lines.len();
    }
    /// Remaining characters of the current line (after reductions done so far).
    pub fn rest_of_line(&self) -> String {
        self.buf[self.loc.min(self.buf.len())..].iter().map(|x| x.0).collect()
    }

    fn set_state(&mut self, s: State) {
        if s != self.state {
            self.ev.state_changes += 1;
            self.state = s;
        }
    }

    /// §355 "If an expanded code is present, reduce it and goto start_cs". `k` is the index after
    /// `cur_chr` (so `buf[k-1]` is `cur_chr`). Returns true if a reduction was made.
    fn reduce_in_name(&mut self, k: usize, cur_chr: char, cat: u8, hex: bool) -> bool {
        // if (cat=sup_mark) and (buffer[k]=cur_chr) and (k<limit)   -- limit = buf.len()-1
        if cat == SUP_MARK && k + 1 < self.buf.len() && self.buf[k].0 == cur_chr {
            let c = self.buf[k + 1].0;
            if (c as u32) < 128 {
                let mut d = 2;
                let mut new = flip64(c);
                // if is_hex(c) then if k+2<=limit then begin cc←buffer[k+2]; if is_hex(cc) then incr(d)
                if is_hex(c) && k + 2 < self.buf.len() && is_hex(self.buf[k + 2].0) {
                    self.ev.hex_form_seen = true;
                    if hex {
                        d = 3;
                        new = char::from_u32(16 * hexv(c) + hexv(self.buf[k + 2].0)).unwrap();
                    }
                }
                if k - 1 + d == self.buf.len() - 1 {
                    self.ev.caret_at_line_end = true;
                }
                if self.buf[k - 1].2 {
                    self.ev.caret_recursive = true;
                }
                self.ev.caret_in_name = true;
                self.ev.reductions += 1;
                // buffer[k-1]←cur_chr; limit←limit-d; shift the rest left by d.
                // Position convention: the slot of the last character of the sequence.
                let col = self.buf[k - 1 + d].1;
                let first = self.buf[k - 1].3;
                self.buf[k - 1] = (new, col, true, first);
                self.buf.drain(k..k + d);
                return true;
            } else {
                self.ev.caret_before_non_ascii = true;
            }
        }
        false
    }

    /// The next item of the *current line* (None when `loc>limit`): §343 `switch` .. §357.
    pub fn next_in_line(&mut self, cfg: &Config) -> Option<Item> {
        let line = self.next_line;
        'switch: loop {
            if self.loc >= self.buf.len() {
                return None;
            }
            let (mut cur_chr, mut col, mut produced, first) = self.buf[self.loc];
            self.loc += 1;
            'reswitch: loop {
                let cat = cfg.table.cat(cur_chr);
                match cat {
                    // any_state_plus(ignore), skip_blanks+spacer, new_line+spacer: goto switch
                    IGNORE => continue 'switch,
                    SPACER => {
                        if self.state == State::MidLine {
                            // §347 mid_line+spacer: state←skip_blanks; cur_chr←" "
                            self.set_state(State::SkipBlanks);
                            return Some(Item::Tok(Tok { v: TokV::Ch(' ', SPACER), line, col, col_first: first }));
                        }
                        continue 'switch;
                    }
                    ESCAPE => {
                        // §354
                        if self.loc >= self.buf.len() {
                            // cur_cs←null_cs {state is irrelevant in this case}
                            return Some(Item::Tok(Tok { v: TokV::Cs(String::new()), line, col, col_first: first }));
                        }
                        'start_cs: loop {
                            let mut k = self.loc;
                            let mut c = self.buf[k].0;
                            let mut cat = cfg.table.cat(c);
                            k += 1;
                            if cat == LETTER || cat == SPACER {
                                self.set_state(State::SkipBlanks);
                            } else {
                                self.set_state(State::MidLine);
                            }
                            if cat == LETTER && k < self.buf.len() {
                                // §356 scan ahead for a multiletter control sequence
                                loop {
                                    c = self.buf[k].0;
                                    cat = cfg.table.cat(c);
                                    k += 1;
                                    if cat != LETTER || k >= self.buf.len() {
                                        break;
                                    }
                                }
                                if self.reduce_in_name(k, c, cat, cfg.hex) {
                                    continue 'start_cs;
                                }
                                if cat != LETTER {
                                    k -= 1;
                                }
                                if k > self.loc + 1 {
                                    let name: String = self.buf[self.loc..k].iter().map(|x| x.0).collect();
                                    self.loc = k;
                                    return Some(Item::Tok(Tok { v: TokV::Cs(name), line, col, col_first: first }));
                                }
                            } else if self.reduce_in_name(k, c, cat, cfg.hex) {
                                continue 'start_cs;
                            }
                            // cur_cs←single_base+buffer[loc]; incr(loc)
                            let name = self.buf[self.loc].0.to_string();
                            self.loc += 1;
                            return Some(Item::Tok(Tok { v: TokV::Cs(name), line, col, col_first: first }));
                        }
                    }
                    SUP_MARK => {
                        // §352: if cur_chr=buffer[loc] then if loc<limit then ...
                        if self.loc + 1 < self.buf.len() && self.buf[self.loc].0 == cur_chr {
                            let c = self.buf[self.loc + 1].0;
                            if (c as u32) < 128 {
                                if produced {
                                    self.ev.caret_recursive = true;
                                }
                                self.ev.reductions += 1;
                                self.loc += 2;
                                // if is_hex(c) then if loc<=limit then begin cc←buffer[loc]; if is_hex(cc) ...
                                if is_hex(c) && self.loc < self.buf.len() && is_hex(self.buf[self.loc].0) {
                                    self.ev.hex_form_seen = true;
                                    if cfg.hex {
                                        let cc = self.buf[self.loc].0;
                                        col = self.buf[self.loc].1;
                                        self.loc += 1;
                                        if self.loc == self.buf.len() {
                                            self.ev.caret_at_line_end = true;
                                        }
                                        cur_chr = char::from_u32(16 * hexv(c) + hexv(cc)).unwrap();
                                        produced = true;
                                        continue 'reswitch;
                                    }
                                }
                                col = self.buf[self.loc - 1].1;
                                if self.loc == self.buf.len() {
                                    self.ev.caret_at_line_end = true;
                                }
                                cur_chr = flip64(c);
                                produced = true;
                                continue 'reswitch;
                            } else {
                                self.ev.caret_before_non_ascii = true;
                            }
                        }
                        self.set_state(State::MidLine);
                        return Some(Item::Tok(Tok { v: TokV::Ch(cur_chr, SUP_MARK), line, col, col_first: first }));
                    }
                    INVALID_CHAR => {
                        // §346 decry the invalid character and goto restart (state unchanged)
                        return Some(Item::Invalid { c: cur_chr, line, col });
                    }
                    CAR_RET => {
                        // §347/§348/§350/§351: finish the line
                        self.loc = self.buf.len();
                        match self.state {
                            State::MidLine => return Some(Item::Tok(Tok { v: TokV::Ch(' ', SPACER), line, col, col_first: first })),
                            State::SkipBlanks => continue 'switch,
                            State::NewLine => return Some(Item::Tok(Tok { v: TokV::Cs("par".into()), line, col, col_first: first })),
                        }
                    }
                    COMMENT => {
                        // §350 any_state_plus(comment): loc←limit+1; goto switch
                        self.loc = self.buf.len();
                        continue 'switch;
                    }
                    _ => {
                        // left_brace, right_brace, math_shift, tab_mark, mac_param, sub_mark, letter,
                        // other_char, active_char: the token itself; state←mid_line
                        self.set_state(State::MidLine);
                        return Some(Item::Tok(Tok { v: TokV::Ch(cur_chr, cat), line, col, col_first: first }));
                    }
                }
            }
        }
    }

    /// The scanner as one stream: tokens, `NewLine` between two lines, `End`.
    /// (§360: when the line is exhausted the next one is loaded with the end-line character of the
    /// moment.)
    pub fn next(&mut self, cfg: &Config) -> Item {
        if let Some(i) = self.next_in_line(cfg) {
            return i;
        }
        let first = self.next_line == 0;
        if !self.start_next_line(cfg.end_line_char) {
            return Item::End;
        }
        if first {
            self.next(cfg)
        } else {
            Item::NewLine
        }
    }
}

/// All items of a text under a fixed configuration (no `End`).
pub fn scan_all(text: &str, cfg: &Config) -> (Vec<Item>, Events) {
    let mut s = Source::new(text);
    let mut out = vec![];
    loop {
        match s.next(cfg) {
            Item::End => break,
            i => out.push(i),
        }
    }
    (out, s.ev)
}

#[cfg(test)]
mod tests {
    use super::*;
    fn toks(text: &str, cfg: &Config) -> String {
        scan_all(text, cfg)
            .0
            .iter()
            .map(|i| match i {
                Item::Tok(t) => format!("{}@{}:{}", t.v.exact(), t.line, t.col),
                Item::Invalid { c, .. } => format!("!{c}"),
                Item::NewLine => "NL".into(),
                Item::End => unreachable!(),
            })
            .collect::<Vec<_>>()
            .join(" ")
    }
    #[test]
    fn basics() {
        let cfg = Config { table: Table::plain(), end_line_char: Some('\r'), hex: true };
        assert_eq!(toks("\\a b", &cfg), "\\a@1:0 b/11@1:3  /10@1:4");
        assert_eq!(toks("^^k", &cfg), "+/12@1:2  /10@1:3");
        assert_eq!(toks("^^5e", &cfg), "^/7@1:3  /10@1:4");
        assert_eq!(toks("\\^^-^^-+", &cfg), "\\mm@1:0 +/12@1:7  /10@1:8");
        assert_eq!(toks("A\n\nB", &cfg), "A/11@1:0  /10@1:1 NL \\par@2:0 NL B/11@3:0  /10@3:1");
        let cfg = Config { table: Table::plain(), end_line_char: Some('\r'), hex: false };
        assert_eq!(toks("^^5e", &cfg), "u/11@1:2 e/11@1:3  /10@1:4");
    }
}
