//! Font-metric arithmetic (C17): fix_word text, store_scaled, PLtoTF's table compression, next-larger
//! chains. Transliterations of tftopl.web / pltotf.web / tex.web with `i64` arithmetic; Pascal range
//! errors and `abort`s are explicit `Err`s. No repository types.
//!
//! A fix_word is a 32-bit two's complement integer holding value * 2^20.

pub const FIX_UNITY: i64 = 1 << 20; // @'4000000

// ------------------------------------------------------------------------------------------------
// TFtoPL §40-43: out_fix
// ------------------------------------------------------------------------------------------------

/// TFtoPL §40-43 `out_fix` without the leading " R": the decimal text of the fix_word whose four
/// bytes are the big-endian two's complement representation of `x` (any 32-bit pattern).
pub fn print_fix(x: i32) -> String {
    let [b0, b1, b2, b3] = x.to_be_bytes().map(|b| b as i64);
    // §40: a:=(tfm[k]*16)+(tfm[k+1] div 16); f:=((tfm[k+1] mod 16)*@'400+tfm[k+2])*@'400+tfm[k+3]
    let mut a: i64 = b0 * 16 + b1 / 16;
    let mut f: i64 = ((b1 % 16) * 0o400 + b2) * 0o400 + b3;
    let mut out = String::new();
    // §43 reduce negative to positive
    if a > 0o3777 {
        out.push('-');
        a = 0o10000 - a;
        if f > 0 {
            f = 0o4000000 - f;
            a -= 1;
        }
    }
    // §41 integer part
    out.push_str(&a.to_string());
    // §42 fraction part
    out.push('.');
    f = 10 * f + 5;
    let mut delta: i64 = 10;
    loop {
        if delta > 0o4000000 {
            f = f + 0o2000000 - delta / 2;
        }
        out.push((b'0' + (f / 0o4000000) as u8) as char);
        f = 10 * (f % 0o4000000);
        delta *= 10;
        if f <= delta {
            break;
        }
    }
    out
}

/// Does printing this text have taken the rounding branch of §42? The k-th pass of the loop starts with
/// delta = 10^k, and `delta > 2^20` first holds for k = 7: exactly the texts with a 7th fraction digit.
pub fn text_used_rounding_branch(text: &str) -> bool {
    text.split('.').nth(1).map(|f| f.len() >= 7).unwrap_or(false)
}

// ------------------------------------------------------------------------------------------------
// PLtoTF §62-66: get_fix
// ------------------------------------------------------------------------------------------------

#[derive(Debug, Clone, Copy, PartialEq, Eq)]
pub enum FixErr {
    /// §62 'An "R" or "D" value is needed here' (the text handed to `parse_fix` starts after the R/D, so
    /// this is only produced by `parse_fix_prop`)
    NeedsRorD,
    /// §64, §62 'Real constants must be less than 2048'
    TooBig,
}

/// PLtoTF §62-66 `get_fix` on the characters that follow the `R`/`D` (the rest of the property value;
/// scanning stops at the first character that cannot continue the number, as `get_next` would leave
/// it to `finish_the_property`). Returns the fix_word, or the error PLtoTF reports (after which
/// PLtoTF's value is 0).
pub fn parse_fix(text: &str) -> Result<i64, FixErr> {
    let s: Vec<u8> = text.bytes().collect();
    let mut i = 0usize;
    // §63 scan the blanks and/or signs
    let mut negative = false;
    while i < s.len() {
        match s[i] {
            b' ' | b'+' => i += 1,
            b'-' => {
                negative = !negative;
                i += 1
            }
            _ => break,
        }
    }
    // §64 integer part
    let mut acc: i64 = 0;
    while i < s.len() && s[i].is_ascii_digit() {
        acc = acc * 10 + (s[i] - b'0') as i64;
        if acc >= 2048 {
            return Err(FixErr::TooBig);
        }
        i += 1;
    }
    let int_part = acc;
    acc = 0;
    // §66 fraction part
    if i < s.len() && s[i] == b'.' {
        i += 1;
        let mut fraction_digits = [0i64; 8];
        let mut j = 0usize;
        while i < s.len() && s[i].is_ascii_digit() {
            if j < 7 {
                j += 1;
                fraction_digits[j] = 0o10000000 * (s[i] - b'0') as i64;
            }
            i += 1;
        }
        acc = 0;
        while j > 0 {
            acc = fraction_digits[j] + acc / 10;
            j -= 1;
        }
        acc = (acc + 10) / 20;
    }
    // §62
    if acc >= FIX_UNITY && int_part == 2047 {
        return Err(FixErr::TooBig);
    }
    acc += int_part * FIX_UNITY;
    Ok(if negative { -acc } else { acc })
}

// ------------------------------------------------------------------------------------------------
// TeX §568, §571-575: store_scaled
// ------------------------------------------------------------------------------------------------

#[derive(Debug, Clone, Copy, PartialEq, Eq)]
pub enum ScaledErr {
    /// §568: `read_sixteen(z)` rejects a design size whose first byte exceeds 127, and `if z<unity then abort`
    DesignSizeOutOfRange,
    /// §571: the first byte of the fix_word is neither 0 nor 255 (|value| >= 16)
    ValueOutOfRange,
}

/// tex.web §568 + §572 + §571: the scaled value TeX stores for the fix_word `x` in a font whose
/// design size is the fix_word `design_size`, loaded at its design size (s = -1000).
pub fn store_scaled(x: i32, design_size: i32) -> Result<i64, ScaledErr> {
    // §568: z is the top 28 bits of the design size: fget; read_sixteen(z); fget; z:=z*@'400+fbyte;
    //       fget; z:=(z*@'20)+(fbyte div@'20); if z<unity then abort
    let [d0, d1, d2, d3] = design_size.to_be_bytes().map(|b| b as i64);
    if d0 > 127 {
        return Err(ScaledErr::DesignSizeOutOfRange);
    }
    let mut z: i64 = ((d0 * 0o400 + d1) * 0o400 + d2) * 0o20 + d3 / 0o20;
    if z < 0o200000 {
        return Err(ScaledErr::DesignSizeOutOfRange);
    }
    // §572
    let mut alpha: i64 = 16;
    while z >= 0o40000000 {
        z /= 2;
        alpha += alpha;
    }
    let beta = 256 / alpha;
    let alpha = alpha * z;
    // §571
    let [a, b, c, d] = x.to_be_bytes().map(|b| b as i64);
    let sw = (((d * z) / 0o400 + c * z) / 0o400 + b * z) / beta;
    match a {
        0 => Ok(sw),
        255 => Ok(sw - alpha),
        _ => Err(ScaledErr::ValueOutOfRange),
    }
}

// ------------------------------------------------------------------------------------------------
// PLtoTF §75-80: min_cover, shorten, set_indices
// ------------------------------------------------------------------------------------------------

/// Sorted, deduplicated copy (PLtoTF's `sort_in` keeps its lists sorted and free of duplicates, §74).
pub fn sorted_distinct(values: &[i64]) -> Vec<i64> {
    let mut v = values.to_vec();
    v.sort();
    v.dedup();
    v
}

/// PLtoTF §75 `min_cover(h,d)`: the number of intervals of length `d` needed to cover the sorted
/// distinct values when each interval starts at the smallest value not yet covered, and `next_d`,
/// the smallest d' > d that would give a different cover (None = "infinity").
pub fn min_cover(sorted: &[i64], d: i64) -> (usize, Option<i64>) {
    let mut count = 0;
    let mut next_d: Option<i64> = None;
    let mut p = 0;
    while p < sorted.len() {
        count += 1;
        let l = sorted[p];
        while p + 1 < sorted.len() && sorted[p + 1] <= l + d {
            p += 1;
        }
        p += 1;
        if p < sorted.len() {
            let g = sorted[p] - l;
            if next_d.map(|n| g < n).unwrap_or(true) {
                next_d = Some(g);
            }
        }
    }
    (count, next_d)
}

/// The classes of the greedy cover with tolerance `d`, as index ranges into `sorted`.
pub fn greedy_classes(sorted: &[i64], d: i64) -> Vec<(usize, usize)> {
    let mut out = vec![];
    let mut p = 0;
    while p < sorted.len() {
        let start = p;
        let l = sorted[p];
        while p + 1 < sorted.len() && sorted[p + 1] <= l + d {
            p += 1;
        }
        out.push((start, p));
        p += 1;
    }
    out
}

/// Brute force: the smallest tolerance d >= 0 such that the values can be split into at most `m`
/// classes each of spread <= d. (Any partition into classes of spread <= d has at least as many
/// classes as the greedy cover, and a feasible d can be lowered to the nearest pairwise difference, so
/// trying 0 and every pairwise difference in increasing order is exhaustive.) None if m = 0 and the
/// list is not empty.
pub fn min_tolerance(sorted: &[i64], m: usize) -> Option<i64> {
    if sorted.is_empty() {
        return Some(0);
    }
    if m == 0 {
        return None;
    }
    let mut cand: Vec<i64> = vec![0];
    for i in 0..sorted.len() {
        for j in i + 1..sorted.len() {
            cand.push(sorted[j] - sorted[i]);
        }
    }
    cand.sort();
    cand.dedup();
    cand.into_iter().find(|d| min_cover(sorted, *d).0 <= m)
}

/// PLtoTF §76-77 `shorten(h,m)` transliterated (doubling, then stepping through `next_d`).
pub fn shorten(sorted: &[i64], m: usize) -> i64 {
    if sorted.len() <= m {
        return 0;
    }
    let (_, nd) = min_cover(sorted, 0);
    let mut d = nd.expect("more than m >= 0 values, so there is a gap");
    let mut k;
    loop {
        d += d;
        k = min_cover(sorted, d).0;
        if k <= m {
            break;
        }
    }
    d /= 2;
    let (mut k, mut nd) = min_cover(sorted, d);
    while k > m {
        d = nd.expect("k > m >= 1 means there is a further interval");
        let r = min_cover(sorted, d);
        k = r.0;
        nd = r.1;
    }
    d
}

/// Result of a compression: `table[0]` is unused here (the TFM tables start with a zero entry that
/// the caller owns); `table[k]` for k >= 1 is the representative of class k; `index[i]` is the class
/// of `sorted[i]`.
#[derive(Debug, Clone, PartialEq, Eq)]
pub struct Compressed {
    pub tolerance: i64,
    pub reps: Vec<i64>,
    pub index: Vec<usize>,
}

/// PLtoTF §78 `set_indices(h,d)` exactly, including the `excess` counter of §77/§78: merging stops
/// (d becomes 0) as soon as `excess = n - m` words have been removed.
pub fn pltotf_compress(sorted: &[i64], m: usize) -> Compressed {
    let mut d = shorten(sorted, m);
    let tolerance = d;
    let mut excess: i64 = sorted.len() as i64 - m as i64; // only meaningful when the list is shortened
    let shortened = sorted.len() > m;
    let mut reps = vec![];
    let mut index = vec![0usize; sorted.len()];
    let mut p = 0;
    let mut cls = 0;
    while p < sorted.len() {
        cls += 1;
        let l = sorted[p];
        index[p] = cls;
        while p + 1 < sorted.len() && sorted[p + 1] <= l + d {
            p += 1;
            index[p] = cls;
            if shortened {
                excess -= 1;
                if excess == 0 {
                    d = 0;
                }
            }
        }
        reps.push(l + (sorted[p] - l) / 2);
        p += 1;
    }
    Compressed { tolerance, reps, index }
}

/// The plain greedy compression (no `excess` counter): every class of the greedy cover at the
/// minimal tolerance is merged, representative = PLtoTF's midpoint `l + (u-l) div 2`.
pub fn greedy_compress(sorted: &[i64], m: usize) -> Option<Compressed> {
    let tolerance = min_tolerance(sorted, m)?;
    let mut reps = vec![];
    let mut index = vec![0usize; sorted.len()];
    for (k, (a, b)) in greedy_classes(sorted, tolerance).into_iter().enumerate() {
        for i in a..=b {
            index[i] = k + 1;
        }
        reps.push(sorted[a] + (sorted[b] - sorted[a]) / 2);
    }
    Some(Compressed { tolerance, reps, index })
}

// ------------------------------------------------------------------------------------------------
// TFtoPL §84 (= PLtoTF §110-113): next-larger chains
// ------------------------------------------------------------------------------------------------

#[derive(Debug, Clone, Copy, PartialEq, Eq, PartialOrd, Ord)]
pub enum NlWarning {
    /// 'Character list link to nonexistent character' (TFtoPL §84) / 'The character NEXTLARGER than c
    /// had no CHARACTER spec' (PLtoTF §111)
    NonExistent { original: u8, next_larger: u8 },
    /// 'Cycle in a character list! Character c now ends the list.' (TFtoPL §84) / 'A cycle of
    /// NEXTLARGER characters has been broken at c' (PLtoTF §113)
    Cycle { original: u8, next_larger: u8 },
}

/// TFtoPL §84, character by character in increasing order: a link to a nonexistent character is
/// reported and (TFtoPL, `drop_nonexistent`) removed / (PLtoTF §111, which creates the character) kept;
/// then `while (r<c) and (tag(r)=list_tag) do r:=rem(r)`; `r=c` is a cycle, cut at `c`.
/// `link[c]` is the NEXTLARGER of c. Links out of nonexistent characters are outside the domain
/// (TFtoPL never visits such a character, PLtoTF cannot express it).
pub fn next_larger(link: &[Option<u8>; 256], exists: &dyn Fn(u8) -> bool, drop_nonexistent: bool) -> ([Option<u8>; 256], Vec<NlWarning>) {
    let mut tag = *link;
    let mut warnings = vec![];
    for c in 0..=255u8 {
        let Some(first) = tag[c as usize] else { continue };
        if !exists(first) {
            warnings.push(NlWarning::NonExistent { original: c, next_larger: first });
            if drop_nonexistent {
                tag[c as usize] = None;
                continue;
            }
        }
        let mut r = first;
        while r < c {
            match tag[r as usize] {
                Some(n) => r = n,
                None => break,
            }
        }
        if r == c {
            warnings.push(NlWarning::Cycle { original: c, next_larger: first });
            tag[c as usize] = None;
        }
    }
    (tag, warnings)
}

/// The same function by definition: remove (or keep) links to nonexistent characters, then in every
/// cycle of the functional graph remove the link that leaves the cycle's largest character.
pub fn next_larger_by_definition(link: &[Option<u8>; 256], exists: &dyn Fn(u8) -> bool, drop_nonexistent: bool) -> ([Option<u8>; 256], Vec<NlWarning>) {
    let mut g = *link;
    let mut warnings = vec![];
    for c in 0..=255u8 {
        if let Some(n) = g[c as usize] {
            if !exists(n) {
                warnings.push(NlWarning::NonExistent { original: c, next_larger: n });
                if drop_nonexistent {
                    g[c as usize] = None;
                }
            }
        }
    }
    let mut on_cycle_max: Vec<u8> = vec![];
    for s in 0..=255u8 {
        // is s on a cycle? walk at most 256 steps
        let mut cur = s;
        let mut members = vec![s];
        let mut is_cycle = false;
        for _ in 0..256 {
            match g[cur as usize] {
                None => break,
                Some(n) => {
                    if n == s {
                        is_cycle = true;
                        break;
                    }
                    members.push(n);
                    cur = n;
                }
            }
        }
        if is_cycle && *members.iter().max().unwrap() == s {
            on_cycle_max.push(s);
        }
    }
    for c in on_cycle_max {
        warnings.push(NlWarning::Cycle { original: c, next_larger: g[c as usize].unwrap() });
    }
    for w in &warnings {
        if let NlWarning::Cycle { original, .. } = w {
            g[*original as usize] = None;
        }
    }
    (g, warnings)
}

/// The chain of next-larger characters that starts after `c`.
pub fn chain(g: &[Option<u8>; 256], c: u8) -> Vec<u8> {
    let mut out = vec![];
    let mut cur = c;
    while let Some(n) = g[cur as usize] {
        out.push(n);
        cur = n;
        if out.len() > 256 {
            break; // cannot happen after the cycles were cut; the caller treats > 256 as an error
        }
    }
    out
}

#[cfg(test)]
mod tests {
    use super::*;
    #[test]
    fn fix_text() {
        assert_eq!(print_fix(0), "0.0");
        assert_eq!(print_fix(1 << 20), "1.0");
        assert_eq!(print_fix(-(1 << 20)), "-1.0");
        assert_eq!(print_fix(i32::MIN), "-2048.0");
        assert_eq!(print_fix(1), "0.000001");
        assert_eq!(parse_fix("0.000001"), Ok(1));
        assert_eq!(parse_fix(" -1.5"), Ok(-(3 << 19)));
        assert_eq!(parse_fix("2047.9999999"), Err(FixErr::TooBig));
        assert_eq!(parse_fix("2048"), Err(FixErr::TooBig));
    }
    #[test]
    fn scaled() {
        assert_eq!(store_scaled(1 << 20, 10 << 20), Ok(10 << 16));
        assert_eq!(store_scaled(-(1 << 20), 10 << 20), Ok(-(10 << 16)));
        assert_eq!(store_scaled(1 << 24, 10 << 20), Err(ScaledErr::ValueOutOfRange));
        assert_eq!(store_scaled(1, (1 << 20) - 1), Err(ScaledErr::DesignSizeOutOfRange));
    }
    #[test]
    fn compress_models_agree() {
        let s = [1, 2, 10, 11];
        assert_eq!(min_tolerance(&s, 3), Some(1));
        assert_eq!(shorten(&s, 3), 1);
        assert_eq!(pltotf_compress(&s, 3).reps, vec![1, 10, 11]);
        assert_eq!(greedy_compress(&s, 3).unwrap().reps, vec![1, 10]);
    }
}
