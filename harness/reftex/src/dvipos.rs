//! Independent DVI position tracker (DVI spec, TeX.2021 §583-591): registers h v w x y z, the stack,
//! the current font. `h` is an integer plus the sequence of (char, font) whose widths were added by
//! `set_char`-style ops (the widths are unknown without the font).
//!
//! Ops are given in a neutral form so this module does not depend on the `dvi` crate.

#[derive(Clone, Copy, Debug, PartialEq, Eq, Hash)]
pub enum Var {
    W = 0,
    X = 1,
    Y = 2,
    Z = 3,
}

#[derive(Clone, Debug, PartialEq, Eq, Hash)]
pub enum POp {
    Right(i64),
    Down(i64),
    SetVar(Var, i64),
    Move(Var),
    Push,
    Pop,
    BeginPage,
    EndPage,
    Font(u32),
    Char { c: u32, advance: bool },
    Rule { width: i64, advance: bool },
    Other,
}

#[derive(Clone, Debug, Default, PartialEq, Eq, Hash)]
pub struct Regs {
    pub h: i64,
    pub hchars: Vec<(u32, u32)>,
    pub v: i64,
    pub vars: [i64; 4],
}

#[derive(Clone, Debug, Default, PartialEq, Eq, Hash)]
pub struct Tracker {
    pub top: Regs,
    pub stack: Vec<Regs>,
    pub font: u32,
}

/// What is put on the page by one typesetting op: (h, chars whose widths are part of h, v, font).
pub type Mark = (i64, Vec<(u32, u32)>, i64, u32);

impl Tracker {
    /// Apply one op; returns the mark if the op typesets something.
    pub fn apply(&mut self, op: &POp) -> Option<Mark> {
        match op {
            POp::Right(d) => self.top.h += d,
            POp::Down(d) => self.top.v += d,
            POp::SetVar(var, d) => {
                self.top.vars[*var as usize] = *d;
                match var {
                    Var::W | Var::X => self.top.h += d,
                    Var::Y | Var::Z => self.top.v += d,
                }
            }
            POp::Move(var) => {
                let d = self.top.vars[*var as usize];
                match var {
                    Var::W | Var::X => self.top.h += d,
                    Var::Y | Var::Z => self.top.v += d,
                }
            }
            POp::Push => self.stack.push(self.top.clone()),
            POp::Pop => {
                // "highly embarrassing" on an empty stack: DVI leaves it undefined; a reader that
                // ignores the pop is the only behaviour that keeps every later position defined.
                if let Some(t) = self.stack.pop() {
                    self.top = t;
                }
            }
            POp::BeginPage => {
                self.top = Regs::default();
                self.stack.clear();
            }
            POp::EndPage | POp::Other => {}
            POp::Font(f) => self.font = *f,
            POp::Char { c, advance } => {
                let m = (self.top.h, self.top.hchars.clone(), self.top.v, self.font);
                if *advance {
                    self.top.hchars.push((*c, self.font));
                }
                return Some(m);
            }
            POp::Rule { width, advance } => {
                let m = (self.top.h, self.top.hchars.clone(), self.top.v, self.font);
                if *advance {
                    self.top.h += width;
                }
                return Some(m);
            }
        }
        None
    }
    pub fn run(ops: &[POp]) -> (Tracker, Vec<Mark>) {
        let mut t = Tracker::default();
        let mut marks = vec![];
        for op in ops {
            if let Some(m) = t.apply(op) {
                marks.push(m);
            }
        }
        (t, marks)
    }
}

/// Minimal number of payload bytes for a signed DVI operand (1..4), per the `rightN` family.
pub fn signed_width(v: i64) -> usize {
    if (-128..128).contains(&v) {
        1
    } else if (-32768..32768).contains(&v) {
        2
    } else if (-(1 << 23)..(1 << 23)).contains(&v) {
        3
    } else {
        4
    }
}
/// Minimal number of payload bytes for an unsigned DVI operand (1..4).
pub fn unsigned_width(v: u64) -> usize {
    if v < 1 << 8 {
        1
    } else if v < 1 << 16 {
        2
    } else if v < 1 << 24 {
        3
    } else {
        4
    }
}
