//! Independent TFM byte reader (tex.web §539‑§576, tftopl.web §8‑§21), no repository types.
//!
//! `parse` reads the twelve 16-bit lengths, checks the conditions under which TFtoPL §20‑21 / TeX
//! §565‑566 go on (lengths non-negative, `lh >= 2`, `bc <= ec+1 <= 256`, `ne <= 256`, the four dimension
//! tables non-empty, and the size equation `lf = 6+lh+(ec-bc+1)+nw+nh+nd+ni+nl+nk+ne+np`), requires
//! the byte length to be exactly `4*lf`, and cuts the file into its arrays. `tex_load_errors` lists
//! the further conditions of TeX §570‑§576 under which TeX itself would refuse the font.

pub type Word = [u8; 4];

#[derive(Clone, Debug, PartialEq, Eq)]
pub enum Error {
    /// fewer than 24 bytes
    NoSizeTable(usize),
    /// a length has its sign bit set (§565 `read_sixteen`: abort if > 127)
    Negative(&'static str, u16),
    /// byte length is not 4*lf
    Length { lf: usize, bytes: usize },
    HeaderTooShort(usize),
    CharRange { bc: usize, ec: usize },
    EmptyDimensionTable,
    TooManyExten(usize),
    SizeEquation { lf: usize, sum: usize },
}

#[derive(Clone, Debug, PartialEq, Eq, Default)]
pub struct Raw {
    pub lf: usize,
    pub lh: usize,
    pub bc: usize,
    pub ec: usize,
    pub nw: usize,
    pub nh: usize,
    pub nd: usize,
    pub ni: usize,
    pub nl: usize,
    pub nk: usize,
    pub ne: usize,
    pub np: usize,
    pub header: Vec<Word>,
    /// one word per character bc..=ec: [width_index, 16*height_index+depth_index, 4*italic_index+tag, remainder]
    pub char_info: Vec<Word>,
    pub width: Vec<i32>,
    pub height: Vec<i32>,
    pub depth: Vec<i32>,
    pub italic: Vec<i32>,
    pub lig_kern: Vec<Word>,
    pub kern: Vec<i32>,
    pub exten: Vec<Word>,
    pub param: Vec<i32>,
}

/// Everything the font says about one character, by value.
#[derive(Clone, Debug, PartialEq, Eq)]
pub struct CharMetrics {
    pub width: i32,
    pub height: i32,
    pub depth: i32,
    pub italic: i32,
    /// 0 none, 1 lig/kern program, 2 next larger, 3 extensible
    pub tag: u8,
    pub remainder: u8,
}

pub fn parse(b: &[u8]) -> Result<Raw, Error> {
    if b.len() < 24 {
        return Err(Error::NoSizeTable(b.len()));
    }
    let names = ["lf", "lh", "bc", "ec", "nw", "nh", "nd", "ni", "nl", "nk", "ne", "np"];
    let mut v = [0usize; 12];
    for i in 0..12 {
        let x = u16::from_be_bytes([b[2 * i], b[2 * i + 1]]);
        if x > 0x7fff {
            return Err(Error::Negative(names[i], x));
        }
        v[i] = x as usize;
    }
    let [lf, lh, bc, ec, nw, nh, nd, ni, nl, nk, ne, np] = v;
    if b.len() != 4 * lf {
        return Err(Error::Length { lf, bytes: b.len() });
    }
    if lh < 2 {
        return Err(Error::HeaderTooShort(lh));
    }
    if bc > ec + 1 || ec > 255 {
        return Err(Error::CharRange { bc, ec });
    }
    if nw == 0 || nh == 0 || nd == 0 || ni == 0 {
        return Err(Error::EmptyDimensionTable);
    }
    if ne > 256 {
        return Err(Error::TooManyExten(ne));
    }
    let nc = ec + 1 - bc;
    let sum = 6 + lh + nc + nw + nh + nd + ni + nl + nk + ne + np;
    if lf != sum {
        return Err(Error::SizeEquation { lf, sum });
    }
    let mut pos = 24usize;
    let mut words = |n: usize| -> Vec<Word> {
        let out = (0..n).map(|i| [b[pos + 4 * i], b[pos + 4 * i + 1], b[pos + 4 * i + 2], b[pos + 4 * i + 3]]).collect();
        pos += 4 * n;
        out
    };
    let fix = |w: Vec<Word>| -> Vec<i32> { w.into_iter().map(i32::from_be_bytes).collect() };
    let header = words(lh);
    let char_info = words(nc);
    let width = fix(words(nw));
    let height = fix(words(nh));
    let depth = fix(words(nd));
    let italic = fix(words(ni));
    let lig_kern = words(nl);
    let kern = fix(words(nk));
    let exten = words(ne);
    let param = fix(words(np));
    Ok(Raw { lf, lh, bc, ec, nw, nh, nd, ni, nl, nk, ne, np, header, char_info, width, height, depth, italic, lig_kern, kern, exten, param })
}

impl Raw {
    pub fn checksum(&self) -> u32 {
        u32::from_be_bytes(self.header[0])
    }
    pub fn design_size(&self) -> i32 {
        i32::from_be_bytes(self.header[1])
    }
    /// The character exists iff its width index is non-zero (§554).
    pub fn exists(&self, c: usize) -> bool {
        c >= self.bc && c <= self.ec && self.char_info[c - self.bc][0] != 0
    }
    pub fn chars(&self) -> Vec<u8> {
        (self.bc..=self.ec.min(255)).filter(|c| self.bc <= self.ec && self.exists(*c)).map(|c| c as u8).collect()
    }
    /// Metrics by value; None if the character does not exist or an index leaves its table.
    pub fn metrics(&self, c: usize) -> Option<CharMetrics> {
        if !self.exists(c) {
            return None;
        }
        let w = self.char_info[c - self.bc];
        Some(CharMetrics {
            width: *self.width.get(w[0] as usize)?,
            height: *self.height.get((w[1] >> 4) as usize)?,
            depth: *self.depth.get((w[1] & 15) as usize)?,
            italic: *self.italic.get((w[2] >> 2) as usize)?,
            tag: w[2] & 3,
            remainder: w[3],
        })
    }
    /// (character, remainder) of every *existing* character whose tag is 1.
    pub fn lig_starts(&self) -> Vec<(u8, u8)> {
        self.chars().into_iter().filter_map(|c| self.metrics(c as usize).filter(|m| m.tag == 1).map(|m| (c, m.remainder))).collect()
    }
    /// Right boundary character: §573/§576, first lig/kern word with skip byte 255.
    pub fn boundary_char(&self) -> Option<u8> {
        self.lig_kern.first().filter(|w| w[0] == 255).map(|w| w[1])
    }

    /// Conditions of TeX §570‑§576 (beyond the size table) that make TeX abort loading. Empty = TeX loads it.
    pub fn tex_load_errors(&self) -> Vec<String> {
        let mut e = vec![];
        let bchar = self.boundary_char();
        // §570: indices in range, tag consistency
        for c in self.bc..=self.ec.min(255) {
            if self.bc > self.ec {
                break;
            }
            let w = self.char_info[c - self.bc];
            if w[0] as usize >= self.nw || (w[1] >> 4) as usize >= self.nh || (w[1] & 15) as usize >= self.nd || (w[2] >> 2) as usize >= self.ni {
                e.push(format!("char {c}: dimension index out of range"));
            }
            match w[2] & 3 {
                1 if w[3] as usize >= self.nl => e.push(format!("char {c}: lig/kern start {} >= nl", w[3])),
                3 if w[3] as usize >= self.ne => e.push(format!("char {c}: exten index {} >= ne", w[3])),
                2 => {
                    // §570: check_byte_range(d); the chain must not cycle back to c
                    let mut d = w[3] as usize;
                    if d < self.bc || d > self.ec {
                        e.push(format!("char {c}: next larger {d} outside bc..ec"));
                    } else {
                        let mut steps = 0;
                        while d < c && steps < 300 {
                            let q = self.char_info[d - self.bc];
                            if q[2] & 3 != 2 {
                                break;
                            }
                            d = q[3] as usize;
                            if d < self.bc || d > self.ec {
                                break;
                            }
                            steps += 1;
                        }
                        if d == c {
                            e.push(format!("char {c}: next larger chain cycles"));
                        }
                    }
                }
                _ => {}
            }
        }
        // §571: first entries are zero, values fit
        if self.width[0] != 0 || self.height[0] != 0 || self.depth[0] != 0 || self.italic[0] != 0 {
            e.push("width[0], height[0], depth[0] or italic[0] is not zero".into());
        }
        for (name, t) in [("width", &self.width), ("height", &self.height), ("depth", &self.depth), ("italic", &self.italic), ("kern", &self.kern)] {
            for (i, v) in t.iter().enumerate() {
                let a = (*v as u32 >> 24) as u8;
                if a != 0 && a != 255 {
                    e.push(format!("{name}[{i}] is not less than 16 in absolute value"));
                }
            }
        }
        // §573: lig/kern commands
        for (k, w) in self.lig_kern.iter().enumerate() {
            let [a, b, c, d] = *w;
            if a > 128 {
                if 256 * c as usize + d as usize >= self.nl {
                    e.push(format!("lig/kern {k}: restart address >= nl"));
                }
            } else {
                if Some(b) != bchar && !self.exists(b as usize) {
                    e.push(format!("lig/kern {k}: next_char {b} does not exist"));
                }
                if c < 128 {
                    if !self.exists(d as usize) {
                        e.push(format!("lig/kern {k}: ligature character {d} does not exist"));
                    }
                } else if 256 * (c as usize - 128) + d as usize >= self.nk {
                    e.push(format!("lig/kern {k}: kern index >= nk"));
                }
                if a < 128 && k + a as usize + 1 >= self.nl {
                    e.push(format!("lig/kern {k}: skips past the end"));
                }
            }
        }
        // §574: extensible recipes
        for (k, w) in self.exten.iter().enumerate() {
            for (j, x) in w.iter().enumerate() {
                if (j == 3 || *x != 0) && !self.exists(*x as usize) {
                    e.push(format!("exten {k}: piece {x} does not exist"));
                }
            }
        }
        // §575: parameters other than the slant must be < 16
        for (i, v) in self.param.iter().enumerate().skip(1) {
            let a = (*v as u32 >> 24) as u8;
            if a != 0 && a != 255 {
                e.push(format!("param {} is not less than 16 in absolute value", i + 1));
            }
        }
        e
    }
}

/// TeX §571‑572 `store_scaled`: the fix_word with bytes `w` times `z` (the font size in scaled
/// points, `z = design_size_fixword / 16` at the design size, §568). None where TeX aborts
/// (`a` neither 0 nor 255, or z outside 0 < z < 2^27).
pub fn store_scaled(w: i32, z: i64) -> Option<i64> {
    if z <= 0 || z >= 0o1000000000 {
        return None;
    }
    let mut z = z;
    let mut alpha: i64 = 16;
    while z >= 0o40000000 {
        z /= 2;
        alpha += alpha;
    }
    let beta = 256 / alpha;
    let alpha = alpha * z;
    let [a, b, c, d] = w.to_be_bytes();
    let sw = (((d as i64 * z) / 0o400 + c as i64 * z) / 0o400 + b as i64 * z) / beta;
    match a {
        0 => Some(sw),
        255 => Some(sw - alpha),
        _ => None,
    }
}

#[cfg(test)]
mod tests {
    use super::*;
    #[test]
    fn scaled_one() {
        assert_eq!(store_scaled(1 << 20, 10 << 16), Some(10 << 16));
        assert_eq!(store_scaled(-(1 << 20), 10 << 16), Some(-(10 << 16)));
    }
    #[test]
    fn minimal() {
        // lf=12: 6 + lh 2 + 0 chars + 1+1+1+1
        let mut b = vec![0u8; 48];
        for (i, v) in [12u16, 2, 1, 0, 1, 1, 1, 1, 0, 0, 0, 0].iter().enumerate() {
            b[2 * i..2 * i + 2].copy_from_slice(&v.to_be_bytes());
        }
        let r = parse(&b).unwrap();
        assert_eq!(r.chars(), Vec::<u8>::new());
        assert!(r.tex_load_errors().is_empty());
    }
}
