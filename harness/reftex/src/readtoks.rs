//! TeX's input stack with `\input` / `\endinput` (§300-§329, §357-§362, §378, §537-§538) and the
//! read streams `\openin` / `\read` / `\ifeof` / `\closein` (§480-§486, §501, §1275), on top of the line
//! scanner `scan`.
//!
//! Two switches produce the *adjusted expectations* of the known findings of DESIGN §4.1:
//!
//! * `EndInput::TexGlobalFlag` is TeX: `\endinput` sets the single global `force_eof` (§378); the flag is
//!   tested when the current line of *whatever file is then on top of the stack* is exhausted (§360/§362
//!   `if not force_eof then <read next line> ...; if force_eof then <close, force_eof←false>`), so the
//!   rest of the `\endinput` line is read, and a file opened on that rest is the one that gets closed
//!   after its first line. `EndInput::PerSourceDropLine` (D14a) marks the innermost file as ended
//!   and forgets the rest of its current line at once.
//! * `Eof::Tex`: a read stream is `just_open` / `normal` / `closed`; when `input_ln` fails the stream is
//!   closed *and the line read is empty* (§485/§486), so the `\read` after the last real line
//!   delivers the end-line character of an empty line (`\par`) and only then `\ifeof` is true.
//!   `Eof::ClosesWithLastLine` (D14b) closes the stream as soon as its last real line has been read
//!   (an empty file counts as one empty line); a later `\read` goes to the terminal.
//!
//! Line model of a file: see `scan` (lines between `\n`, the empty file has no line). TeX82 itself
//! says "if the file is empty, it is considered to contain a single blank line" (§538); the property
//! checked (C19) is stated on lines standing in place, so the crate's convention is used and the
//! difference is recorded as an assumption of the check.

use crate::scan::{self, Config, Item, Source, TokV};
use std::collections::{BTreeMap, HashMap};

#[derive(Clone, Copy, Debug, PartialEq, Eq)]
pub enum EndInput {
    TexGlobalFlag,
    PerSourceDropLine,
}

#[derive(Clone, Copy, Debug, PartialEq, Eq)]
pub enum Eof {
    Tex,
    ClosesWithLastLine,
}

// ------------------------------------------------------------------ input stack + a tiny main control

#[derive(Clone, Debug)]
enum Entry {
    File { src: Source, ended: bool },
    /// a token list: a macro body or a backed-up token (§323-§325)
    Toks { toks: Vec<TokV>, pos: usize },
}

#[derive(Clone, Debug, PartialEq, Eq)]
pub enum Stop {
    /// every source was read to its end
    EndOfInput,
    /// `}` with no open group (TeX: recoverable "Too many }'s"; the crate: fatal)
    ExtraRightBrace,
    /// `\fi` with no open conditional (TeX: recoverable "Extra \fi")
    ExtraFi,
    FileNotFound(String),
    /// more than `max_open` files open at once (TeX §328 `overflow("text input levels")`)
    TooManyInputs,
    /// malformed `\def` in the little language of the check (not produced by its menus)
    BadDef,
    /// a control sequence the little language does not know. (TeX *expands* an undefined control
    /// sequence - an error at that moment - so it must not be modelled as an unexpandable token.)
    UnknownCs(String),
    /// model step budget (not produced by the menus of the check)
    Budget,
}

#[derive(Clone, Debug)]
pub struct RunResult {
    /// the characters delivered to main control; an undefined control sequence shows as `<undef \name>`
    pub out: String,
    pub stop: Stop,
    /// predicate of finding D14a: an `\endinput` was executed while TeX still had something to read
    /// before the line end that makes it effective (rest of the line of the current file yields a
    /// token, or a token list above that file is not exhausted)
    pub endinput_with_rest: bool,
    pub endinput_executed: u32,
    /// collision facts for the vacuity counters
    pub max_open_files: usize,
    pub input_mid_line: bool,
    pub file_ended_in_group: bool,
    pub file_ended_in_cond: bool,
    pub force_eof_closed_other_file: bool,
    pub backed_token_across_push: bool,
    /// an \endinput was executed in a file that still has further lines (the stop is early)
    pub endinput_before_last_line: bool,
    /// \input was executed while a macro body (a token list of several tokens) still had tokens left
    pub input_from_macro_body_with_rest: bool,
    /// a macro body of more than 32 tokens was expanded inside an input file (not the main file)
    pub big_expansion_in_input_file: bool,
}

pub struct InputMachine<'a> {
    files: &'a BTreeMap<String, String>,
    cfg: Config,
    mode: EndInput,
    pub max_open: usize,
    stack: Vec<Entry>,
    force_eof: bool,
    /// index in `stack` of the file that executed the pending `\endinput` (to recognise "closed another file")
    force_eof_owner: Option<usize>,
    macros: HashMap<String, Vec<TokV>>,
    /// tokens made equal to \relax by `\let<token>\relax` (unexpandable, do nothing)
    relaxed: Vec<TokV>,
    group: i64,
    cond: i64,
    /// (group, cond) at the time each file was opened
    marks: Vec<(i64, i64)>,
    r: RunResult,
    budget: u64,
}

impl<'a> InputMachine<'a> {
    pub fn new(files: &'a BTreeMap<String, String>, cfg: Config, mode: EndInput) -> Self {
        InputMachine {
            files,
            cfg,
            mode,
            max_open: 100,
            stack: vec![],
            force_eof: false,
            force_eof_owner: None,
            macros: HashMap::new(),
            relaxed: vec![],
            group: 0,
            cond: 0,
            marks: vec![],
            r: RunResult {
                out: String::new(),
                stop: Stop::EndOfInput,
                endinput_with_rest: false,
                endinput_executed: 0,
                max_open_files: 0,
                input_mid_line: false,
                file_ended_in_group: false,
                file_ended_in_cond: false,
                force_eof_closed_other_file: false,
                backed_token_across_push: false,
                endinput_before_last_line: false,
                input_from_macro_body_with_rest: false,
                big_expansion_in_input_file: false,
            },
            budget: 200_000,
        }
    }

    fn open_files(&self) -> usize {
        self.stack.iter().filter(|e| matches!(e, Entry::File { .. })).count()
    }

    /// §537/§538 begin_file_reading + "read the first line of the new file"
    fn push_file(&mut self, text: &str) {
        let mut src = Source::new(text);
        src.start_next_line(self.cfg.end_line_char);
        self.stack.push(Entry::File { src, ended: false });
        self.marks.push((self.group, self.cond));
        self.r.max_open_files = self.r.max_open_files.max(self.open_files());
    }

    fn pop_file(&mut self) {
        self.stack.pop();
        if let Some((g, c)) = self.marks.pop() {
            if self.group > g {
                self.r.file_ended_in_group = true;
            }
            if self.cond > c {
                self.r.file_ended_in_cond = true;
            }
        }
    }

    /// get_next (§341/§357/§360): the next token from the input stack, unexpanded.
    fn get_next(&mut self) -> Option<TokV> {
        loop {
            let top = self.stack.len().checked_sub(1)?;
            match &mut self.stack[top] {
                Entry::Toks { toks, pos } => {
                    if *pos < toks.len() {
                        *pos += 1;
                        return Some(toks[*pos - 1].clone());
                    }
                    self.stack.pop(); // §357 end_token_list
                }
                Entry::File { src, ended } => {
                    match src.next_in_line(&self.cfg) {
                        Some(Item::Tok(t)) => return Some(t.v),
                        Some(_) => continue, // invalid character: reported, skipped (§346)
                        None => {}
                    }
                    // §360: the line is exhausted
                    let close = match self.mode {
                        EndInput::TexGlobalFlag => {
                            if self.force_eof {
                                true
                            } else {
                                !src.start_next_line(self.cfg.end_line_char)
                            }
                        }
                        EndInput::PerSourceDropLine => *ended || !src.start_next_line(self.cfg.end_line_char),
                    };
                    if close {
                        if self.mode == EndInput::TexGlobalFlag && self.force_eof {
                            self.force_eof = false; // §362
                            if self.force_eof_owner != Some(top) {
                                self.r.force_eof_closed_other_file = true;
                            }
                            self.force_eof_owner = None;
                        }
                        self.pop_file();
                    }
                }
            }
        }
    }

    fn back_input(&mut self, t: TokV) {
        self.stack.push(Entry::Toks { toks: vec![t], pos: 0 });
    }

    /// get_x_token restricted to the expandable commands of the little language:
    /// `\input`, `\endinput`, `\iftrue`, `\fi`, parameterless macros.
    fn get_x_token(&mut self) -> Result<Option<TokV>, Stop> {
        loop {
            if self.budget == 0 {
                return Err(Stop::Budget);
            }
            self.budget -= 1;
            let t = match self.get_next() {
                None => return Ok(None),
                Some(t) => t,
            };
            if self.relaxed.contains(&t) {
                return Ok(Some(t));
            }
            let name = match &t {
                TokV::Cs(n) => n.as_str(),
                // an active character without a meaning is expanded by TeX (an error): not modelled
                TokV::Ch(c, scan::ACTIVE_CHAR) => return Err(Stop::UnknownCs(c.to_string())),
                _ => return Ok(Some(t)),
            };
            if let Some(body) = self.macros.get(name) {
                let body = body.clone();
                if body.len() > 32 && self.open_files() >= 2 {
                    self.r.big_expansion_in_input_file = true;
                }
                self.stack.push(Entry::Toks { toks: body, pos: 0 }); // §389 macro_call, no parameters
                continue;
            }
            match name {
                "iftrue" => self.cond += 1,
                "fi" => {
                    if self.cond == 0 {
                        return Err(Stop::ExtraFi);
                    }
                    self.cond -= 1;
                }
                "endinput" => self.endinput(),
                "input" => self.input()?,
                "par" | "def" | "let" | "relax" => return Ok(Some(t)),
                _ => return Err(Stop::UnknownCs(name.to_string())),
            }
        }
    }

    /// §378 `end_input: force_eof←true`
    fn endinput(&mut self) {
        self.r.endinput_executed += 1;
        let top_file = match self.stack.iter().rposition(|e| matches!(e, Entry::File { .. })) {
            None => return,
            Some(i) => i,
        };
        // the D14a predicate, computed on a copy: does TeX still read something before that file's line ends?
        let pending_lists = self.stack[top_file + 1..].iter().any(|e| matches!(e, Entry::Toks { toks, pos } if *pos < toks.len()));
        let mut rest_yields_token = false;
        if let Entry::File { src, .. } = &self.stack[top_file] {
            if src.has_more_lines() {
                self.r.endinput_before_last_line = true;
            }
            let mut copy = src.clone();
            while let Some(i) = copy.next_in_line(&self.cfg) {
                if matches!(i, Item::Tok(_)) {
                    rest_yields_token = true;
                    break;
                }
            }
        }
        if pending_lists || rest_yields_token {
            self.r.endinput_with_rest = true;
        }
        match self.mode {
            EndInput::TexGlobalFlag => {
                self.force_eof = true;
                self.force_eof_owner = Some(top_file);
            }
            EndInput::PerSourceDropLine => {
                if let Entry::File { src, ended } = &mut self.stack[top_file] {
                    src.drop_rest_of_line();
                    *ended = true;
                }
            }
        }
    }

    /// §526 scan_file_name + §537 start_input
    fn input(&mut self) -> Result<(), Stop> {
        let mut name = String::new();
        loop {
            match self.get_x_token()? {
                None => break,
                Some(TokV::Ch(_, scan::SPACER)) => break,
                // `if (cur_cmd>other_char) or (cur_chr>255) then begin back_input; goto done; end`
                Some(TokV::Ch(c, k)) if k <= scan::OTHER_CHAR => name.push(c),
                Some(t) => {
                    self.back_input(t);
                    self.r.backed_token_across_push = true;
                    break;
                }
            }
        }
        let text = match self.files.get(&name) {
            None => return Err(Stop::FileNotFound(name)),
            Some(t) => t.clone(),
        };
        if self.open_files() >= self.max_open {
            return Err(Stop::TooManyInputs);
        }
        if self.stack.iter().any(|e| matches!(e, Entry::Toks { toks, pos } if toks.len() > 1 && *pos < toks.len())) {
            self.r.input_from_macro_body_with_rest = true;
        }
        if let Some(Entry::File { src, .. }) = self.stack.iter().rev().find(|e| matches!(e, Entry::File { .. })) {
            if !src.line_exhausted() {
                self.r.input_mid_line = true;
            }
        }
        self.push_file(&text);
        Ok(())
    }

    /// `\def\name{balanced text}` (no parameters)
    fn def(&mut self) -> Result<(), Stop> {
        let name = match self.get_next() {
            Some(TokV::Cs(n)) => n,
            _ => return Err(Stop::BadDef),
        };
        match self.get_next() {
            Some(TokV::Ch(_, scan::LEFT_BRACE)) => {}
            _ => return Err(Stop::BadDef),
        }
        let mut depth = 0;
        let mut body = vec![];
        loop {
            match self.get_next() {
                None => return Err(Stop::BadDef),
                Some(TokV::Ch(c, scan::LEFT_BRACE)) => {
                    depth += 1;
                    body.push(TokV::Ch(c, scan::LEFT_BRACE));
                }
                Some(TokV::Ch(c, scan::RIGHT_BRACE)) => {
                    if depth == 0 {
                        break;
                    }
                    depth -= 1;
                    body.push(TokV::Ch(c, scan::RIGHT_BRACE));
                }
                Some(t) => body.push(t),
            }
        }
        self.macros.insert(name, body);
        Ok(())
    }

    /// Run `main` as the first file until the input is exhausted or an error stops the run.
    pub fn run(mut self, main: &str) -> RunResult {
        self.push_file(main);
        loop {
            let t = match self.get_x_token() {
                Err(s) => {
                    self.r.stop = s;
                    break;
                }
                Ok(None) => break,
                Ok(Some(t)) => t,
            };
            match t {
                t if self.relaxed.contains(&t) => {}
                TokV::Ch(_, scan::LEFT_BRACE) => self.group += 1,
                TokV::Ch(_, scan::RIGHT_BRACE) => {
                    if self.group == 0 {
                        self.r.stop = Stop::ExtraRightBrace;
                        break;
                    }
                    self.group -= 1;
                }
                TokV::Ch(c, _) => self.r.out.push(c),
                TokV::Cs(n) if n == "def" => {
                    if let Err(s) = self.def() {
                        self.r.stop = s;
                        break;
                    }
                }
                // `\let<token>\relax` (no `=`): the only form of \let in the little language
                TokV::Cs(n) if n == "let" => match (self.get_next(), self.get_next()) {
                    (Some(a), Some(TokV::Cs(r))) if r == "relax" => self.relaxed.push(a),
                    _ => {
                        self.r.stop = Stop::BadDef;
                        break;
                    }
                },
                TokV::Cs(n) if n == "relax" => {}
                // \par is a primitive (par_end, unexpandable); the harness VM has no meaning for it and shows it
                TokV::Cs(n) if n == "par" => self.r.out.push_str("<undef \\par>"),
                TokV::Cs(n) => {
                    self.r.stop = Stop::UnknownCs(n);
                    break;
                }
            }
        }
        self.r
    }
}

pub fn run_input(files: &BTreeMap<String, String>, main: &str, cfg: &Config, mode: EndInput) -> RunResult {
    InputMachine::new(files, cfg.clone(), mode).run(main)
}

// ------------------------------------------------------------------ read streams

#[derive(Clone, Debug)]
struct Stream {
    src: Source,
}

#[derive(Clone, Debug, PartialEq, Eq)]
pub enum ReadOutcome {
    /// the token list `\read` stores in its target
    Toks(Vec<TokV>),
    /// a terminal line was needed and the terminal had no further line (TeX: fatal error)
    TerminalExhausted,
    /// the file ended inside a brace group (TeX §486: error "File ended within \read", recoverable; the
    /// crate: fatal "file has an unmatched opening brace"). Either way not a brace-balanced result.
    FileEndedInGroup,
}

#[derive(Clone, Debug)]
pub struct ReadMachine {
    cfg: Config,
    eof: Eof,
    streams: Vec<Option<Stream>>,
    pub terminal: Vec<String>,
    pub terminal_pos: usize,
    /// recoverable "bad number" errors (stream number outside 0..=15 for \openin, \closein, \ifeof)
    pub range_errors: u32,
    /// collision facts
    pub ifeof_in_d14b_window: bool,
    pub read_spanned_lines: bool,
    pub unmatched_right_brace: bool,
    pub read_from_terminal: bool,
    pub read_appended_empty_line: bool,
    /// a \read ended after one line that holds a complete `{...}` group, and the file has further lines
    pub group_line_then_more_lines: bool,
    /// a \read spanned several lines (group closed on a later line), and the file has further lines
    pub multiline_group_then_more_lines: bool,
    /// an unmatched `}` aborted a line that is not the last line of its file
    pub unmatched_brace_then_more_lines: bool,
}

impl ReadMachine {
    pub fn new(cfg: Config, eof: Eof, terminal: &[&str]) -> ReadMachine {
        ReadMachine {
            cfg,
            eof,
            streams: (0..16).map(|_| None).collect(),
            terminal: terminal.iter().map(|s| s.to_string()).collect(),
            terminal_pos: 0,
            range_errors: 0,
            ifeof_in_d14b_window: false,
            read_spanned_lines: false,
            unmatched_right_brace: false,
            read_from_terminal: false,
            read_appended_empty_line: false,
            group_line_then_more_lines: false,
            multiline_group_then_more_lines: false,
            unmatched_brace_then_more_lines: false,
        }
    }
    /// scan_four_bit_int (§435): out of range is an error and 0 is used
    fn four_bit(&mut self, n: i64) -> usize {
        if (0..16).contains(&n) {
            n as usize
        } else {
            self.range_errors += 1;
            0
        }
    }
    /// §1275: `\openin n=name`; `content` is None when the file cannot be opened.
    pub fn openin(&mut self, n: i64, content: Option<&str>) {
        let n = self.four_bit(n);
        self.streams[n] = content.map(|c| {
            // D14b variant: the crate makes every file end in a newline, so the empty file is one empty line
            let text = if self.eof == Eof::ClosesWithLastLine && c.is_empty() { "\n" } else { c };
            Stream { src: Source::new(text) }
        });
    }
    pub fn closein(&mut self, n: i64) {
        let n = self.four_bit(n);
        self.streams[n] = None;
    }
    /// §501 `if_eof_code: begin scan_four_bit_int; b←(read_open[cur_val]=closed); end`
    pub fn ifeof(&mut self, n: i64) -> bool {
        let n = self.four_bit(n);
        if let Some(s) = &self.streams[n] {
            if !s.src.has_more_lines() {
                // TeX: still open (the appended empty line has not been read). This is exactly the
                // window in which D14b answers differently.
                self.ifeof_in_d14b_window = true;
            }
        }
        self.streams[n].is_none()
    }
    pub fn is_open(&self, n: usize) -> bool {
        self.streams[n].is_some()
    }

    /// §482-§486 read_toks
    pub fn read(&mut self, n: i64) -> ReadOutcome {
        let m: Option<usize> = if (0..16).contains(&n) { Some(n as usize) } else { None };
        let mut toks: Vec<TokV> = vec![];
        let mut depth: i64 = 0; // align_state - 1000000
        let mut nlines = 0;
        let mut from_file = false;
        let mut more_lines = false;
        let mut was_aborted = false;
        loop {
            // one line into a scanner of its own (state new_line)
            let open = m.map(|m| self.streams[m].is_some()).unwrap_or(false);
            let mut line: Source;
            if !open {
                // §484 input from the terminal
                if self.terminal_pos >= self.terminal.len() {
                    return ReadOutcome::TerminalExhausted;
                }
                self.read_from_terminal = true;
                let text = self.terminal[self.terminal_pos].clone();
                self.terminal_pos += 1;
                line = Source::new(&text);
                if text.is_empty() {
                    // an empty terminal line is still a line
                    line = Source::new("\n");
                }
                line.start_next_line(self.cfg.end_line_char);
            } else {
                let m = m.unwrap();
                let s = self.streams[m].as_mut().unwrap();
                if s.src.has_more_lines() {
                    s.src.start_next_line(self.cfg.end_line_char);
                    line = s.src.clone();
                    from_file = true;
                    more_lines = s.src.has_more_lines();
                    if self.eof == Eof::ClosesWithLastLine && !s.src.has_more_lines() {
                        self.streams[m] = None;
                    }
                } else {
                    // §485/§486: input_ln failed: close; the line is empty
                    debug_assert!(self.eof == Eof::Tex);
                    self.streams[m] = None;
                    if depth != 0 {
                        return ReadOutcome::FileEndedInGroup;
                    }
                    self.read_appended_empty_line = true;
                    line = Source::new("\n");
                    line.start_next_line(self.cfg.end_line_char);
                }
            }
            nlines += 1;
            if nlines > 1 {
                self.read_spanned_lines = true;
            }
            // §486: loop get_token; if cur_tok=0 then goto done; if align_state<1000000 then <skip the rest>
            let mut aborted = false;
            while let Some(i) = line.next_in_line(&self.cfg) {
                let t = match i {
                    Item::Tok(t) => t.v,
                    _ => continue,
                };
                match t {
                    TokV::Ch(_, scan::LEFT_BRACE) => depth += 1,
                    TokV::Ch(_, scan::RIGHT_BRACE) => {
                        if depth == 0 {
                            // unmatched `}' aborts the line
                            self.unmatched_right_brace = true;
                            aborted = true;
                            break;
                        }
                        depth -= 1;
                    }
                    _ => {}
                }
                toks.push(t);
            }
            if aborted || depth == 0 {
                was_aborted = aborted;
                break;
            }
            if self.eof == Eof::ClosesWithLastLine && open && m.map(|m| self.streams[m].is_none()).unwrap_or(false) {
                // D14b variant: the stream was closed with its last line while a group is open
                return ReadOutcome::FileEndedInGroup;
            }
        }
        if from_file && more_lines {
            if was_aborted {
                self.unmatched_brace_then_more_lines = true;
            } else if toks.iter().any(|t| matches!(t, TokV::Ch(_, scan::LEFT_BRACE))) {
                if nlines == 1 {
                    self.group_line_then_more_lines = true;
                } else {
                    self.multiline_group_then_more_lines = true;
                }
            }
        }
        ReadOutcome::Toks(toks)
    }
}

pub fn show_toks(t: &[TokV]) -> String {
    t.iter().map(|x| format!("[{}]", x.exact())).collect()
}

#[cfg(test)]
mod tests {
    use super::*;
    use crate::scan::Table;
    fn cfg() -> Config {
        Config { table: Table::plain(), end_line_char: Some('\r'), hex: true }
    }
    #[test]
    fn endinput_modes() {
        let mut files = BTreeMap::new();
        files.insert("b".to_string(), "B1\nB2\n".to_string());
        let r = run_input(&files, "x\\endinput y\\input b z\nnext\n", &cfg(), EndInput::TexGlobalFlag);
        assert_eq!(r.out, "xyB1 z next ");
        assert!(r.endinput_with_rest && r.force_eof_closed_other_file);
        let r = run_input(&files, "x\\endinput y\\input b z\nnext\n", &cfg(), EndInput::PerSourceDropLine);
        assert_eq!(r.out, "x");
    }
    #[test]
    fn read_modes() {
        let mut m = ReadMachine::new(cfg(), Eof::Tex, &[]);
        m.openin(0, Some("a\nb"));
        assert_eq!(m.read(0), ReadOutcome::Toks(vec![TokV::Ch('a', 11), TokV::Ch(' ', 10)]));
        assert_eq!(m.read(0), ReadOutcome::Toks(vec![TokV::Ch('b', 11), TokV::Ch(' ', 10)]));
        assert!(!m.ifeof(0));
        assert_eq!(m.read(0), ReadOutcome::Toks(vec![TokV::Cs("par".into())]));
        assert!(m.ifeof(0));
    }
}
