//! Hyphenation by definition: tex.web part 40 (pre-hyphenation, §891-899), part 41 (§900-918, only the
//! parts that decide *where* hyphens go), part 42 (Liang patterns, §919-931) and part 43 (reading
//! `\patterns` and `\hyphenation`, §934-965). Nothing here is a trie: patterns are matched against
//! `.word.` at every alignment, which is the definition the packed trie of §920-923 implements.
//!
//! Conventions: a *position* `p` of a word with `n` letters means "a hyphen may go after the p-th
//! letter" (`hyf[p]` odd in §902/§923), `1 <= p <= n-1`. Letters are `char`s; the lower-case map of TeX
//! (`lc_code`, 0 = not a letter) is a caller-supplied function `lc(c) -> Option<char>`.

/// `lc_code` of plain TeX restricted to ASCII: letters map to their lower-case form, everything else
/// is a non-letter (code 0).
pub fn ascii_lc(c: char) -> Option<char> {
    if c.is_ascii_alphabetic() {
        Some(c.to_ascii_lowercase())
    } else {
        None
    }
}

/// §1091 `norm_min`: `\lefthyphenmin` / `\righthyphenmin` are clamped to 1..=63 when a language is
/// selected.
pub fn norm_min(h: i64) -> usize {
    if h <= 0 {
        1
    } else if h >= 64 {
        63
    } else {
        h as usize
    }
}

// ---------------------------------------------------------------------------------------------------
// Patterns (§919-923, §960-963)

/// The edge-of-word delimiter inside a pattern key (`hc[0] = hc[hn+1] = 0` in §923, "." in §962).
pub const EDGE: char = '.';

/// One pattern: the letter string `key` (lower-cased; `EDGE` for ".") and the digit in each of the
/// `key.len() + 1` slots (slot k = between `key[k-1]` and `key[k]`).
#[derive(Clone, Debug, PartialEq, Eq)]
pub struct Pattern {
    pub key: Vec<char>,
    pub digits: Vec<u8>,
}

#[derive(Clone, Debug, PartialEq, Eq)]
pub enum PatternError {
    /// §962 "Nonletter": a character with `lc_code = 0`, which includes a digit that directly follows
    /// a digit (`digit_sensed` is still true, so it is looked up as a letter).
    Nonletter(char),
    /// no letter at all (§961: `if k>0 then <insert a new pattern>`)
    Empty,
    /// more than 63 letters: §962 ignores what does not fit (`if k<63`), the result is another pattern
    TooLong,
    /// §963 "Duplicate pattern": the same letter string was entered before
    Duplicate,
}

/// §962: scan one pattern. A digit sets `hyf[k]` where `k` is the number of letters seen so far;
/// "." is the letter 0; other characters go through `lc_code`. §963: digits outside the edge
/// delimiters are cleared (`if hc[1]=0 then hyf[0]:=0; if hc[k]=0 then hyf[k]:=0`).
pub fn parse_pattern(text: &str, lc: &dyn Fn(char) -> Option<char>) -> Result<Pattern, PatternError> {
    let mut key: Vec<char> = vec![];
    let mut digits: Vec<u8> = vec![0];
    let mut digit_sensed = false;
    for c in text.chars() {
        if !digit_sensed && c.is_ascii_digit() {
            *digits.last_mut().unwrap() = c as u8 - b'0';
            digit_sensed = true;
        } else {
            let l = if c == '.' { EDGE } else { lc(c).ok_or(PatternError::Nonletter(c))? };
            if key.len() >= 63 {
                return Err(PatternError::TooLong);
            }
            key.push(l);
            digits.push(0);
            digit_sensed = false;
        }
    }
    if key.is_empty() {
        return Err(PatternError::Empty);
    }
    if key[0] == EDGE {
        digits[0] = 0;
    }
    if *key.last().unwrap() == EDGE {
        *digits.last_mut().unwrap() = 0;
    }
    Ok(Pattern { key, digits })
}

/// Scores of one pattern on one (lower-cased) word: `out[p]` for `p in 0..=n` is the largest digit the
/// pattern puts between letter `p` and letter `p+1` over all alignments in `.word.` (0 = none).
pub fn pattern_scores(p: &Pattern, word: &[char]) -> Vec<u8> {
    let n = word.len();
    let mut out = vec![0u8; n + 1];
    // dotted[0] = EDGE, dotted[1..=n] = word, dotted[n+1] = EDGE  (§923: hc[0]:=0; hc[hn+1]:=0)
    let dotted = |i: usize| -> char {
        if i == 0 || i == n + 1 {
            EDGE
        } else {
            word[i - 1]
        }
    };
    let len = p.key.len();
    if len > n + 2 {
        return out;
    }
    for s in 0..=(n + 2 - len) {
        if (0..len).all(|k| dotted(s + k) == p.key[k]) {
            // slot k of the pattern sits before dotted[s+k], i.e. after word letter number s+k-1
            for (k, d) in p.digits.iter().enumerate() {
                let before = s + k; // index into dotted
                if before >= 1 && before - 1 <= n {
                    let pos = before - 1;
                    if out[pos] < *d {
                        out[pos] = *d;
                    }
                }
            }
        }
    }
    out
}

// ---------------------------------------------------------------------------------------------------
// Exceptions (§934-940)

/// One `\hyphenation` entry: lower-cased letters and the listed positions (hyphen after that many letters).
#[derive(Clone, Debug, PartialEq, Eq)]
pub struct Exception {
    pub letters: Vec<char>,
    pub positions: Vec<usize>,
}

/// §935-938: letters go through `lc_code`, "-" records the current letter count. A non-letter is an
/// error in TeX ("Not a letter", the character is skipped): reported as `None` here.
pub fn parse_exception(text: &str, lc: &dyn Fn(char) -> Option<char>) -> Option<Exception> {
    let mut letters = vec![];
    let mut positions = vec![];
    for c in text.chars() {
        if c == '-' {
            if letters.len() < 63 && !positions.contains(&letters.len()) {
                positions.push(letters.len());
            }
        } else {
            let l = lc(c)?;
            if letters.len() < 63 {
                letters.push(l);
            }
        }
    }
    Some(Exception { letters, positions })
}

// ---------------------------------------------------------------------------------------------------
// A language: patterns + exceptions

#[derive(Clone, Debug, Default)]
pub struct Liang {
    pub patterns: Vec<Pattern>,
    pub exceptions: Vec<Exception>,
    /// Finding D11 switch: when true an exception does not pre-empt the patterns (§930-931) but acts
    /// as one more pattern `.word.` with digit 7 at the listed positions and 6 in every other slot.
    pub exceptions_as_patterns: bool,
}

impl Liang {
    pub fn new() -> Liang {
        Liang::default()
    }
    /// §963. A duplicate letter string is reported and *not* entered.
    pub fn add_pattern(&mut self, text: &str, lc: &dyn Fn(char) -> Option<char>) -> Result<(), PatternError> {
        let p = parse_pattern(text, lc)?;
        if self.patterns.iter().any(|q| q.key == p.key) {
            return Err(PatternError::Duplicate);
        }
        self.patterns.push(p);
        Ok(())
    }
    /// Whitespace-separated patterns; returns the errors.
    pub fn add_patterns(&mut self, text: &str, lc: &dyn Fn(char) -> Option<char>) -> Vec<(String, PatternError)> {
        let mut errs = vec![];
        for w in text.split_whitespace() {
            if let Err(e) = self.add_pattern(w, lc) {
                errs.push((w.to_string(), e));
            }
        }
        errs
    }
    /// §939-940: entries with fewer than two letters are not entered (`if n>1`); a later entry for the
    /// same letters is found first by §931 (§941 swaps equal strings so that the newer one comes first).
    pub fn add_exception(&mut self, text: &str, lc: &dyn Fn(char) -> Option<char>) -> bool {
        match parse_exception(text, lc) {
            Some(e) => {
                if e.letters.len() > 1 {
                    self.exceptions.push(e);
                }
                true
            }
            None => false,
        }
    }
    pub fn exception_for(&self, word_lc: &[char]) -> Option<&Exception> {
        self.exceptions.iter().rev().find(|e| e.letters == word_lc)
    }
    /// §923: `hyf[0..=n]` from the patterns alone.
    pub fn pattern_scores(&self, word_lc: &[char]) -> Vec<u8> {
        let mut out = vec![0u8; word_lc.len() + 1];
        for p in &self.patterns {
            for (o, s) in out.iter_mut().zip(pattern_scores(p, word_lc)) {
                if *o < s {
                    *o = s;
                }
            }
        }
        out
    }
    /// §923 + §930-931: the `hyf` array before the minima are applied: the exception entry if there is
    /// one, else the pattern maxima.
    pub fn hyf(&self, word_lc: &[char]) -> Vec<u8> {
        let n = word_lc.len();
        match self.exception_for(word_lc) {
            Some(e) if !self.exceptions_as_patterns => {
                let mut out = vec![0u8; n + 1];
                for p in &e.positions {
                    out[*p] = 1;
                }
                out
            }
            Some(e) => {
                let mut out = self.pattern_scores(word_lc);
                for (p, o) in out.iter_mut().enumerate() {
                    let d = if e.positions.contains(&p) { 7 } else { 6 };
                    if *o < d {
                        *o = d;
                    }
                }
                out
            }
            None => self.pattern_scores(word_lc),
        }
    }
    /// Positions where a hyphen is permitted (§902: `l_hyf <= j <= hn - r_hyf` and `hyf[j]` odd; §923
    /// clears everything outside that range). `word` may be in any case; `None` if it contains a
    /// non-letter (such a string is never a word, §897).
    pub fn positions(&self, word: &[char], lc: &dyn Fn(char) -> Option<char>, l_hyf: usize, r_hyf: usize) -> Option<Vec<usize>> {
        let w: Option<Vec<char>> = word.iter().map(|c| lc(*c)).collect();
        let w = w?;
        let n = w.len();
        let hyf = self.hyf(&w);
        Some((l_hyf.max(1)..n).filter(|j| *j + r_hyf.max(1) <= n && hyf[*j] % 2 == 1).collect())
    }
}

/// TeX's own restriction on top of Liang (§909 + §913-916): `reconstitute` records only the *first*
/// odd position it passes while a ligature is being built (`hyphen_passed`, after which `hchar`
/// becomes `non_char`), and the branch after the break is rebuilt with `hchar = non_char`, so later
/// odd positions strictly inside the same reconstituted ligature are never offered.
/// `ligs` are the letter spans `[a, b)` of the word's multi-letter ligatures; a position `p` is
/// strictly inside when `a < p < b`.
pub fn first_odd_per_ligature(positions: &[usize], ligs: &[(usize, usize)]) -> Vec<usize> {
    let mut out = vec![];
    for &p in positions {
        match ligs.iter().find(|(a, b)| *a < p && p < *b) {
            Some((a, _)) => {
                if !positions.iter().any(|&q| *a < q && q < p) {
                    out.push(p);
                }
            }
            None => out.push(p),
        }
    }
    out
}

// ---------------------------------------------------------------------------------------------------
// The word finder (§894-899)

/// A horizontal-list node as far as §894-899 look at it.
#[derive(Clone, Debug, PartialEq, Eq)]
pub enum Node {
    Char { c: char, font: u32 },
    /// `orig` = the characters of `lig_ptr`; `subtype` = 2*left_boundary + right_boundary (§143)
    Lig { orig: Vec<char>, font: u32, left_boundary: bool, right_boundary: bool },
    /// `normal` = a font kern (subtype 0); explicit / accent / math kerns are not
    Kern { normal: bool },
    Whatsit,
    Glue,
    Penalty,
    Ins,
    Adjust,
    Mark,
    /// hlist, vlist, rule, disc, math ("othercases" of §899)
    Other,
}

/// `hyf_bchar` at the end of §897.
#[derive(Clone, Copy, Debug, PartialEq, Eq)]
pub enum Bchar {
    NonChar,
    /// `font_bchar[hf]` (which may itself be `non_char`)
    Font,
    Char(char),
}

#[derive(Clone, Debug, PartialEq, Eq)]
pub struct Word {
    /// index of the glue node the search started from (`cur_p`)
    pub glue: usize,
    /// index of `ha`: the node *before* the first letter node (§896: `ha:=prev_s`)
    pub ha: usize,
    /// index of the last node that belongs to the word (`hb`, §897: a letter node, or a font kern /
    /// letterless ligature that follows one)
    pub hb: usize,
    pub font: u32,
    /// `hu[1..=hn]`, as found (not lower-cased)
    pub letters: Vec<char>,
    pub bchar: Bchar,
}

pub struct FinderParams<'a> {
    pub lc: &'a dyn Fn(char) -> Option<char>,
    /// `\uchyph > 0`
    pub uc_hyph: bool,
    pub l_hyf: usize,
    pub r_hyf: usize,
    /// `\hyphenchar` of the font is in 0..=255 (§891: otherwise `goto done1`)
    pub hyphen_char_ok: &'a dyn Fn(u32) -> bool,
}

/// §894-899 started at the glue node `list[glue]`: the word TeX will try to hyphenate, if any.
pub fn find_word(list: &[Node], glue: usize, fp: &FinderParams) -> Option<Word> {
    debug_assert!(matches!(list[glue], Node::Glue));
    // §894: prev_s:=cur_p; s:=link(prev_s)
    let mut prev_s = glue;
    let mut s = glue + 1;
    // §896: skip to node ha, or goto done1 if no hyphenation should be attempted
    let hf: u32;
    loop {
        let node = list.get(s)?; // s = null: nothing to do
        let c: char;
        let f: u32;
        match node {
            Node::Char { c: ch, font } => {
                c = *ch;
                f = *font;
            }
            Node::Lig { orig, font, .. } => {
                if orig.is_empty() {
                    prev_s = s;
                    s += 1;
                    continue;
                }
                c = orig[0];
                f = *font;
            }
            Node::Kern { normal: true } => {
                prev_s = s;
                s += 1;
                continue;
            }
            Node::Whatsit => {
                prev_s = s;
                s += 1;
                continue;
            }
            _ => return None, // done1
        }
        if let Some(l) = (fp.lc)(c) {
            if l == c || fp.uc_hyph {
                hf = f;
                break; // done2
            }
            return None;
        }
        prev_s = s;
        s += 1;
    }
    // done2
    if !(fp.hyphen_char_ok)(hf) {
        return None;
    }
    let ha = prev_s;
    // §894
    if fp.l_hyf + fp.r_hyf > 63 {
        return None;
    }
    // §897: skip to node hb, putting letters into hu
    let mut letters: Vec<char> = vec![];
    let mut hb = ha;
    let mut bchar = Bchar::NonChar; // never read before it is set: the first node is a letter node
    'outer: loop {
        let Some(node) = list.get(s) else { break };
        match node {
            Node::Char { c, font } => {
                if *font != hf {
                    break;
                }
                bchar = Bchar::Char(*c);
                if (fp.lc)(*c).is_none() {
                    break;
                }
                if letters.len() == 63 {
                    break;
                }
                hb = s;
                letters.push(*c);
                bchar = Bchar::NonChar;
            }
            Node::Lig { orig, font, right_boundary, .. } => {
                // §898
                if *font != hf {
                    break;
                }
                if let Some(c) = orig.first() {
                    bchar = Bchar::Char(*c);
                }
                let mut j = letters.len();
                for c in orig {
                    if (fp.lc)(*c).is_none() {
                        break 'outer;
                    }
                    if j == 63 {
                        break 'outer;
                    }
                    j += 1;
                }
                letters.extend(orig.iter().copied());
                hb = s;
                bchar = if *right_boundary { Bchar::Font } else { Bchar::NonChar };
            }
            Node::Kern { normal: true } => {
                hb = s;
                bchar = Bchar::Font;
            }
            _ => break,
        }
        s += 1;
    }
    // §899: check that the nodes following hb permit hyphenation and that at least
    // l_hyf + r_hyf letters have been found
    if letters.len() < fp.l_hyf + fp.r_hyf {
        return None;
    }
    loop {
        let Some(node) = list.get(s) else { break }; // end of the list: TeX's lists end with glue/penalty; treated as done4
        match node {
            Node::Char { .. } | Node::Lig { .. } => {}
            Node::Kern { normal } => {
                if !*normal {
                    break;
                }
            }
            Node::Whatsit | Node::Glue | Node::Penalty | Node::Ins | Node::Adjust | Node::Mark => break,
            Node::Other => return None,
        }
        s += 1;
    }
    Some(Word { glue, ha, hb, font: hf, letters, bchar })
}

/// Every word TeX tries in `list`: one search per glue node (§866 calls §894 at each glue node of the
/// paragraph during the second pass).
pub fn words(list: &[Node], fp: &FinderParams) -> Vec<Word> {
    (0..list.len()).filter(|i| matches!(list[*i], Node::Glue)).filter_map(|g| find_word(list, g, fp)).collect()
}

#[cfg(test)]
mod tests {
    use super::*;

    fn pos(patterns: &str, exceptions: &[&str], word: &str) -> Vec<usize> {
        let mut l = Liang::new();
        assert!(l.add_patterns(patterns, &ascii_lc).is_empty());
        for e in exceptions {
            l.add_exception(e, &ascii_lc);
        }
        l.positions(&word.chars().collect::<Vec<_>>(), &ascii_lc, 1, 1).unwrap()
    }

    #[test]
    fn by_definition() {
        assert_eq!(pos("a1b", &[], "ab"), vec![1]);
        assert_eq!(pos("a1b a2b.", &[], "ab"), Vec::<usize>::new());
        assert_eq!(pos("a1b a2b.", &[], "abab"), vec![1]);
        assert_eq!(pos(".a1b", &[], "abab"), vec![1]);
        assert_eq!(pos("1a", &[], "aaa"), vec![1, 2]);
        assert_eq!(pos("a9b", &["ab"], "AB"), Vec::<usize>::new());
        assert_eq!(pos("", &["a-b-a"], "ABA"), vec![1, 2]);
    }

    #[test]
    fn finder() {
        let fp = FinderParams { lc: &ascii_lc, uc_hyph: true, l_hyf: 1, r_hyf: 1, hyphen_char_ok: &|_| true };
        let ch = |c| Node::Char { c, font: 0 };
        let l = vec![ch('x'), Node::Glue, ch('3'), ch('.'), ch('0'), Node::Glue, ch('a'), ch('b'), ch('.')];
        let w = words(&l, &fp);
        assert_eq!(w.len(), 1);
        assert_eq!((w[0].ha, w[0].hb, w[0].bchar), (5, 7, Bchar::Char('.')));
        assert_eq!(w[0].letters, vec!['a', 'b']);
    }
}
