//! Hyphenation by definition: tex.web part 40 (pre-hyphenation, §891-899), part 41 (§900-918, only the
//! parts that decide *where* hyphens go), part 42 (Liang patterns, §919-931) and part 43 (reading
//! `\patterns` and `\hyphenation`, §934-965). Nothing here is a trie: patterns are matched against
//! `.word.` at every alignment, which is the definition the packed trie of §920-923 implements.
//!
//! Conventions: a *position* `p` of a word with `n` letters means "a hyphen may go after the p-th
//! letter" (`hyf[p]` odd in §902/§923), `1 <= p <= n-1`. Letters are `char`s; the lower-case map of TeX
//! (`lc_code`, 0 = not a letter) is a caller-supplied function `lc(c) -> Option<char>`.

/// `lc_code` of plain TeX restricted to ASCII: letters map to their lower-case form, everything else
/// is a non-letter (code 0).
pub fn ascii_lc(c: char) -> Option<char> {
    if c.is_ascii_alphabetic() {
        Some(c.to_ascii_lowercase())
    } else {
        None
    }
}

/// §1091 `norm_min`: `\lefthyphenmin` / `\righthyphenmin` are clamped to 1..=63 when a language is
/// selected.
pub fn norm_min(h: i64) -> usize {
    if h <= 0 {
        1
    } else if h >= 64 {
        63
    } else {
        h as usize
    }
}

// ---------------------------------------------------------------------------------------------------
// Patterns (§919-923, §960-963)

/// The edge-of-word delimiter inside a pattern key (`hc[0] = hc[hn+1] = 0` in §923, "." in §962).
pub const EDGE: char = '.';

/// One pattern: the letter string `key` (lower-cased; `EDGE` for ".") and the digit in each of the
/// `key.len() + 1` slots (slot k = between `key[k-1]` and `key[k]`).
#[derive(Clone, Debug, PartialEq, Eq)]
pub struct Pattern {
    pub key: Vec<char>,
    pub digits: Vec<u8>,
}

#[derive(Clone, Debug, PartialEq, Eq)]
pub enum PatternError {
    /// §962 "Nonletter": a character with `lc_code = 0`, which includes a digit that directly follows
    /// a digit (`digit_sensed` is still true, so it is looked up as a letter).
    Nonletter(char),
    /// no letter at all (§961: `if k>0 then <insert a new pattern>`)
    Empty,
    /// more than 63 letters: §962 ignores what does not fit (`if k<63`), the result is another pattern
    TooLong,
    /// §963 "Duplicate pattern": the same letter string was entered before
    Duplicate,
}

/// §962: scan one pattern. A digit sets `hyf[k]` where `k` is the number of letters seen so far;
/// "." is the letter 0; other characters go through `lc_code`. §963: digits outside the edge
/// delimiters are cleared (`if hc[1]=0 then hyf[0]:=0; if hc[k]=0 then hyf[k]:=0`).
pub fn parse_pattern(text: &str, lc: &dyn Fn(char) -> Option<char>) -> Result<Pattern, PatternError> {
    let mut key: Vec<char> = vec![];
    let mut digits: Vec<u8> = vec![0];
    let mut digit_sensed = false;
    for c in text.chars() {
        if !digit_sensed && c.is_ascii_digit() {
            *digits.last_mut().unwrap() = c as u8 - b'0';
            digit_sensed = true;
        } else {
            let l = if c == '.' { EDGE } else { lc(c).ok_or(PatternError::Nonletter(c))? };
            if key.len() >= 63 {
                return Err(PatternError::TooLong);
            }
            key.push(l);
            digits.push(0);
            digit_sensed = false;
        }
    }
    if key.is_empty() {
        return Err(PatternError::Empty);
    }
    if key[0] == EDGE {
        digits[0] = 0;
    }
    if *key.last().unwrap() == EDGE {
        *digits.last_mut().unwrap() = 0;
    }
    Ok(Pattern { key, digits })
}

/// Scores of one pattern on one (lower-cased) word: `out[p]` for `p in 0..=n` is the largest digit the
/// pattern puts between letter `p` and letter `p+1` over all alignments in `.word.` (0 = none).
pub fn pattern_scores(p: &Pattern, word: &[char]) -> Vec<u8> {
    let n = word.len();
    let mut out = vec![0u8; n + 1];
    // dotted[0] = EDGE, dotted[1..=n] = word, dotted[n+1] = EDGE  (§923: hc[0]:=0; hc[hn+1]:=0)
    let dotted = |i: usize| -> char {
        if i == 0 || i == n + 1 {
            EDGE
        } else {
            word[i - 1]
        }
    };
    let len = p.key.len();
    if len > n + 2 {
        return out;
    }
    for s in 0..=(n + 2 - len) {
        if (0..len).all(|k| dotted(s + k) == p.key[k]) {
            // slot k of the pattern sits before dotted[s+k], i.e. after word letter number s+k-1
            for (k, d) in p.digits.iter().enumerate() {
                let before = s + k; // index into dotted
                if before >= 1 && before - 1 <= n {
                    let pos = before - 1;
                    if out[pos] < *d {
                        out[pos] = *d;
                    }
                }
            }
        }
    }
    out
}

// ---------------------------------------------------------------------------------------------------
// Exceptions (§934-940)

/// One `\hyphenation` entry: lower-cased letters and the listed positions (hyphen after that many letters).
#[derive(Clone, Debug, PartialEq, Eq)]
pub struct Exception {
    pub letters: Vec<char>,
    pub positions: Vec<usize>,
}

/// §935-938: letters go through `lc_code`, "-" records the current letter count. A non-letter is an
/// error in TeX ("Not a letter", the character is skipped): reported as `None` here.
pub fn parse_exception(text: &str, lc: &dyn Fn(char) -> Option<char>) -> Option<Exception> {
    let mut letters = vec![];
    let mut positions = vec![];
    for c in text.chars() {
        if c == '-' {
            if letters.len() < 63 && !positions.contains(&letters.len()) {
                positions.push(letters.len());
            }
        } else {
            let l = lc(c)?;
            if letters.len() < 63 {
                letters.push(l);
            }
        }
    }
    Some(Exception { letters, positions })
}

// ---------------------------------------------------------------------------------------------------
// A language: patterns + exceptions

#[derive(Clone, Debug, Default)]
pub struct Liang {
    pub patterns: Vec<Pattern>,
    pub exceptions: Vec<Exception>,
    /// Finding D11 switch: when true an exception does not pre-empt the patterns (§930-931) but acts
    /// as one more pattern `.word.` with digit 7 at the listed positions and 6 in every other slot.
    pub exceptions_as_patterns: bool,
}

impl Liang {
    pub fn new() -> Liang {
        Liang::default()
    }
    /// §963. A duplicate letter string is reported and *not* entered.
    pub fn add_pattern(&mut self, text: &str, lc: &dyn Fn(char) -> Option<char>) -> Result<(), PatternError> {
        let p = parse_pattern(text, lc)?;
        if self.patterns.iter().any(|q| q.key == p.key) {
            return Err(PatternError::Duplicate);
        }
        self.patterns.push(p);
        Ok(())
    }
    /// Whitespace-separated patterns; returns the errors.
    pub fn add_patterns(&mut self, text: &str, lc: &dyn Fn(char) -> Option<char>) -> Vec<(String, PatternError)> {
        let mut errs = vec![];
        for w in text.split_whitespace() {
            if let Err(e) = self.add_pattern(w, lc) {
                errs.push((w.to_string(), e));
            }
        }
        errs
    }
    /// §939-940: entries with fewer than two letters are not entered (`if n>1`); a later entry for the
    /// same letters is found first by §931 (§941 swaps equal strings so that the newer one comes first).
    pub fn add_exception(&mut self, text: &str, lc: &dyn Fn(char) -> Option<char>) -> bool {
        match parse_exception(text, lc) {
            Some(e) => {
                if e.letters.len() > 1 {
                    self.exceptions.push(e);
                }
                true
            }
            None => false,
        }
    }
    pub fn exception_for(&self, word_lc: &[char]) -> Option<&Exception> {
        self.exceptions.iter().rev().find(|e| e.letters == word_lc)
    }
    /// §923: `hyf[0..=n]` from the patterns alone.
    pub fn pattern_scores(&self, word_lc: &[char]) -> Vec<u8> {
        let mut out = vec![0u8; word_lc.len() + 1];
        for p in &self.patterns {
            for (o, s) in out.iter_mut().zip(pattern_scores(p, word_lc)) {
                if *o < s {
                    *o = s;
                }
            }
        }
        out
    }
    /// §923 + §930-931: the `hyf` array before the minima are applied: the exception entry if there is
    /// one, else the pattern maxima.
    pub fn hyf(&self, word_lc: &[char]) -> Vec<u8> {
        let n = word_lc.len();
        match self.exception_for(word_lc) {
            Some(e) if !self.exceptions_as_patterns => {
                let mut out = vec![0u8; n + 1];
                for p in &e.positions {
                    out[*p] = 1;
                }
                out
            }
            Some(e) => {
                let mut out = self.pattern_scores(word_lc);
                for (p, o) in out.iter_mut().enumerate() {
                    let d = if e.positions.contains(&p) { 7 } else { 6 };
                    if *o < d {
                        *o = d;
                    }
                }
                out
            }
            None => self.pattern_scores(word_lc),
        }
    }
    /// Positions where a hyphen is permitted (§902: `l_hyf <= j <= hn - r_hyf` and `hyf[j]` odd; §923
    /// clears everything outside that range). `word` may be in any case; `None` if it contains a
    /// non-letter (such a string is never a word, §897).
    pub fn positions(&self, word: &[char], lc: &dyn Fn(char) -> Option<char>, l_hyf: usize, r_hyf: usize) -> Option<Vec<usize>> {
        let w: Option<Vec<char>> = word.iter().map(|c| lc(*c)).collect();
        let w = w?;
        let n = w.len();
        let hyf = self.hyf(&w);
        Some((l_hyf.max(1)..n).filter(|j| *j + r_hyf.max(1) <= n && hyf[*j] % 2 == 1).collect())
    }
}

/// TeX's own restriction on top of Liang (§909 + §913-916): `reconstitute` records only the *first*
/// odd position it passes while a ligature is being built (`hyphen_passed`, after which `hchar`
/// becomes `non_char`), and the branch after the break is rebuilt with `hchar = non_char`, so later
/// odd positions strictly inside the same reconstituted ligature are never offered.
/// `ligs` are the letter spans `[a, b)` of the word's multi-letter ligatures; a position `p` is
/// strictly inside when `a < p < b`.
pub fn first_odd_per_ligature(positions: &[usize], ligs: &[(usize, usize)]) -> Vec<usize> {
    let mut out = vec![];
    for &p in positions {
        match ligs.iter().find(|(a, b)| *a < p && p < *b) {
            Some((a, _)) => {
                if !positions.iter().any(|&q| *a < q && q < p) {
                    out.push(p);
                }
            }
            None => out.push(p),
        }
    }
    out
}

// ---------------------------------------------------------------------------------------------------
// The word finder (§894-899)

/// A horizontal-list node as far as §894-899 look at it.
#[derive(Clone, Debug, PartialEq, Eq)]
pub enum Node {
    Char { c: char, font: u32 },
    /// `orig` = the characters of `lig_ptr`; `subtype` = 2*left_boundary + right_boundary (§143)
    Lig { orig: Vec<char>, font: u32, left_boundary: bool, right_boundary: bool },
    /// `normal` = a font kern (subtype 0); explicit / accent / math kerns are not
    Kern { normal: bool },
    Whatsit,
    Glue,
    Penalty,
    Ins,
    Adjust,
    Mark,
    /// hlist, vlist, rule, disc, math ("othercases" of §899)
    Other,
}

/// `hyf_bchar` at the end of §897.
#[derive(Clone, Copy, Debug, PartialEq, Eq)]
pub enum Bchar {
    NonChar,
    /// `font_bchar[hf]` (which may itself be `non_char`)
    Font,
    Char(char),
}

#[derive(Clone, Debug, PartialEq, Eq)]
pub struct Word {
    /// index of the glue node the search started from (`cur_p`)
    pub glue: usize,
    /// index of `ha`: the node *before* the first letter node (§896: `ha:=prev_s`)
    pub ha: usize,
    /// index of the last node that belongs to the word (`hb`, §897: a letter node, or a font kern /
    /// letterless ligature that follows one)
    pub hb: usize,
    pub font: u32,
    /// `hu[1..=hn]`, as found (not lower-cased)
    pub letters: Vec<char>,
    pub bchar: Bchar,
}

pub struct FinderParams<'a> {
    pub lc: &'a dyn Fn(char) -> Option<char>,
    /// `\uchyph > 0`
    pub uc_hyph: bool,
    pub l_hyf: usize,
    pub r_hyf: usize,
    /// `\hyphenchar` of the font is in 0..=255 (§891: otherwise `goto done1`)
    pub hyphen_char_ok: &'a dyn Fn(u32) -> bool,
}

/// §894-899 started at the glue node `list[glue]`: the word TeX will try to hyphenate, if any.
pub fn find_word(list: &[Node], glue: usize, fp: &FinderParams) -> Option<Word> {
    debug_assert!(matches!(list[glue], Node::Glue));
    // §894: prev_s:=cur_p; s:=link(prev_s)
    let mut prev_s = glue;
    let mut s = glue + 1;
    // §896: skip to node ha, or goto done1 if no hyphenation should be attempted
    let hf: u32;
    loop {
        let node = list.get(s)?; // s = null: nothing to do
        let c: char;
        let f: u32;
        match node {
            Node::Char { c: ch, font } => {
                c = *ch;
                f = *font;
            }
            Node::Lig { orig, font, .. } => {
                if orig.is_empty() {
                    prev_s = s;
                    s += 1;
                    continue;
                }
                c = orig[0];
                f = *font;
            }
            Node::Kern { normal: true } => {
                prev_s = s;
                s += 1;
                continue;
            }
            Node::Whatsit => {
                prev_s = s;
                s += 1;
                continue;
            }
            _ => return None, // done1
        }
        if let Some(l) = (fp.lc)(c) {
            if l == c || fp.uc_hyph {
                hf = f;
                break; // done2
            }
            return None;
        }
        prev_s = s;
        s += 1;
    }
    // done2
    if !(fp.hyphen_char_ok)(hf) {
        return None;
    }
    let ha = prev_s;
    // §894
    if fp.l_hyf + fp.r_hyf > 63 {
        return None;
    }
    // §897: skip to node hb, putting letters into hu
    let mut letters: Vec<char> = vec![];
    let mut hb = ha;
    let mut bchar = Bchar::NonChar; // never read before it is set: the first node is a letter node
    'outer: loop {
        let Some(node) = list.get(s) else { break };
        match node {
            Node::Char { c, font } => {
                if *font != hf {
                    break;
                }
                bchar = Bchar::Char(*c);
                if (fp.lc)(*c).is_none() {
                    break;
                }
                if letters.len() == 63 {
                    break;
                }
                hb = s;
                letters.push(*c);
                bchar = Bchar::NonChar;
            }
            Node::Lig { orig, font, right_boundary, .. } => {
                // §898
                if *font != hf {
                    break;
                }
                if let Some(c) = orig.first() {
                    bchar = Bchar::Char(*c);
                }
                let mut j = letters.len();
                for c in orig {
                    if (fp.lc)(*c).is_none() {
                        break 'outer;
                    }
                    if j == 63 {
                        break 'outer;
                    }
                    j += 1;
                }
                letters.extend(orig.iter().copied());
                hb = s;
                bchar = if *right_boundary { Bchar::Font } else { Bchar::NonChar };
            }
            Node::Kern { normal: true } => {
                hb = s;
                bchar = Bchar::Font;
            }
            _ => break,
        }
        s += 1;
    }
    // §899: check that the nodes following hb permit hyphenation and that at least
    // l_hyf + r_hyf letters have been found
    if letters.len() < fp.l_hyf + fp.r_hyf {
        return None;
    }
    loop {
        let Some(node) = list.get(s) else { break }; // end of the list: TeX's lists end with glue/penalty; treated as done4
        match node {
            Node::Char { .. } | Node::Lig { .. } => {}
            Node::Kern { normal } => {
                if !*normal {
                    break;
                }
            }
            Node::Whatsit | Node::Glue | Node::Penalty | Node::Ins | Node::Adjust | Node::Mark => break,
            Node::Other => return None,
        }
        s += 1;
    }
    Some(Word { glue, ha, hb, font: hf, letters, bchar })
}

/// Every word TeX tries in `list`: one search per glue node (§866 calls §894 at each glue node of the
/// paragraph during the second pass).
pub fn words(list: &[Node], fp: &FinderParams) -> Vec<Word> {
    (0..list.len()).filter(|i| matches!(list[*i], Node::Glue)).filter_map(|g| find_word(list, g, fp)).collect()
}

// ---------------------------------------------------------------------------------------------------
// The hyphenation pass itself (§900-918): `hyphenate` and `reconstitute`, transliterated.
//
// This is what decides, for a font with an arbitrary lig/kern program, *which* of the Liang positions
// TeX can offer and what the list looks like afterwards. Lists are `Vec`s instead of linked memory;
// everything else follows the Pascal text statement by statement (section numbers in comments).

/// `non_char` (§549); any value above every character code.
const NON_CHAR: u32 = 0x11_0000;

#[derive(Clone, Debug, PartialEq, Eq)]
pub enum LkOp {
    /// a kern of this many scaled points
    Kern(i64),
    /// `kind` is TeX's `op_byte`: 0 `=:`, 1 `=:|`, 5 `=:|>`, 2 `|=:`, 6 `|=:>`, 3 `|=:|`, 7 `|=:|>`, 11 `|=:|>>`
    Lig { kind: u8, ch: char },
}

/// A lig/kern program as a function (left, right) -> instruction (the first instruction of the left
/// character's program whose `next_char` is `right`, §909). `left = None` is the left boundary program
/// (`bchar_label`); rules "with the right boundary" are rules whose `right` is the font's `bchar`.
#[derive(Clone, Debug, Default)]
pub struct LkFont {
    pub rules: Vec<(Option<char>, char, LkOp)>,
    /// `font_bchar` (§549)
    pub bchar: Option<char>,
}
impl LkFont {
    fn rule(&self, left: u32, right: u32) -> Option<&LkOp> {
        let l = if left == NON_CHAR { None } else { char::from_u32(left) };
        let r = char::from_u32(right)?;
        if left != NON_CHAR && l.is_none() {
            return None;
        }
        self.rules.iter().find(|(a, b, _)| *a == l && *b == r).map(|x| &x.2)
    }
    /// `bchar_label[hf] <> non_address`
    pub fn has_boundary_program(&self) -> bool {
        self.rules.iter().any(|r| r.0.is_none())
    }
}

/// Nodes of a horizontal list as the hyphenation pass sees and produces them.
#[derive(Clone, Debug, PartialEq, Eq)]
pub enum TNode {
    Char(char),
    Lig { ch: char, orig: Vec<char>, left: bool, right: bool },
    /// a font kern (subtype normal)
    Kern(i64),
    /// a discretionary created by the pass; `at` = the hyphen position (`hyphen_passed`) it stands for
    Disc { pre: Vec<TNode>, post: Vec<TNode>, replace: usize, at: usize },
    /// anything else, as the word finder classifies it (glue, penalty, explicit kern, pre-existing disc ...)
    Other(Node),
}
impl TNode {
    pub fn finder_node(&self) -> Node {
        match self {
            TNode::Char(c) => Node::Char { c: *c, font: 0 },
            TNode::Lig { orig, left, right, .. } => Node::Lig { orig: orig.clone(), font: 0, left_boundary: *left, right_boundary: *right },
            TNode::Kern(_) => Node::Kern { normal: true },
            TNode::Disc { .. } => Node::Other,
            TNode::Other(n) => n.clone(),
        }
    }
}

struct Recon<'a> {
    font: &'a LkFont,
    hu: Vec<u32>,
    hyf: Vec<u8>,
    // §900 globals
    init_list: Vec<char>,
    init_lig: bool,
    init_lft: bool,
    hyphen_passed: usize,
    /// the list that starts at `link(hold_head)`
    hold: Vec<TNode>,
}

impl<'a> Recon<'a> {
    /// §905-911. Returns the new `j`; the translation is in `self.hold`, `self.hyphen_passed` is set.
    #[allow(unused_assignments)]
    fn reconstitute(&mut self, mut j: usize, n: usize, mut bchar: u32, mut hchar: u32) -> usize {
        self.hyphen_passed = 0;
        self.hold.clear();
        let mut w: i64 = 0;
        // "at this point ligature_present = lft_hit = rt_hit = false"
        let (mut ligature_present, mut lft_hit, mut rt_hit) = (false, false, false);
        // lig_stack: last element = top; (character, lig_ptr)
        let mut lig_stack: Vec<(u32, Option<u32>)> = vec![];
        let (mut cur_r, mut cur_rh): (u32, u32);
        macro_rules! set_cur_r {
            () => {{
                cur_r = if j < n { self.hu[j + 1] } else { bchar };
                cur_rh = if self.hyf[j] % 2 == 1 { hchar } else { NON_CHAR };
            }};
        }
        macro_rules! push_char {
            ($c:expr) => {
                self.hold.push(TNode::Char(char::from_u32($c).expect("a character code")))
            };
        }
        // §908: set up data structures with the cursor following position j
        let mut cur_l: u32 = self.hu[j];
        let mut cur_q: usize = self.hold.len();
        if j == 0 {
            ligature_present = self.init_lig;
            if ligature_present {
                lft_hit = self.init_lft;
            }
            for c in self.init_list.clone() {
                self.hold.push(TNode::Char(c));
            }
        } else if cur_l < NON_CHAR {
            push_char!(cur_l);
        }
        set_cur_r!();
        // §910 wrap_lig(#)
        macro_rules! wrap_lig {
            ($flag:expr) => {{
                if ligature_present {
                    let orig: Vec<char> = self.hold.split_off(cur_q).into_iter().map(|n| match n {
                        TNode::Char(c) => c,
                        other => panic!("model: non-character inside a ligature's original characters: {other:?}"),
                    }).collect();
                    let mut left = false;
                    let mut right = false;
                    if lft_hit {
                        left = true;
                        lft_hit = false;
                    }
                    if $flag && lig_stack.is_empty() {
                        right = true;
                        rt_hit = false;
                    }
                    self.hold.push(TNode::Lig { ch: char::from_u32(cur_l).expect("ligature character"), orig, left, right });
                    ligature_present = false;
                }
            }};
        }
        macro_rules! pop_lig_stack {
            () => {{
                let (_, ptr) = lig_stack.pop().expect("lig_stack is not empty");
                if let Some(c) = ptr {
                    // "this is a charnode for hu[j+1]"
                    push_char!(c);
                    j += 1;
                }
                if lig_stack.is_empty() {
                    set_cur_r!();
                } else {
                    cur_r = lig_stack.last().unwrap().0;
                }
            }};
        }
        let mut budget = 10_000; // check_interrupt: an infinite ligature loop never ends in TeX
        'cont: loop {
            budget -= 1;
            if budget == 0 {
                panic!("model: infinite ligature loop");
            }
            // §909: if there's a ligature or kern at the cursor position, update the data structures,
            // possibly advancing j; continue until the cursor moves
            'done: {
                let has_program = if cur_l == NON_CHAR { self.font.has_boundary_program() } else { char::from_u32(cur_l).map(|c| self.font.rules.iter().any(|r| r.0 == Some(c))).unwrap_or(false) };
                if !has_program {
                    break 'done;
                }
                let test_char = if cur_rh < NON_CHAR { cur_rh } else { cur_r };
                match self.font.rule(cur_l, test_char).cloned() {
                    Some(op) => {
                        if cur_rh < NON_CHAR {
                            self.hyphen_passed = j;
                            hchar = NON_CHAR;
                            cur_rh = NON_CHAR;
                            continue 'cont;
                        }
                        if hchar < NON_CHAR && self.hyf[j] % 2 == 1 {
                            self.hyphen_passed = j;
                            hchar = NON_CHAR;
                        }
                        match op {
                            LkOp::Kern(k) => {
                                w = k;
                                break 'done;
                            }
                            LkOp::Lig { kind, ch } => {
                                // §911
                                let rem = ch as u32;
                                if cur_l == NON_CHAR {
                                    lft_hit = true;
                                }
                                if j == n && lig_stack.is_empty() {
                                    rt_hit = true;
                                }
                                match kind {
                                    1 | 5 => {
                                        cur_l = rem;
                                        ligature_present = true;
                                    }
                                    2 | 6 => {
                                        cur_r = rem;
                                        if let Some(top) = lig_stack.last_mut() {
                                            top.0 = cur_r;
                                        } else if j == n {
                                            lig_stack.push((cur_r, None));
                                            bchar = NON_CHAR;
                                        } else {
                                            lig_stack.push((cur_r, Some(self.hu[j + 1])));
                                        }
                                    }
                                    3 => {
                                        cur_r = rem;
                                        lig_stack.push((cur_r, None));
                                    }
                                    7 | 11 => {
                                        wrap_lig!(false);
                                        cur_q = self.hold.len();
                                        cur_l = rem;
                                        ligature_present = true;
                                    }
                                    _ => {
                                        cur_l = rem;
                                        ligature_present = true;
                                        if !lig_stack.is_empty() {
                                            pop_lig_stack!();
                                        } else if j == n {
                                            break 'done;
                                        } else {
                                            push_char!(cur_r);
                                            j += 1;
                                            set_cur_r!();
                                        }
                                    }
                                }
                                if kind > 4 && kind != 7 {
                                    break 'done;
                                }
                                continue 'cont;
                            }
                        }
                    }
                    None => {
                        if cur_rh == NON_CHAR {
                            break 'done;
                        }
                        cur_rh = NON_CHAR;
                        continue 'cont;
                    }
                }
            }
            // done: §910 append a ligature and/or kern to the translation
            wrap_lig!(rt_hit);
            if w != 0 {
                self.hold.push(TNode::Kern(w));
                w = 0;
            }
            if !lig_stack.is_empty() {
                cur_q = self.hold.len();
                cur_l = lig_stack.last().unwrap().0;
                ligature_present = true;
                pop_lig_stack!();
                continue 'cont;
            }
            break;
        }
        let _ = (rt_hit, lft_hit, cur_rh);
        j
    }
}

/// Parameters of the pass that are not in the list.
pub struct PassParams<'a> {
    /// §923 + §930-931: the `hyf` array (length n+1, before the minima) of a lower-cased word; normally
    /// `|w| lang.hyf(w)`, a parameter so that callers can memoise it
    pub hyf: &'a dyn Fn(&[char]) -> Vec<u8>,
    pub lc: &'a dyn Fn(char) -> Option<char>,
    pub uc_hyph: bool,
    pub l_hyf: usize,
    pub r_hyf: usize,
    pub hyphen_char: char,
    /// D21 switch: when true the word is always rebuilt with left-boundary processing and nothing
    /// before the first letter is taken into the reconstitution (what the crate does); when false
    /// TeX §903 decides.
    pub always_left_boundary: bool,
    /// D21 switch, second half: when true a word without any permitted hyphen is rebuilt as well
    /// (TeX returns at §902 and leaves the nodes alone).
    pub always_rebuild: bool,
    /// D21b switch: when true a character or ligature node directly before the first letter is not
    /// taken as the left context of the rebuilt word (TeX §903 makes it `hu[0]` with `j = 0`); the word
    /// is rebuilt from its first letter as if a glue or kern preceded it.
    pub ignore_left_context: bool,
    /// Part of the D21b adjusted model: when true a word that ends at a plain letter node (TeX:
    /// `hyf_bchar = non_char`, §897) is rebuilt with the font's boundary character at its right end, as
    /// if a boundary kern or boundary ligature had followed it. Invisible as long as the rebuilt word
    /// equals the original one.
    pub font_bchar_at_word_end: bool,
}

/// §902-903 + §913-918 for one word found by `find_word`. `list` is the whole list; returns the nodes
/// that replace `list[from..=w.hb]` together with `from` (`w.ha` when the node `ha` itself is rebuilt,
/// else `w.ha + 1`), or `None` when TeX leaves the word alone (no odd `hyf` within the minima, §902).
pub fn hyphenate_word(list: &[TNode], w: &Word, font: &LkFont, pp: &PassParams) -> Option<(usize, Vec<TNode>)> {
    let hn = w.letters.len();
    let wl: Vec<char> = w.letters.iter().map(|c| (pp.lc)(*c).expect("a word consists of letters")).collect();
    // §923 (+ §930-931), then the minima
    let mut hyf = (pp.hyf)(&wl);
    for (j, h) in hyf.iter_mut().enumerate() {
        if j < pp.l_hyf || j + pp.r_hyf > hn {
            *h = 0;
        }
    }
    hyf.push(0);
    hyf.push(0);
    // §902: look for an odd hyf[j]
    if !pp.always_rebuild && !(pp.l_hyf..=hn.saturating_sub(pp.r_hyf)).any(|j| hyf[j] % 2 == 1) {
        return None;
    }
    let mut hu: Vec<u32> = vec![0; hn + 3];
    for (k, c) in w.letters.iter().enumerate() {
        hu[k + 1] = *c as u32;
    }
    hu[hn + 1] = NON_CHAR; // never read as a letter: set_cur_r uses bchar when j = n
    let bchar: u32 = match w.bchar {
        Bchar::NonChar if pp.font_bchar_at_word_end => font.bchar.map(|c| c as u32).unwrap_or(NON_CHAR),
        Bchar::NonChar => NON_CHAR,
        Bchar::Font => font.bchar.map(|c| c as u32).unwrap_or(NON_CHAR),
        Bchar::Char(c) => c as u32,
    };
    let mut rc = Recon { font, hu, hyf, init_list: vec![], init_lig: false, init_lft: false, hyphen_passed: 0, hold: vec![] };
    // §903: replace nodes ha..hb by a sequence of nodes that includes the discretionary hyphens
    let ha = &list[w.ha];
    let r = &list[w.ha + 1];
    let from: usize;
    let mut j: usize;
    if pp.always_left_boundary {
        from = w.ha + 1;
        j = 0;
        rc.hu[0] = NON_CHAR;
    } else {
        let no_context = TNode::Other(Node::Glue);
        match if pp.ignore_left_context && !matches!(ha, TNode::Lig { orig, left: true, .. } if orig.is_empty()) { &no_context } else { ha } {
            TNode::Char(c) => {
                // (same font: the model has one font)
                rc.init_list = vec![*c];
                rc.init_lig = false;
                rc.hu[0] = *c as u32;
                from = w.ha;
                j = 0;
            }
            TNode::Lig { ch, orig, left, .. } => {
                rc.init_list = orig.clone();
                rc.init_lig = true;
                rc.init_lft = *left;
                rc.hu[0] = *ch as u32;
                if rc.init_list.is_empty() && rc.init_lft {
                    rc.hu[0] = NON_CHAR;
                    rc.init_lig = false; // in this case a ligature will be reconstructed from scratch
                }
                from = w.ha;
                j = 0;
            }
            _ => {
                // no punctuation found; look for left boundary
                from = w.ha + 1;
                if matches!(r, TNode::Lig { left: true, .. }) {
                    // found2
                    j = 0;
                    rc.hu[0] = NON_CHAR;
                    rc.init_lig = false;
                    rc.init_list = vec![];
                } else {
                    j = 1;
                    rc.init_list = vec![];
                }
            }
        }
    }
    let hyf_char = pp.hyphen_char as u32;
    let font_bchar = font.bchar.map(|c| c as u32).unwrap_or(NON_CHAR);
    let mut out: Vec<TNode> = vec![];
    // §913
    loop {
        let mut l = j;
        j = rc.reconstitute(j, hn, bchar, hyf_char) + 1;
        if rc.hyphen_passed == 0 {
            out.append(&mut rc.hold);
            if rc.hyf[j - 1] % 2 == 1 {
                l = j;
                rc.hyphen_passed = j - 1;
                rc.hold.clear();
            }
        }
        if rc.hyphen_passed > 0 {
            // §914
            loop {
                let mut major: Vec<TNode> = std::mem::take(&mut rc.hold);
                let mut i = rc.hyphen_passed;
                let at = i;
                rc.hyf[i] = 0;
                // §915: put the characters hu[l..i] and a hyphen into pre_break(r)
                let mut pre: Vec<TNode> = vec![];
                i += 1;
                let mut c = rc.hu[i];
                rc.hu[i] = hyf_char;
                while l <= i {
                    l = rc.reconstitute(l, i, font_bchar, NON_CHAR) + 1;
                    pre.append(&mut rc.hold);
                }
                rc.hu[i] = c;
                l = i;
                i -= 1;
                let _ = i;
                // §916: put the characters hu[i+1..] into post_break(r), appending to this list and to
                // major_tail until synchronization has been achieved
                let mut post: Vec<TNode> = vec![];
                let mut c_loc = 0usize;
                if font.has_boundary_program() {
                    l -= 1;
                    c = rc.hu[l];
                    c_loc = l;
                    rc.hu[l] = NON_CHAR;
                }
                while l < j {
                    loop {
                        l = rc.reconstitute(l, hn, bchar, NON_CHAR) + 1;
                        if c_loc > 0 {
                            rc.hu[c_loc] = c;
                            c_loc = 0;
                        }
                        post.append(&mut rc.hold);
                        if l >= j {
                            break;
                        }
                    }
                    while l > j {
                        // §917
                        j = rc.reconstitute(j, hn, bchar, NON_CHAR) + 1;
                        major.append(&mut rc.hold);
                    }
                }
                if c_loc > 0 {
                    // (the loop body did not run: restore the character; TeX leaves hu[c_loc] = 256
                    // here, which is never read again because l = j)
                    rc.hu[c_loc] = c;
                }
                // §918
                if major.len() > 127 {
                    out.append(&mut major);
                } else {
                    out.push(TNode::Disc { pre, post, replace: major.len(), at });
                    out.append(&mut major);
                }
                rc.hyphen_passed = j - 1;
                rc.hold.clear();
                if rc.hyf[j - 1] % 2 == 0 {
                    break;
                }
            }
        }
        if j > hn {
            break;
        }
    }
    Some((from, out))
}

/// The whole pass over a list (§866/§894: one attempt per glue node, left to right).
pub fn hyphenate_list(list: &[TNode], font: &LkFont, pp: &PassParams) -> Vec<TNode> {
    let mut cur: Vec<TNode> = list.to_vec();
    let mut g = 0;
    while g < cur.len() {
        if matches!(cur[g], TNode::Other(Node::Glue)) {
            let nodes: Vec<Node> = cur.iter().map(|n| n.finder_node()).collect();
            // (with the `always_rebuild` switch the length test of §899 is dropped as well)
            let (fl, fr) = if pp.always_rebuild { (0, 0) } else { (pp.l_hyf, pp.r_hyf) };
            let fp = FinderParams { lc: pp.lc, uc_hyph: pp.uc_hyph, l_hyf: fl, r_hyf: fr, hyphen_char_ok: &|_| true };
            if let Some(w) = find_word(&nodes, g, &fp) {
                if let Some((from, new_nodes)) = hyphenate_word(&cur, &w, font, pp) {
                    cur.splice(from..=w.hb, new_nodes);
                }
            }
        }
        g += 1;
    }
    cur
}

/// A run of characters typeset from scratch with left and right boundary processing, by the same
/// cursor machine (`reconstitute` with no hyphens is TeX's main loop §1034-1040 minus the insertion of
/// empty discretionaries after the hyphen character, which the caller adds).
pub fn typeset_run(font: &LkFont, chars: &[char]) -> Vec<TNode> {
    let n = chars.len();
    if n == 0 {
        return vec![];
    }
    let mut hu: Vec<u32> = vec![NON_CHAR; n + 3];
    for (k, c) in chars.iter().enumerate() {
        hu[k + 1] = *c as u32;
    }
    let mut rc = Recon { font, hu, hyf: vec![0; n + 3], init_list: vec![], init_lig: false, init_lft: false, hyphen_passed: 0, hold: vec![] };
    let bchar = font.bchar.map(|c| c as u32).unwrap_or(NON_CHAR);
    let mut out = vec![];
    let mut j = 0;
    loop {
        j = rc.reconstitute(j, n, bchar, NON_CHAR) + 1;
        out.append(&mut rc.hold);
        if j > n {
            break;
        }
    }
    out
}

/// Compact rendering used by the checks: `c:a` character, `l:x<ab>LR` ligature x from "ab" with
/// boundary flags, `k` font kern, `d[pre|post|n]` discretionary, `g` glue, `o` anything else.
pub fn render(list: &[TNode]) -> String {
    list.iter().map(render1).collect::<Vec<_>>().join(" ")
}
fn render1(n: &TNode) -> String {
    match n {
        TNode::Char(c) => format!("c:{c}"),
        TNode::Lig { ch, orig, left, right } => format!("l:{ch}<{}>{}{}", orig.iter().collect::<String>(), if *left { "L" } else { "" }, if *right { "R" } else { "" }),
        TNode::Kern(_) => "k".into(),
        TNode::Disc { pre, post, replace, .. } => format!("d[{}|{}|{}]", render(pre), render(post), replace),
        TNode::Other(Node::Glue) => "g".into(),
        TNode::Other(_) => "o".into(),
    }
}

#[cfg(test)]
mod tests {
    use super::*;

    fn pos(patterns: &str, exceptions: &[&str], word: &str) -> Vec<usize> {
        let mut l = Liang::new();
        assert!(l.add_patterns(patterns, &ascii_lc).is_empty());
        for e in exceptions {
            l.add_exception(e, &ascii_lc);
        }
        l.positions(&word.chars().collect::<Vec<_>>(), &ascii_lc, 1, 1).unwrap()
    }

    #[test]
    fn by_definition() {
        assert_eq!(pos("a1b", &[], "ab"), vec![1]);
        assert_eq!(pos("a1b a2b.", &[], "ab"), Vec::<usize>::new());
        assert_eq!(pos("a1b a2b.", &[], "abab"), vec![1]);
        assert_eq!(pos(".a1b", &[], "abab"), vec![1]);
        assert_eq!(pos("1a", &[], "aaa"), vec![1, 2]);
        assert_eq!(pos("a9b", &["ab"], "AB"), Vec::<usize>::new());
        assert_eq!(pos("", &["a-b-a"], "ABA"), vec![1, 2]);
    }

    /// Three of the crate's TeX-verified cases (crates/boxworks-hyphenate/src/lib.rs: lig_1,
    /// left_boundary_char_1, difficult); the check binary c14 replays all 33.
    #[test]
    fn pass_reproduces_tex() {
        let run = |rules: Vec<(Option<char>, char, LkOp)>, word: &str, exc: &str, l_hyf: usize| -> String {
            let font = LkFont { rules, bchar: None };
            let mut list = typeset_run(&font, &['x']);
            list.push(TNode::Other(Node::Glue));
            list.extend(typeset_run(&font, &word.chars().collect::<Vec<_>>()));
            let mut lang = Liang::new();
            lang.add_exception(exc, &ascii_lc);
            let hyf = |w: &[char]| lang.hyf(w);
            let pp = PassParams { hyf: &hyf, lc: &ascii_lc, uc_hyph: true, l_hyf, r_hyf: 1, hyphen_char: '-', always_left_boundary: false, always_rebuild: false, ignore_left_context: false, font_bchar_at_word_end: false };
            render(&hyphenate_list(&list, &font, &pp)[2..])
        };
        // ab -> axb^   (|=:|>>)
        assert_eq!(run(vec![(Some('a'), 'b', LkOp::Lig { kind: 11, ch: 'x' })], "ab", "a-b", 1), "d[c:a c:-||2] c:a l:x<> c:b");
        // |b -> |c^_   (left boundary, =:)
        assert_eq!(run(vec![(None, 'b', LkOp::Lig { kind: 0, ch: 'c' })], "ab", "a-b", 1), "c:a d[c:-|l:c<b>L|1] c:b");
        // ff -> 0, 0i -> 1
        assert_eq!(
            run(vec![(Some('f'), 'f', LkOp::Lig { kind: 0, ch: '0' }), (Some('0'), 'i', LkOp::Lig { kind: 0, ch: '1' })], "difficult", "d-if-fi-cult", 3),
            "c:d c:i d[c:f c:-|c:f c:i|1] l:1<ffi> d[c:-||0] c:c c:u c:l c:t"
        );
    }

    #[test]
    fn finder() {
        let fp = FinderParams { lc: &ascii_lc, uc_hyph: true, l_hyf: 1, r_hyf: 1, hyphen_char_ok: &|_| true };
        let ch = |c| Node::Char { c, font: 0 };
        let l = vec![ch('x'), Node::Glue, ch('3'), ch('.'), ch('0'), Node::Glue, ch('a'), ch('b'), ch('.')];
        let w = words(&l, &fp);
        assert_eq!(w.len(), 1);
        assert_eq!((w[0].ha, w[0].hb, w[0].bchar), (5, 7, Bchar::Char('.')));
        assert_eq!(w[0].letters, vec!['a', 'b']);
    }
}
