//! C12 reference model: what TeX does between "words and spaces" and "lines of a paragraph".
//!
//! * space factor §1034 and inter-word glue §1041-1044 (`adjust_sf`, `space_glue`, `text_glues`),
//! * the final preparation of the horizontal list by `line_break` §816 (`prepare`),
//! * `post_line_break` §877-890 on an index representation of the list (`post_line_break`),
//! * the glue-setting half of `hpack` §649-664 that `post_line_break` needs (`hpack`),
//! * the model-independent conservation reading of the property (`unbreak`): the lines, read in
//!   order, reproduce the list that was broken when the halves of a taken discretionary are joined
//!   again and only the break item and discardable items after it are re-inserted.
//!
//! Written from tex.web; section numbers are quoted at each step. No /repo types: the check binary
//! converts the real nodes to `Item` (attaching the font metrics of a character, which are input
//! data here) and compares on this side.

use crate::arith;

// ------------------------------------------------------------------------------------------ glue

/// A glue specification §150. Orders: 0 normal, 1 fil, 2 fill, 3 filll.
#[derive(Clone, Copy, Debug, PartialEq, Eq, Default, PartialOrd, Ord, Hash)]
pub struct Spec {
    pub w: i64,
    pub st: i64,
    pub st_o: u8,
    pub sh: i64,
    pub sh_o: u8,
}

impl Spec {
    pub const ZERO: Spec = Spec { w: 0, st: 0, st_o: 0, sh: 0, sh_o: 0 };
    pub fn new(w: i64, st: i64, sh: i64) -> Spec {
        Spec { w, st, st_o: 0, sh, sh_o: 0 }
    }
    /// TeX compares a glue parameter with the *pointer* `zero_glue`; §1229 `trap_zero_glue` makes
    /// every assigned glue whose width, stretch and shrink are all 0 that pointer (whatever the
    /// orders were).
    pub fn is_zero_glue(&self) -> bool {
        self.w == 0 && self.st == 0 && self.sh == 0
    }
    pub fn show(&self) -> String {
        let o = |o: u8| ["", "fil", "fill", "filll"][o as usize & 3];
        let unit = |o: u8| if o == 0 { "pt" } else { "" };
        format!("{}pt plus {}{}{} minus {}{}{}", arith::print_scaled(self.w), arith::print_scaled(self.st), unit(self.st_o), o(self.st_o), arith::print_scaled(self.sh), unit(self.sh_o), o(self.sh_o))
    }
}

// ---------------------------------------------------------------------------------- space factor

/// §1034 `adjust_space_factor`: the space factor after a character whose `\sfcode` is `code`.
pub fn adjust_sf(sf: i64, code: i64) -> i64 {
    if code == 1000 {
        1000
    } else if code < 1000 {
        if code > 0 {
            code
        } else {
            sf
        }
    } else if sf < 1000 {
        1000
    } else {
        code
    }
}

/// IniTeX §232 (`\sfcode` 1000, capitals 999) + plain.tex (`\sfcode`\)=0 `\'=0 `\]=0) +
/// plain.tex `\nonfrenchspacing`.
pub fn plain_sf_code(c: u32) -> i64 {
    match c {
        0x41..=0x5a => 999,
        0x29 | 0x27 | 0x5d => 0,
        0x2e | 0x3f | 0x21 => 3000,
        0x3a => 2000,
        0x3b => 1500,
        0x2c => 1250,
        _ => 1000,
    }
}

/// The font's space glue (§1042: fontdimen 2,3,4) and extra space (fontdimen 7).
#[derive(Clone, Copy, Debug, PartialEq, Eq)]
pub struct FontSpace {
    pub space: Spec,
    pub extra: i64,
}

#[derive(Clone, Copy, Debug, PartialEq, Eq)]
pub struct SfSwitches {
    /// false: the behaviour catalogued as D10b – `\spaceskip` is used unmodified when f ≠ 1000.
    pub scale_spaceskip: bool,
}
impl Default for SfSwitches {
    fn default() -> Self {
        SfSwitches { scale_spaceskip: true }
    }
}

/// §1041 (f = 1000) and §1043-1044 `app_space` (f ≠ 1000): the glue appended for a space token in
/// horizontal mode. `Err` = `xn_over_d` raised `arith_error` (result undefined in TeX).
pub fn space_glue(sf: i64, font: &FontSpace, space_skip: &Spec, xspace_skip: &Spec, sw: SfSwitches) -> Result<Spec, ()> {
    if sf == 1000 {
        // §1041: if space_skip=zero_glue then <font glue> else new_param_glue(space_skip_code)
        return Ok(if space_skip.is_zero_glue() { font.space } else { *space_skip });
    }
    // §1043
    if sf >= 2000 && !xspace_skip.is_zero_glue() {
        return Ok(*xspace_skip);
    }
    let mut g = if !space_skip.is_zero_glue() {
        if !sw.scale_spaceskip {
            return Ok(*space_skip);
        }
        *space_skip
    } else {
        font.space
    };
    // §1044
    if sf >= 2000 {
        g.w += font.extra;
    }
    g.st = arith::xn_over_d(g.st, sf, 1000)?.0;
    g.sh = arith::xn_over_d(g.sh, 1000, sf)?.0;
    Ok(g)
}

/// A text as TeX's scanner delivers it in horizontal mode: words separated by single space tokens
/// (§344-345: a run of blanks is one space token). `leading` = a space token precedes the first word.
#[derive(Clone, Debug, PartialEq, Eq)]
pub struct Words {
    pub leading: bool,
    pub words: Vec<String>,
    pub trailing: bool,
}

/// What separates words: the ASCII white space characters space, tab, line feed, form feed and
/// carriage return (plain TeX: catcode 10 and end of line). Nothing else does: U+000B, U+0085,
/// U+00A0, U+2003, U+2028, U+3000 … are characters of a word like any other.
pub fn is_separator(c: char) -> bool {
    matches!(c, ' ' | '\t' | '\n' | '\x0c' | '\r')
}

pub fn split_words(text: &str) -> Words {
    let words: Vec<String> = text.split(is_separator).filter(|w| !w.is_empty()).map(|w| w.to_string()).collect();
    Words { leading: text.starts_with(is_separator), trailing: text.ends_with(is_separator) && !words.is_empty(), words }
}

/// `got` spells `word` when it is `word` with nothing removed except characters that are not in
/// the font (TeX drops those, §1036 "Missing character"); a character that is in the font must appear.
pub fn spells(word: &str, got: &str, in_font: &dyn Fn(char) -> bool) -> bool {
    let mut g = got.chars().peekable();
    for c in word.chars() {
        if g.peek() == Some(&c) {
            g.next();
        } else if in_font(c) {
            return false;
        }
    }
    g.next().is_none()
}

/// The glue items of the horizontal list built from the text, in order (a paragraph starts with
/// f = 1000, §1091 `norm_min`… `space_factor:=1000`). The glue of a trailing space token is
/// included when `with_trailing` is set; `line_break` removes it again (§816).
pub fn text_glues(t: &Words, sf_code: &dyn Fn(u32) -> i64, font: &FontSpace, space_skip: &Spec, xspace_skip: &Spec, sw: SfSwitches, with_trailing: bool) -> Result<(Vec<Spec>, Vec<i64>), ()> {
    text_glues_fonts(t, sf_code, &|_| *font, space_skip, xspace_skip, sw, with_trailing)
}

/// The same when the current font changes between words: `font_of_word(i)` is the font that is
/// current while word i and the space after it are processed (§1042 takes the glue of a space from
/// `cur_font` at the time of the space token). A leading space is processed in the font of word 0.
pub fn text_glues_fonts(t: &Words, sf_code: &dyn Fn(u32) -> i64, font_of_word: &dyn Fn(usize) -> FontSpace, space_skip: &Spec, xspace_skip: &Spec, sw: SfSwitches, with_trailing: bool) -> Result<(Vec<Spec>, Vec<i64>), ()> {
    let mut sf = 1000i64;
    let mut out = vec![];
    let mut sfs = vec![];
    if t.leading && !t.words.is_empty() {
        out.push(space_glue(sf, &font_of_word(0), space_skip, xspace_skip, sw)?);
        sfs.push(sf);
    }
    for (i, w) in t.words.iter().enumerate() {
        for c in w.chars() {
            sf = adjust_sf(sf, sf_code(c as u32));
        }
        if i + 1 < t.words.len() || (with_trailing && t.trailing) {
            out.push(space_glue(sf, &font_of_word(i), space_skip, xspace_skip, sw)?);
            sfs.push(sf);
        }
    }
    Ok((out, sfs))
}

// ------------------------------------------------------------------------------------- list items

#[derive(Clone, Copy, Debug, PartialEq, Eq, Hash)]
pub enum KernKind {
    Normal,
    Explicit,
    Accent,
    Math,
}

/// An item of a horizontal list. Characters and ligatures carry their metrics (width, height,
/// depth in sp) so that the model never looks at a font.
#[derive(Clone, Debug, PartialEq, Eq, Hash)]
pub enum Item {
    Char { c: u32, font: u32, whd: [i64; 3] },
    Lig { c: u32, font: u32, orig: String, lb: bool, rb: bool, whd: [i64; 3] },
    Glue(Spec),
    Kern { w: i64, kind: KernKind },
    Penalty(i64),
    Disc { pre: Vec<Item>, post: Vec<Item>, replace: usize },
    /// math-on (false) / math-off (true); width 0 in this code base
    Math(bool),
    /// hbox, vbox or rule seen from outside (w, h, d already corrected for the shift)
    Box { whd: [i64; 3], id: String },
    /// anything the check could not convert (never equal to a model item)
    Other(String),
}

impl Item {
    /// §148 + §879: what is deleted at the beginning of a line after a break: glue, penalty, math,
    /// and kerns whose subtype is `explicit` (§879: `if type(q)=kern_node then if
    /// subtype(q)<>explicit then goto done1`).
    pub fn discardable(&self) -> bool {
        match self {
            Item::Glue(_) | Item::Penalty(_) | Item::Math(_) => true,
            Item::Kern { kind, .. } => *kind == KernKind::Explicit,
            _ => false,
        }
    }
    pub fn letters(&self) -> String {
        match self {
            Item::Char { c, .. } => char::from_u32(*c).map(|c| c.to_string()).unwrap_or_default(),
            Item::Lig { orig, .. } => orig.clone(),
            _ => String::new(),
        }
    }
    pub fn show(&self) -> String {
        match self {
            Item::Char { c, .. } => format!("'{}'", char::from_u32(*c).unwrap_or('?')),
            Item::Lig { c, orig, lb, rb, .. } => format!("lig#{c}({}{orig}{})", if *lb { "|" } else { "" }, if *rb { "|" } else { "" }),
            Item::Glue(s) => format!("glue({})", s.show()),
            Item::Kern { w, kind } => format!(
                "kern{}({})",
                match kind {
                    KernKind::Explicit => "!",
                    KernKind::Accent => "^",
                    KernKind::Math => "~",
                    KernKind::Normal => "",
                },
                arith::print_scaled(*w)
            ),
            Item::Penalty(p) => format!("pen({p})"),
            Item::Disc { pre, post, replace } => format!("disc({}|{}|{})", show_list(pre), show_list(post), replace),
            Item::Math(b) => format!("math{}", if *b { "off" } else { "on" }),
            Item::Box { id, .. } => format!("box[{id}]"),
            Item::Other(s) => format!("?{s}"),
        }
    }
}

pub fn show_list(l: &[Item]) -> String {
    l.iter().map(|i| i.show()).collect::<Vec<_>>().join(" ")
}

/// The text a list spells when no discretionary break is taken (pre/post-break material is not part
/// of that reading; the replaced nodes follow the discretionary in the list and are read there).
pub fn spelling(l: &[Item]) -> String {
    l.iter().map(|i| i.letters()).collect()
}

/// The list split at its glue items: the per-word spellings of a list made from text.
pub fn word_spellings(l: &[Item]) -> Vec<String> {
    let mut out = vec![String::new()];
    for i in l {
        if let Item::Glue(_) = i {
            out.push(String::new());
        } else {
            out.last_mut().unwrap().push_str(&i.letters());
        }
    }
    out
}

/// §816: `line_break` removes a final glue item and appends `\penalty10000 \parfillskip`.
pub fn prepare(list: &[Item], par_fill_skip: &Spec) -> Vec<Item> {
    let mut l = list.to_vec();
    if let Some(Item::Glue(_)) = l.last() {
        l.pop();
    }
    l.push(Item::Penalty(10000));
    l.push(Item::Glue(*par_fill_skip));
    l
}

// ----------------------------------------------------------------------------------------- hpack

/// Glue setting of a box §135/§657-664. `sign`: 0 normal, 1 stretching, -1 shrinking. The glue set
/// ratio is `num/den` (TeX stores a float).
#[derive(Clone, Copy, Debug, PartialEq, Eq)]
pub struct GlueSet {
    pub sign: i8,
    pub order: u8,
    pub num: i64,
    pub den: i64,
}

impl GlueSet {
    /// |glue_set| where it has an effect (sign ≠ normal), else 0, as a fraction.
    pub fn magnitude(&self) -> (i64, i64) {
        if self.sign == 0 || self.num == 0 {
            (0, 1)
        } else {
            (self.num.abs(), self.den.abs())
        }
    }
    /// What §186 prints after "glue set": `round(unity*g)` through `print_scaled`.
    pub fn printed(&self) -> String {
        let (n, d) = self.magnitude();
        let v = (2 * n * arith::UNITY + d) / (2 * d);
        arith::print_scaled(v.min(20000 * arith::UNITY))
    }
}

#[derive(Clone, Debug, PartialEq, Eq)]
pub struct Packed {
    pub natural: i64,
    pub height: i64,
    pub depth: i64,
    pub set: GlueSet,
    pub overfull: bool,
    pub underfull_or_loose: bool,
    /// totals by order (stretch, shrink) – lets the caller recognise the domain of C15's defects
    pub total_stretch: [i64; 4],
    pub total_shrink: [i64; 4],
}

/// `hpack(list, w, exactly)` §649-664, without the diagnostics.
pub fn hpack(list: &[Item], w: i64) -> Packed {
    let (mut x, mut h, mut d) = (0i64, 0i64, 0i64);
    let mut ts = [0i64; 4];
    let mut tk = [0i64; 4];
    for it in list {
        match it {
            Item::Char { whd, .. } | Item::Lig { whd, .. } | Item::Box { whd, .. } => {
                // §653-654
                x += whd[0];
                h = h.max(whd[1]);
                d = d.max(whd[2]);
            }
            Item::Glue(g) => {
                // §656
                x += g.w;
                ts[g.st_o as usize & 3] += g.st;
                tk[g.sh_o as usize & 3] += g.sh;
            }
            Item::Kern { w, .. } => x += w, // §651
            Item::Math(_) | Item::Penalty(_) | Item::Disc { .. } | Item::Other(_) => {}
        }
    }
    let natural = x;
    // §657
    let x = w - natural;
    let hi = |t: &[i64; 4]| -> u8 {
        // §659 / §665: the highest order whose total is non-zero
        if t[3] != 0 {
            3
        } else if t[2] != 0 {
            2
        } else if t[1] != 0 {
            1
        } else {
            0
        }
    };
    let mut overfull = false;
    let mut loose = false;
    let set = if x == 0 {
        GlueSet { sign: 0, order: 0, num: 0, den: 1 }
    } else if x > 0 {
        // §658
        let o = hi(&ts);
        if ts[o as usize] != 0 {
            if o == 0 && !list.is_empty() {
                loose = arith::badness(x, ts[0]) > 0; // §660 (reported against \hbadness; informational)
            }
            GlueSet { sign: 1, order: o, num: x, den: ts[o as usize] }
        } else {
            loose = !list.is_empty();
            GlueSet { sign: 0, order: o, num: 0, den: 1 }
        }
    } else {
        // §664
        let o = hi(&tk);
        let mut s = if tk[o as usize] != 0 { GlueSet { sign: -1, order: o, num: -x, den: tk[o as usize] } } else { GlueSet { sign: 0, order: o, num: 0, den: 1 } };
        if tk[o as usize] < -x && o == 0 && !list.is_empty() {
            // overfull: set_glue_ratio_one (the sign stays normal when there was no shrink at all)
            overfull = true;
            s.num = 1;
            s.den = 1;
        }
        s
    };
    Packed { natural, height: h, depth: d, set, overfull, underfull_or_loose: loose, total_stretch: ts, total_shrink: tk }
}

// ------------------------------------------------------------------------------- post_line_break

#[derive(Clone, Debug, PartialEq, Eq)]
pub struct ParParams {
    pub left_skip: Spec,
    pub right_skip: Spec,
    /// width of line i is `widths[min(i, len-1)]` (`\parshape` semantics §849: the last entry repeats)
    pub widths: Vec<i64>,
    /// indent of line i is `indents[min(i, len-1)]`, 0 when empty
    pub indents: Vec<i64>,
    pub inter_line_penalty: i64,
    pub club_penalty: i64,
    pub widow_penalty: i64,
    pub broken_penalty: i64,
}

impl ParParams {
    pub fn width(&self, line: usize) -> i64 {
        self.widths[line.min(self.widths.len() - 1)]
    }
    pub fn indent(&self, line: usize) -> i64 {
        if self.indents.is_empty() {
            0
        } else {
            self.indents[line.min(self.indents.len() - 1)]
        }
    }
}

#[derive(Clone, Copy, Debug, PartialEq, Eq)]
pub struct PlbSwitches {
    /// false: the behaviour catalogued as D10 – only the break item itself is removed, §879 is skipped.
    pub prune: bool,
}
impl Default for PlbSwitches {
    fn default() -> Self {
        PlbSwitches { prune: true }
    }
}

#[derive(Clone, Debug, PartialEq, Eq)]
pub struct Line {
    pub items: Vec<Item>,
    pub width: i64,
    pub shift: i64,
    pub packed: Packed,
    /// penalty appended to the vertical list after this line (§890), if non-zero
    pub penalty_after: Option<i64>,
    /// the penalty sum of §890 even when it is zero (None on the last line)
    pub penalty_sum: Option<i64>,
    /// bookkeeping for the collision counters
    pub pruned: usize,
    pub carried_post: usize,
    pub replaced: usize,
    pub disc_break: bool,
    pub prune_stopped_at_break: bool,
    /// Index in `items` of the node TeX leaves behind at the break although it no longer does
    /// anything there: the emptied discretionary, the penalty, the zero-width kern or math node.
    /// The property does not ask for it; a line is also accepted without that item.
    pub optional: Option<usize>,
}

impl Line {
    /// `got` is this line as TeX builds it, or the same without the inert break item.
    pub fn accepts(&self, got: &[Item]) -> bool {
        if got == &self.items[..] {
            return true;
        }
        match self.optional {
            Some(i) if got.len() + 1 == self.items.len() => got[..i] == self.items[..i] && got[i..] == self.items[i + 1..],
            _ => false,
        }
    }
}

/// `post_line_break` §877-890 for the breakpoints `breaks` (indices into `list`; the last one is
/// `list.len()`, TeX's `null`). `Err` = TeX's `confusion("line breaking")` or an index that is not a
/// legal place to break.
pub fn post_line_break(list: &[Item], breaks: &[usize], p: &ParParams, sw: PlbSwitches) -> Result<Vec<Line>, String> {
    if breaks.is_empty() {
        return Err("no breakpoints".into());
    }
    let n = breaks.len();
    let mut out = vec![];
    let mut cursor = 0usize;
    let mut pending_post: Vec<Item> = vec![];
    for (k, &b) in breaks.iter().enumerate() {
        let last = k + 1 == n;
        if b < cursor || b > list.len() {
            return Err(format!("breakpoint {b} lies inside material that was already consumed (cursor {cursor})"));
        }
        if last != (b == list.len()) {
            return Err(format!("breakpoint {b} of {n}: only the final break is at the end of the list"));
        }
        let mut items: Vec<Item> = vec![];
        // §887: \leftskip only if it is not zero_glue
        if !p.left_skip.is_zero_glue() {
            items.push(Item::Glue(p.left_skip));
        }
        // §884: the post-break list of the previous discretionary starts this line
        let carried_post = pending_post.len();
        items.append(&mut pending_post);
        items.extend_from_slice(&list[cursor..b]);
        // §881
        let mut disc_break = false;
        let mut post_disc_break = false;
        let mut replaced = 0;
        let mut optional = None;
        let mut next;
        if !last {
            match &list[b] {
                Item::Glue(_) => {
                    // the glue node becomes the \rightskip node
                    next = b + 1;
                }
                Item::Disc { pre, post, replace } => {
                    // §882-885: the t replaced nodes are destroyed, post-break goes to the next
                    // line, the (now empty) discretionary stays, followed by the pre-break list
                    if b + 1 + replace > list.len() {
                        return Err("replace count runs past the end of the list".into());
                    }
                    optional = Some(items.len());
                    items.push(Item::Disc { pre: vec![], post: vec![], replace: 0 });
                    items.extend(pre.iter().cloned());
                    pending_post = post.clone();
                    post_disc_break = !post.is_empty();
                    disc_break = true;
                    replaced = *replace;
                    next = b + 1 + replace;
                }
                Item::Kern { kind, .. } => {
                    optional = Some(items.len());
                    items.push(Item::Kern { w: 0, kind: *kind });
                    next = b + 1;
                }
                Item::Math(m) => {
                    optional = Some(items.len());
                    items.push(Item::Math(*m));
                    next = b + 1;
                }
                Item::Penalty(q) => {
                    optional = Some(items.len());
                    items.push(Item::Penalty(*q));
                    next = b + 1;
                }
                other => return Err(format!("item {} at {b} cannot be a breakpoint", other.show())),
            }
        } else {
            next = list.len();
        }
        // §886: \rightskip always
        items.push(Item::Glue(p.right_skip));
        // §889
        let width = p.width(k);
        let shift = p.indent(k);
        let packed = hpack(&items, width);
        // §890
        let (penalty_sum, penalty_after) = if !last {
            let mut pen = p.inter_line_penalty;
            if k == 0 {
                pen += p.club_penalty;
            }
            if k + 2 == n {
                pen += p.widow_penalty;
            }
            if disc_break {
                pen += p.broken_penalty;
            }
            (Some(pen), if pen != 0 { Some(pen) } else { None })
        } else {
            (None, None)
        };
        // §879 (only `if cur_p<>null then if not post_disc_break`)
        let mut pruned = 0;
        let mut stopped_at_break = false;
        if !last && !post_disc_break && sw.prune {
            let nb = breaks[k + 1];
            loop {
                if next == nb {
                    // "except in the anomalous case that the node to be deleted is actually one
                    // of the chosen breakpoints"
                    stopped_at_break = next < list.len() && list[next].discardable();
                    break;
                }
                if next >= list.len() {
                    return Err("pruning ran past the end of the list (confusion)".into());
                }
                if !list[next].discardable() {
                    break;
                }
                next += 1;
                pruned += 1;
            }
        }
        out.push(Line { items, width, shift, packed, penalty_after, penalty_sum, pruned, carried_post, replaced, disc_break, prune_stopped_at_break: stopped_at_break, optional });
        cursor = next;
    }
    if cursor != list.len() {
        return Err("material left over after the last line (confusion)".into());
    }
    Ok(out)
}

// --------------------------------------------------------------------------------------- unbreak

#[derive(Clone, Debug, PartialEq, Eq, Default)]
pub struct Unbroken {
    /// the break index recovered for every line (last = list.len())
    pub breaks: Vec<usize>,
    /// number of discardable items of the list that were dropped after each break
    pub dropped: Vec<usize>,
    /// lines (index ≥ 1) whose own material begins with a discardable item
    pub starts_with_discardable: Vec<usize>,
}

/// Conservation, independent of `post_line_break` above. `lines[k]` is the content of line box k.
/// Every line must be `[\leftskip if non-zero] material \rightskip`. Reading the material of the
/// lines in order must reproduce `list` when
///   * a line that ends `disc{} pre…` is joined with the `post…` start of the next line into the
///     discretionary `disc{pre}{post}{r replaced items}` found at that place of the list,
///   * a line that ends at a glue item gets that glue item back, a line that ends with a penalty or
///     a zero-width kern/math item is matched with the penalty/kern/math item of the list,
///   * the inert item TeX leaves at the break (the emptied discretionary node, the penalty, the
///     zero-width kern/math item) may also be absent from the line: the property does not ask for it,
///   * and after such a break (no post-break material) zero or more items of the list, all
///     discardable, may be missing.
/// Returns the recovered breakpoints, or a description of the first place where no reading fits.
pub fn unbreak(list: &[Item], lines: &[Vec<Item>], left_skip: &Spec, right_skip: &Spec) -> Result<Unbroken, String> {
    let mut contents: Vec<&[Item]> = vec![];
    for (k, l) in lines.iter().enumerate() {
        let mut c: &[Item] = l;
        if !left_skip.is_zero_glue() {
            match c.first() {
                Some(Item::Glue(g)) if g == left_skip => c = &c[1..],
                _ => return Err(format!("line {k} does not begin with \\leftskip")),
            }
        }
        match c.last() {
            Some(Item::Glue(g)) if g == right_skip => c = &c[..c.len() - 1],
            _ => return Err(format!("line {k} does not end with \\rightskip")),
        }
        contents.push(c);
    }
    if contents.is_empty() {
        return Err("no lines".into());
    }
    let mut best_fail = (0usize, String::from("no reading fits"));
    let mut u = Unbroken::default();
    // A sequence of lines can have more than one reading (e.g. a line that holds just a penalty,
    // followed in the list by glue: broken at the penalty, or at the glue). The lines are judged
    // by their best reading: first look for one in which no line starts with discardable
    // material of its own, then for any reading at all.
    if rec(list, &contents, 0, 0, &[], &mut u, &mut best_fail, true) {
        Ok(u)
    } else if {
        u = Unbroken::default();
        rec(list, &contents, 0, 0, &[], &mut u, &mut best_fail, false)
    } {
        Ok(u)
    } else {
        Err(format!("line {}: {}", best_fail.0, best_fail.1))
    }
}

fn note(best: &mut (usize, String), k: usize, msg: impl FnOnce() -> String) {
    if k >= best.0 {
        *best = (k, msg());
    }
}

#[allow(clippy::too_many_arguments)]
fn rec(list: &[Item], contents: &[&[Item]], k: usize, cursor: usize, pending_post: &[Item], u: &mut Unbroken, best: &mut (usize, String), strict: bool) -> bool {
    let c = contents[k];
    if c.len() < pending_post.len() || c[..pending_post.len()] != *pending_post {
        note(best, k, || format!("does not begin with the post-break material {}", show_list(pending_post)));
        return false;
    }
    let rest = &c[pending_post.len()..];
    let own_start_discardable = k > 0 && pending_post.is_empty() && rest.first().map(|i| i.discardable()).unwrap_or(false);
    let last = k + 1 == contents.len();
    let tail = &list[cursor.min(list.len())..];
    if last {
        if rest == tail {
            if own_start_discardable && strict {
                return false;
            }
            u.breaks.push(list.len());
            if own_start_discardable {
                u.starts_with_discardable.push(k);
            }
            return true;
        }
        note(best, k, || format!("last line holds {} but the rest of the list is {}", show_list(rest), show_list(tail)));
        return false;
    }
    // candidate breaks: (break index, index after the break incl. replaced items, post-break list, may drop)
    let mut cands: Vec<(usize, usize, &[Item], bool, bool)> = vec![];
    let n = rest.len();
    // at a glue item: the whole rest is list material, the next list item is glue
    // (a penalty, explicit kern or math item at which the line was broken may also be absent)
    if tail.len() > n && rest == &tail[..n] && (matches!(tail[n], Item::Glue(_) | Item::Penalty(_) | Item::Math(_)) || matches!(tail[n], Item::Kern { kind: KernKind::Explicit, .. })) {
        cands.push((cursor + n, cursor + n + 1, &[], true, false));
    }
    // at a penalty / kern / math item that stays at the end of the line
    if n >= 1 && tail.len() >= n && rest[..n - 1] == tail[..n - 1] {
        let ok = match (&rest[n - 1], &tail[n - 1]) {
            (Item::Penalty(a), Item::Penalty(b)) => a == b,
            (Item::Kern { w: 0, kind: a }, Item::Kern { kind: b, .. }) => a == b && *a == KernKind::Explicit,
            (Item::Math(a), Item::Math(b)) => a == b,
            _ => false,
        };
        if ok {
            cands.push((cursor + n - 1, cursor + n, &[], true, n == 1));
        }
    }
    // at a discretionary: rest = material, disc{}, pre-break
    for m in 0..n {
        if let Item::Disc { pre, post, replace } = &rest[m] {
            if !pre.is_empty() || !post.is_empty() || *replace != 0 {
                continue;
            }
            if tail.len() > m && rest[..m] == tail[..m] {
                if let Item::Disc { pre: dpre, post: dpost, replace: r } = &tail[m] {
                    if rest[m + 1..] == dpre[..] && cursor + m + 1 + r <= list.len() {
                        cands.push((cursor + m, cursor + m + 1 + r, &dpost[..], dpost.is_empty(), false));
                    }
                }
            }
        }
    }
    // at a discretionary whose emptied node was not kept: rest = material, pre-break
    for m in 0..=n {
        if tail.len() > m && rest[..m] == tail[..m] {
            if let Item::Disc { pre: dpre, post: dpost, replace: r } = &tail[m] {
                if rest[m..] == dpre[..] && cursor + m + 1 + r <= list.len() {
                    cands.push((cursor + m, cursor + m + 1 + r, &dpost[..], dpost.is_empty(), false));
                }
            }
        }
    }
    if cands.is_empty() {
        note(best, k, || format!("holds {} which is neither list material up to a glue item nor ends in a break item of the list; list continues {}", show_list(rest), show_list(&tail[..tail.len().min(n + 2)])));
        return false;
    }
    for (b, after, post, may_drop, is_own_break_item) in cands {
        if strict && own_start_discardable && !is_own_break_item {
            continue;
        }
        let mut run = 0;
        if may_drop {
            while after + run < list.len() && list[after + run].discardable() {
                run += 1;
            }
        }
        // prefer the reading that drops the most
        for drop in (0..=run).rev() {
            let mark = (u.breaks.len(), u.dropped.len(), u.starts_with_discardable.len());
            u.breaks.push(b);
            u.dropped.push(drop);
            if own_start_discardable && !is_own_break_item {
                u.starts_with_discardable.push(k);
            }
            if rec(list, contents, k + 1, after + drop, post, u, best, strict) {
                return true;
            }
            u.breaks.truncate(mark.0);
            u.dropped.truncate(mark.1);
            u.starts_with_discardable.truncate(mark.2);
        }
    }
    false
}

#[cfg(test)]
mod tests {
    use super::*;
    fn ch(c: char) -> Item {
        Item::Char { c: c as u32, font: 0, whd: [5 * 65536, 0, 0] }
    }
    fn gl() -> Item {
        Item::Glue(Spec::new(2 * 65536, 65536, 65536))
    }
    /// Only glue, penalties, math items and EXPLICIT kerns are removable at a break: an accent / math /
    /// font kern that loses its width or disappears is a conservation failure.
    #[test]
    fn accent_kern_is_not_a_break_item() {
        let k = |w| Item::Kern { w, kind: KernKind::Accent };
        let l = prepare(&[ch('a'), k(65536), gl(), ch('b')], &Spec { w: 0, st: 65536, st_o: 1, sh: 0, sh_o: 0 });
        let tail = vec![ch('b'), Item::Penalty(10000), l[l.len() - 1].clone(), Item::Glue(Spec::ZERO)];
        // broken at the glue, the kern stays: fine
        assert!(unbreak(&l, &[vec![ch('a'), k(65536), Item::Glue(Spec::ZERO)], tail.clone()], &Spec::ZERO, &Spec::ZERO).is_ok());
        // "broken at the kern": zeroed, or dropped
        assert!(unbreak(&l, &[vec![ch('a'), k(0), Item::Glue(Spec::ZERO)], tail.clone()], &Spec::ZERO, &Spec::ZERO).is_err());
        assert!(unbreak(&l, &[vec![ch('a'), Item::Glue(Spec::ZERO)], tail.clone()], &Spec::ZERO, &Spec::ZERO).is_err());
    }
    #[test]
    fn words_and_spelling() {
        let w = split_words("\ta\u{a0}b \n\u{b}c\x0c");
        assert_eq!((w.leading, w.trailing, w.words.clone()), (true, true, vec!["a\u{a0}b".to_string(), "\u{b}c".to_string()]));
        let inf = |c: char| c.is_ascii();
        assert!(spells("a\u{a0}b", "a\u{a0}b", &inf));
        assert!(spells("a\u{a0}b", "ab", &inf));
        assert!(!spells("a\u{a0}b", "a", &inf));
        assert!(!spells("ab", "abb", &inf));
        assert!(!spells("ab", "ba", &inf));
    }
    #[test]
    fn sf() {
        assert_eq!(adjust_sf(1000, 999), 999);
        assert_eq!(adjust_sf(999, 3000), 1000);
        assert_eq!(adjust_sf(1000, 3000), 3000);
        assert_eq!(adjust_sf(3000, 0), 3000);
        let f = FontSpace { space: Spec::new(218453, 109226, 72818), extra: 72818 };
        let g = space_glue(3000, &f, &Spec::ZERO, &Spec::ZERO, Default::default()).unwrap();
        assert_eq!((arith::print_scaled(g.w), arith::print_scaled(g.st), arith::print_scaled(g.sh)), ("4.44444".into(), "4.99997".into(), "0.37036".into()));
    }
    #[test]
    fn prune_all_discardables() {
        let l = prepare(&[ch('a'), gl(), gl(), Item::Penalty(5), ch('b')], &Spec { w: 0, st: 65536, st_o: 1, sh: 0, sh_o: 0 });
        let p = ParParams { left_skip: Spec::ZERO, right_skip: Spec::ZERO, widths: vec![5 * 65536], indents: vec![], inter_line_penalty: 0, club_penalty: 150, widow_penalty: 150, broken_penalty: 100 };
        let lines = post_line_break(&l, &[1, l.len()], &p, Default::default()).unwrap();
        assert_eq!(lines[0].items, vec![ch('a'), Item::Glue(Spec::ZERO)]);
        assert_eq!(lines[0].penalty_after, Some(300));
        assert_eq!(lines[0].pruned, 2);
        assert_eq!(lines[1].items[0], ch('b'));
        let ls: Vec<Vec<Item>> = lines.iter().map(|l| l.items.clone()).collect();
        let u = unbreak(&l, &ls, &Spec::ZERO, &Spec::ZERO).unwrap();
        assert_eq!(u.breaks, vec![1, l.len()]);
        assert_eq!(u.dropped, vec![2]);
        assert!(u.starts_with_discardable.is_empty());
        let lines = post_line_break(&l, &[1, l.len()], &p, PlbSwitches { prune: false }).unwrap();
        let ls: Vec<Vec<Item>> = lines.iter().map(|l| l.items.clone()).collect();
        let u = unbreak(&l, &ls, &Spec::ZERO, &Spec::ZERO).unwrap();
        assert_eq!(u.starts_with_discardable, vec![1]);
    }
    /// TeX §879's anomalous case: the pruning stops at the next chosen breakpoint, so a line can hold
    /// just the penalty it is broken at. The same lines could be misread as "broken at the glue
    /// after the penalty" (then the line would start with a discardable item); the best reading counts.
    #[test]
    fn line_holding_only_its_break_penalty() {
        let l = prepare(&[ch('a'), Item::Penalty(0), gl(), Item::Penalty(20), gl(), ch('b')], &Spec { w: 0, st: 65536, st_o: 1, sh: 0, sh_o: 0 });
        let p = ParParams { left_skip: Spec::ZERO, right_skip: Spec::ZERO, widths: vec![5 * 65536], indents: vec![], inter_line_penalty: 0, club_penalty: 0, widow_penalty: 0, broken_penalty: 0 };
        let lines = post_line_break(&l, &[1, 3, l.len()], &p, Default::default()).unwrap();
        assert_eq!(lines[1].items, vec![Item::Penalty(20), Item::Glue(Spec::ZERO)]);
        assert!(lines[0].prune_stopped_at_break);
        assert_eq!(lines[2].items[0], ch('b'));
        let ls: Vec<Vec<Item>> = lines.iter().map(|l| l.items.clone()).collect();
        let u = unbreak(&l, &ls, &Spec::ZERO, &Spec::ZERO).unwrap();
        assert!(u.starts_with_discardable.is_empty());
        assert_eq!(u.breaks.len(), 3); // (the reading itself is not unique: [1,3,8] and [2,3,8] both conserve the list)
        // without pruning the second line starts with the glue: every reading has a bad line start
        let lines = post_line_break(&l, &[1, 3, l.len()], &p, PlbSwitches { prune: false }).unwrap();
        let ls: Vec<Vec<Item>> = lines.iter().map(|l| l.items.clone()).collect();
        let u = unbreak(&l, &ls, &Spec::ZERO, &Spec::ZERO).unwrap();
        assert!(!u.starts_with_discardable.is_empty());
    }
}
