//! kp: `hpack` (tex.web §649-667) with exact rationals, and line breaking *by definition*
//! (§813-875): legal breakpoints §866-869, the width of a line between two breaks as TeX's
//! `try_break` measures it (§823, §837-844), badness and fitness class §851-853, demerits §859,
//! the looseness rule §875 – evaluated by brute force over every sequence of legal breakpoints.
//!
//! Nothing here depends on the repository. All arithmetic is `i64`.

use crate::arith;

/// §138: `null_flag`, the value of a running rule dimension.
pub const NULL_FLAG: i64 = -(1 << 30);
/// §833
pub const AWFUL_BAD: i64 = 0o7777777777;
/// §157
pub const INF_PENALTY: i64 = 10000;
pub const EJECT_PENALTY: i64 = -10000;
/// §817 fitness classes
pub const VERY_LOOSE: u8 = 0;
pub const LOOSE: u8 = 1;
pub const DECENT: u8 = 2;
pub const TIGHT: u8 = 3;

#[derive(Clone, Copy, Debug, Default, PartialEq, Eq)]
pub struct GlueSpec {
    pub w: i64,
    pub stretch: i64,
    /// 0 normal, 1 fil, 2 fill, 3 filll (§150)
    pub stretch_order: usize,
    pub shrink: i64,
    pub shrink_order: usize,
}

/// The node kinds of a horizontal list that the two models look at.
#[derive(Clone, Debug, PartialEq, Eq)]
pub enum Node {
    /// `char_node` §134 or `ligature_node` §143 (its `lig_char`): the character's metrics.
    Char { w: i64, h: i64, d: i64 },
    /// `hlist_node` / `vlist_node` §135-137.
    Box { w: i64, h: i64, d: i64, shift: i64 },
    /// `rule_node` §138; a running dimension is `NULL_FLAG`.
    Rule { w: i64, h: i64, d: i64 },
    /// `kern_node` §155; `explicit` = subtype `explicit`.
    Kern { w: i64, explicit: bool },
    /// `math_node` §147; `after` = subtype `after`.
    Math { w: i64, after: bool },
    Glue(GlueSpec),
    Penalty(i64),
    /// `disc_node` §145. The `replace` nodes follow the discretionary in the main list.
    Disc { pre: Vec<Node>, post: Vec<Node>, replace: usize },
}

impl Node {
    /// Width of a node that is allowed inside a discretionary list or among the replaced nodes
    /// (§841, §842, §870, §871: char, ligature, hlist, vlist, rule, kern; anything else is `confusion`).
    pub fn disc_width(&self) -> i64 {
        match self {
            Node::Char { w, .. } | Node::Box { w, .. } | Node::Rule { w, .. } | Node::Kern { w, .. } => *w,
            _ => 0,
        }
    }
}

// ------------------------------------------------------------------------------------------ hpack

#[derive(Clone, Copy, Debug, PartialEq, Eq)]
pub enum Pack {
    /// `hpack(p, w, exactly)`
    Exactly(i64),
    /// `hpack(p, w, additional)`
    Additional(i64),
}

/// `glue_sign` §135
#[derive(Clone, Copy, Debug, PartialEq, Eq)]
pub enum Sign {
    Normal,
    Stretching,
    Shrinking,
}

/// `glue_set` as an exact value. TeX stores a float; every value it ever stores is one of these.
#[derive(Clone, Copy, Debug, PartialEq, Eq)]
pub enum Set {
    /// `set_glue_ratio_zero`
    Zero,
    /// `unfloat(num/den)`, `den != 0`
    Ratio { num: i64, den: i64 },
    /// `set_glue_ratio_one` (overfull box, §664)
    One,
}

#[derive(Clone, Debug, PartialEq, Eq)]
pub struct Packed {
    pub width: i64,
    pub height: i64,
    pub depth: i64,
    /// natural width `x` of §649 before the target is applied
    pub natural: i64,
    pub total_stretch: [i64; 4],
    pub total_shrink: [i64; 4],
    pub order: usize,
    pub sign: Sign,
    pub set: Set,
    /// the condition of §664 under which TeX sets the ratio to 1.0 and (subject to \hfuzz) reports
    /// an overfull box
    pub overfull: bool,
}

impl Packed {
    /// The amount by which the glue of the box changes in total: sum over the glue nodes of
    /// (ratio × stretch) resp. −(ratio × shrink) at the box's glue order, as an exact rational
    /// (numerator, denominator). §625: only glue of order `glue_order` moves.
    pub fn change(&self) -> (i64, i64) {
        let (num, den) = match self.set {
            Set::Zero => (0, 1),
            Set::One => (1, 1),
            Set::Ratio { num, den } => (num, den),
        };
        match self.sign {
            Sign::Normal => (0, 1),
            Sign::Stretching => (num * self.total_stretch[self.order], den),
            Sign::Shrinking => (-num * self.total_shrink[self.order], den),
        }
    }
}

/// §649 `hpack`.
pub fn hpack(list: &[Node], spec: Pack) -> Packed {
    // §650
    let (mut h, mut d, mut x) = (0i64, 0i64, 0i64);
    let mut total_stretch = [0i64; 4];
    let mut total_shrink = [0i64; 4];
    // §651
    for p in list {
        match p {
            // §654 (and §652: a ligature is treated like its character)
            Node::Char { w, h: ch, d: cd } => {
                x += w;
                if *ch > h {
                    h = *ch;
                }
                if *cd > d {
                    d = *cd;
                }
            }
            // §653; rules have no shift
            Node::Box { w, h: bh, d: bd, shift } => {
                x += w;
                if bh - shift > h {
                    h = bh - shift;
                }
                if bd + shift > d {
                    d = bd + shift;
                }
            }
            Node::Rule { w, h: rh, d: rd } => {
                x += w;
                if *rh > h {
                    h = *rh;
                }
                if *rd > d {
                    d = *rd;
                }
            }
            // §656 (leaders are outside the model)
            Node::Glue(g) => {
                x += g.w;
                total_stretch[g.stretch_order] += g.stretch;
                total_shrink[g.shrink_order] += g.shrink;
            }
            // "kern_node, math_node: x := x + width(p)"
            Node::Kern { w, .. } | Node::Math { w, .. } => x += w,
            // "othercases do_nothing": penalty and discretionary nodes
            Node::Penalty(_) | Node::Disc { .. } => {}
        }
    }
    let natural = x;
    // §657
    let w = match spec {
        Pack::Exactly(w) => w,
        Pack::Additional(a) => x + a,
    };
    let x = w - x;
    let mut out = Packed { width: w, height: h, depth: d, natural, total_stretch, total_shrink, order: 0, sign: Sign::Normal, set: Set::Zero, overfull: false };
    if x == 0 {
        return out;
    }
    if x > 0 {
        // §658, §659
        let o = (1..4).rev().find(|o| total_stretch[*o] != 0).unwrap_or(0);
        out.order = o;
        if total_stretch[o] != 0 {
            out.sign = Sign::Stretching;
            out.set = Set::Ratio { num: x, den: total_stretch[o] };
        }
    } else {
        // §664, §665
        let o = (1..4).rev().find(|o| total_shrink[*o] != 0).unwrap_or(0);
        out.order = o;
        if total_shrink[o] != 0 {
            out.sign = Sign::Shrinking;
            out.set = Set::Ratio { num: -x, den: total_shrink[o] };
        }
        if total_shrink[o] < -x && o == 0 && !list.is_empty() {
            out.overfull = true;
            out.set = Set::One; // the sign stays as it was set above
        }
    }
    out
}

// ------------------------------------------------------------------------------- line breaking

/// The six quantities of §823: width, stretch of the four orders, shrink.
#[derive(Clone, Copy, Debug, Default, PartialEq, Eq)]
pub struct W6 {
    pub w: i64,
    pub st: [i64; 4],
    pub sh: i64,
}
impl W6 {
    pub fn add(&mut self, o: &W6, sign: i64) {
        self.w += sign * o.w;
        for i in 0..4 {
            self.st[i] += sign * o.st[i];
        }
        self.sh += sign * o.sh;
    }
    pub fn of_glue(g: &GlueSpec) -> W6 {
        // §825 check_shrinkage: infinite shrink is an error in a paragraph; the model's domain is
        // finite shrink, so the shrink goes to the single shrink component whatever the order says.
        let mut x = W6 { w: g.w, sh: g.shrink, ..Default::default() };
        x.st[g.stretch_order] = g.stretch;
        x
    }
}

/// The parameters `line_break` reads (§236, §247) – only those that influence the choice of breaks.
#[derive(Clone, Debug)]
pub struct Params {
    pub line_penalty: i64,
    pub hyphen_penalty: i64,
    pub ex_hyphen_penalty: i64,
    pub adj_demerits: i64,
    pub double_hyphen_demerits: i64,
    pub final_hyphen_demerits: i64,
    pub looseness: i64,
    pub left_skip: GlueSpec,
    pub right_skip: GlueSpec,
    /// added to `background[2]` (§863, third pass)
    pub emergency_stretch: i64,
}

/// A legal breakpoint: index of the node in the list (`list.len()` for the final break of §873),
/// the penalty `pi` after the normalisation at the top of `try_break` (§831), and `break_type`.
#[derive(Clone, Copy, Debug, PartialEq, Eq)]
pub struct Bp {
    pub idx: usize,
    pub penalty: i64,
    pub hyph: bool,
}

/// §148 `precedes_break` extended the way §868 uses it on `prev_p`.
fn glue_may_break_after(prev: &Node) -> bool {
    match prev {
        // is_char_node(prev_p), or type(prev_p) < math_node
        Node::Char { .. } | Node::Box { .. } | Node::Rule { .. } | Node::Disc { .. } => true,
        // (type(prev_p) = kern_node) and (subtype(prev_p) <> explicit)
        Node::Kern { explicit, .. } => !explicit,
        Node::Math { .. } | Node::Glue(_) | Node::Penalty(_) => false,
    }
}

/// §863, §866-869, §873: the calls of `try_break` that survive §831.
pub fn breakpoints(list: &[Node], p: &Params) -> Vec<Bp> {
    let n = list.len();
    let mut out = vec![];
    let mut push = |idx: usize, pi: i64, hyph: bool| {
        // §831: if abs(pi) >= inf_penalty then if pi > 0 then return else pi := eject_penalty
        if pi.abs() >= INF_PENALTY {
            if pi > 0 {
                return;
            }
            out.push(Bp { idx, penalty: EJECT_PENALTY, hyph });
        } else {
            out.push(Bp { idx, penalty: pi, hyph });
        }
    };
    let mut auto_breaking = true;
    // §863: prev_p := cur_p, "glue at beginning is not a legal breakpoint"
    let mut prev: Option<usize> = None;
    let mut i = 0;
    while i < n {
        match &list[i] {
            Node::Char { .. } | Node::Box { .. } | Node::Rule { .. } => {}
            Node::Glue(_) => {
                // §868
                if auto_breaking {
                    if let Some(pi) = prev {
                        if glue_may_break_after(&list[pi]) {
                            push(i, 0, false);
                        }
                    }
                }
            }
            Node::Kern { explicit, .. } => {
                // kern_break (§866)
                if *explicit && auto_breaking && matches!(list.get(i + 1), Some(Node::Glue(_))) {
                    push(i, 0, false);
                }
            }
            Node::Math { after, .. } => {
                auto_breaking = *after;
                if auto_breaking && matches!(list.get(i + 1), Some(Node::Glue(_))) {
                    push(i, 0, false);
                }
            }
            Node::Penalty(pi) => push(i, *pi, false),
            Node::Disc { pre, replace, .. } => {
                // §869: the replaced nodes are passed over, and prev_p is the discretionary
                let pi = if pre.is_empty() { p.ex_hyphen_penalty } else { p.hyphen_penalty };
                push(i, pi, true);
                prev = Some(i);
                i += 1 + replace;
                continue;
            }
        }
        prev = Some(i);
        i += 1;
    }
    // §873: try_break(eject_penalty, hyphenated)
    out.push(Bp { idx: n, penalty: EJECT_PENALTY, hyph: true });
    out
}

/// What the main loop of `line_break` adds to `act_width` for a node (§866-871).
fn act_width_of(node: &Node) -> W6 {
    match node {
        Node::Char { w, .. } | Node::Box { w, .. } | Node::Rule { w, .. } | Node::Kern { w, .. } | Node::Math { w, .. } => W6 { w: *w, ..Default::default() },
        Node::Glue(g) => W6::of_glue(g),
        Node::Penalty(_) | Node::Disc { .. } => W6::default(),
    }
}

/// One line-breaking problem with everything needed to evaluate any sequence of breaks.
pub struct Oracle {
    pub bps: Vec<Bp>,
    /// `meas[a][b]`: the six measures of the line from break `a-1` (`a = 0`: paragraph start) to
    /// break `b` (index into `bps`), i.e. γ + β(b) − α(a) in the notation of §822.
    pub meas: Vec<Vec<W6>>,
    pub widths: Vec<i64>,
    pub threshold: i64,
    pub params: Params,
    n: usize,
}

/// Result of the exhaustive enumeration.
#[derive(Clone, Debug, Default)]
pub struct Brute {
    /// number of feasible complete sequences
    pub feasible: u64,
    /// minimal total demerits per number of lines
    pub per_count: std::collections::BTreeMap<usize, i64>,
    /// one sequence (node indices) achieving the overall minimum
    pub best: Option<(i64, Vec<usize>)>,
    /// number of sequences achieving the overall minimum
    pub best_ties: u64,
    /// some feasible sequences have different totals
    pub totals_differ: bool,
    /// some breakpoint is reached by feasible partial sequences whose last lines have different fitness classes
    pub fitness_diverges: bool,
    /// the reported optimum pays adj_demerits somewhere
    pub best_pays_adj: bool,
    /// the reported optimum breaks at a discretionary
    pub best_uses_disc: bool,
    /// the reported optimum has two consecutive hyphenated breaks (incl. the final-hyphen case)
    pub best_consecutive_hyphens: bool,
    /// largest |partial total| met on a feasible prefix (guards the awful_bad domain restriction)
    pub max_abs_total: i64,
    /// per number of lines: bit set of the fitness classes of the last line over all feasible sequences
    pub last_fit_by_count: std::collections::BTreeMap<usize, u8>,
}

impl Oracle {
    /// `threshold` is the pass's tolerance; §863 clamps it to `inf_bad`.
    pub fn new(list: &[Node], params: &Params, widths: &[i64], tolerance: i64) -> Oracle {
        let n = list.len();
        let bps = breakpoints(list, params);
        // prefix sums of act_width
        let mut s = vec![W6::default(); n + 1];
        for i in 0..n {
            s[i + 1] = s[i];
            let w = act_width_of(&list[i]);
            s[i + 1].add(&w, 1);
        }
        // §827: background = left_skip + right_skip (+ emergency stretch in the last pass)
        let mut background = W6::default();
        background.add(&W6::of_glue(&params.left_skip), 1);
        background.add(&W6::of_glue(&params.right_skip), 1);
        background.st[0] += params.emergency_stretch;
        // §837: the run of discardable nodes starting at j
        let disc_run = |mut j: usize| -> W6 {
            let mut d = W6::default();
            while j < n {
                match &list[j] {
                    Node::Glue(g) => d.add(&W6::of_glue(g), 1),
                    Node::Penalty(_) => {}
                    Node::Math { w, .. } => d.w += w,
                    Node::Kern { w, explicit: true } => d.w += w,
                    _ => break,
                }
                j += 1;
            }
            d
        };
        // α(a): what is subtracted for a line that starts after break a
        let alpha = |a: &Bp| -> W6 {
            let mut al;
            match &list[a.idx] {
                Node::Disc { post, replace, .. } => {
                    // §840: replaced nodes go, post-break material comes
                    let after = a.idx + 1 + replace;
                    al = s[after];
                    for e in post {
                        al.w -= e.disc_width();
                    }
                    if post.is_empty() {
                        al.add(&disc_run(after), 1);
                    }
                }
                _ => {
                    al = s[a.idx];
                    al.add(&disc_run(a.idx), 1);
                }
            }
            al
        };
        // β(b): act_width when try_break is called at b (§869 adds disc_width for the call)
        let beta = |b: &Bp| -> W6 {
            let mut be = s[b.idx];
            if b.idx < n {
                if let Node::Disc { pre, .. } = &list[b.idx] {
                    for e in pre {
                        be.w += e.disc_width();
                    }
                }
            }
            be
        };
        let m = bps.len();
        let mut meas = vec![vec![W6::default(); m]; m + 1];
        for a in 0..=m {
            let al = if a == 0 { W6::default() } else { alpha_guard(&bps[a - 1], n, &alpha) };
            for b in 0..m {
                if a > 0 && b < a {
                    continue;
                }
                let mut l = background;
                l.add(&beta(&bps[b]), 1);
                l.add(&al, -1);
                meas[a][b] = l;
            }
        }
        Oracle { bps, meas, widths: widths.to_vec(), threshold: tolerance.min(arith::INF_BAD), params: params.clone(), n }
    }

    /// §850 without \parshape/\hangindent subtleties: the harness passes the widths line by line,
    /// the last one repeats.
    pub fn line_width(&self, line_no: usize) -> i64 {
        self.widths[(line_no - 1).min(self.widths.len() - 1)]
    }

    /// §851-853: (badness, fitness class) of the line from `a` to `b` set as line `line_no`;
    /// badness `inf_bad + 1` means overfull.
    pub fn fit(&self, a: usize, b: usize, line_no: usize) -> (i64, u8) {
        fit_of(&self.meas[a][b], self.line_width(line_no))
    }

    /// §859
    pub fn demerits(&self, badness: i64, b: &Bp, prev_fit: u8, fit: u8, prev_hyph: bool) -> i64 {
        demerits(&self.params, badness, b.penalty, prev_fit, fit, prev_hyph && b.hyph, b.idx == self.n)
    }

    /// The premise of the property: for every line start and every line number, "overfull" is
    /// upward closed in the end of the line.
    pub fn monotone(&self) -> bool {
        let m = self.bps.len();
        for a in 0..m {
            for ln in 1..=self.widths.len() {
                let mut seen_over = false;
                for b in a..m {
                    let over = self.fit(a, b, ln).0 > arith::INF_BAD;
                    if seen_over && !over {
                        return false;
                    }
                    seen_over |= over;
                }
            }
        }
        true
    }

    fn feasible(&self, badness: i64) -> bool {
        badness <= arith::INF_BAD && badness <= self.threshold
    }

    /// Every sequence of legal breakpoints that contains all forced breaks and ends with the
    /// final break, each line within the threshold.
    pub fn brute(&self) -> Brute {
        let mut out = Brute::default();
        let mut fits_at = vec![0u8; self.bps.len()];
        let mut seq: Vec<usize> = vec![];
        let mut first_total: Option<i64> = None;
        self.dfs(0, 1, DECENT, false, 0, &mut seq, &mut out, &mut fits_at, &mut first_total, Flags::default());
        out.fitness_diverges = fits_at.iter().any(|m| m.count_ones() >= 2);
        out
    }

    #[allow(clippy::too_many_arguments)]
    fn dfs(&self, a: usize, line_no: usize, prev_fit: u8, prev_hyph: bool, total: i64, seq: &mut Vec<usize>, out: &mut Brute, fits_at: &mut [u8], first_total: &mut Option<i64>, flags: Flags) {
        let m = self.bps.len();
        for b in a..m {
            let bp = &self.bps[b];
            let forced = bp.penalty <= EJECT_PENALTY;
            let (bad, fit) = self.fit(a, b, line_no);
            if self.feasible(bad) {
                let d = self.demerits(bad, bp, prev_fit, fit, prev_hyph);
                let t = total + d;
                out.max_abs_total = out.max_abs_total.max(t.abs());
                fits_at[b] |= 1 << fit;
                let mut fl = flags;
                fl.pays_adj |= (fit as i64 - prev_fit as i64).abs() > 1;
                fl.uses_disc |= bp.hyph && bp.idx < self.n;
                fl.consecutive |= bp.hyph && prev_hyph;
                seq.push(bp.idx);
                if b + 1 == m {
                    out.feasible += 1;
                    let lines = seq.len();
                    *out.last_fit_by_count.entry(lines).or_insert(0) |= 1 << fit;
                    let e = out.per_count.entry(lines).or_insert(i64::MAX);
                    if t < *e {
                        *e = t;
                    }
                    match first_total {
                        None => *first_total = Some(t),
                        Some(f) if *f != t => out.totals_differ = true,
                        _ => {}
                    }
                    match &out.best {
                        Some((bt, _)) if *bt < t => {}
                        Some((bt, _)) if *bt == t => out.best_ties += 1,
                        _ => {
                            out.best = Some((t, seq.clone()));
                            out.best_ties = 1;
                            out.best_pays_adj = fl.pays_adj;
                            out.best_uses_disc = fl.uses_disc;
                            out.best_consecutive_hyphens = fl.consecutive;
                        }
                    }
                } else {
                    self.dfs(b + 1, line_no + 1, fit, bp.hyph, t, seq, out, fits_at, first_total, fl);
                }
                seq.pop();
            }
            if forced {
                break; // a forced break cannot be passed over (§851: pi = eject_penalty deactivates)
            }
        }
    }

    /// Total demerits of a given sequence of breaks (node indices, ending with `list.len()`), or
    /// why it is not a feasible sequence.
    pub fn eval(&self, breaks: &[usize]) -> Result<i64, String> {
        let mut a = 0usize;
        let (mut prev_fit, mut prev_hyph, mut total) = (DECENT, false, 0i64);
        if breaks.last() != Some(&self.n) {
            return Err(format!("the sequence does not end with the final break {}", self.n));
        }
        for (k, bi) in breaks.iter().enumerate() {
            let Some(b) = (a..self.bps.len()).find(|b| self.bps[*b].idx == *bi) else {
                return Err(format!("node {bi} is not a legal breakpoint after the previous break"));
            };
            // forced breaks between a and b must not be skipped
            if let Some(f) = (a..b).find(|f| self.bps[*f].penalty <= EJECT_PENALTY) {
                return Err(format!("the forced break at node {} is passed over", self.bps[f].idx));
            }
            let (bad, fit) = self.fit(a, b, k + 1);
            if !self.feasible(bad) {
                return Err(format!("line {} (ending at node {bi}) has badness {} > threshold {}", k + 1, if bad > arith::INF_BAD { "*".to_string() } else { bad.to_string() }, self.threshold));
            }
            total += self.demerits(bad, &self.bps[b], prev_fit, fit, prev_hyph);
            prev_fit = fit;
            prev_hyph = self.bps[b].hyph;
            a = b + 1;
        }
        Ok(total)
    }

    /// Index into `meas`/`bps` space of a break given by node index: 0 for the paragraph start
    /// (`None`), `k + 1` for `bps[k]`.
    pub fn start_of(&self, node_idx: Option<usize>) -> Option<usize> {
        match node_idx {
            None => Some(0),
            Some(i) => self.bps.iter().position(|b| b.idx == i).map(|k| k + 1),
        }
    }
    pub fn bp_at(&self, node_idx: usize) -> Option<usize> {
        self.bps.iter().position(|b| b.idx == node_idx)
    }
}

fn alpha_guard(a: &Bp, n: usize, alpha: &dyn Fn(&Bp) -> W6) -> W6 {
    // nothing starts after the final break
    if a.idx >= n {
        W6::default()
    } else {
        alpha(a)
    }
}

#[derive(Clone, Copy, Default)]
struct Flags {
    pays_adj: bool,
    uses_disc: bool,
    consecutive: bool,
}

/// §851-853 for a line with measures `l` set to `line_width`.
pub fn fit_of(l: &W6, line_width: i64) -> (i64, u8) {
    let shortfall = line_width - l.w;
    if shortfall > 0 {
        // §852
        if l.st[1] != 0 || l.st[2] != 0 || l.st[3] != 0 {
            (0, DECENT)
        } else {
            let b = if shortfall > 7230584 && l.st[0] < 1663497 { arith::INF_BAD } else { arith::badness(shortfall, l.st[0]) };
            (b, if b > 12 { if b > 99 { VERY_LOOSE } else { LOOSE } } else { DECENT })
        }
    } else {
        // §853
        let b = if -shortfall > l.sh { arith::INF_BAD + 1 } else { arith::badness(-shortfall, l.sh) };
        (b, if b > 12 { TIGHT } else { DECENT })
    }
}

/// §859. `both_hyph`: this break and the previous one are hyphenated; `last`: `cur_p = null`.
pub fn demerits(p: &Params, badness: i64, pi: i64, prev_fit: u8, fit: u8, both_hyph: bool, last: bool) -> i64 {
    let mut d = p.line_penalty + badness;
    d = if d.abs() >= 10000 { 100000000 } else { d * d };
    if pi != 0 {
        if pi > 0 {
            d += pi * pi;
        } else if pi > EJECT_PENALTY {
            d -= pi * pi;
        }
    }
    if both_hyph {
        if !last {
            d += p.double_hyphen_demerits;
        } else {
            d += p.final_hyphen_demerits;
        }
    }
    if (fit as i64 - prev_fit as i64).abs() > 1 {
        d += p.adj_demerits;
    }
    d
}

/// §874-875: which number of lines TeX ends up with, given the minimal total demerits for every
/// feasible number of lines. Returns (lines chosen, actual_looseness). With ties in demerits the
/// first active node wins, and the active list is sorted by line number.
pub fn looseness_choice(per_count: &std::collections::BTreeMap<usize, i64>, looseness: i64) -> Option<(usize, i64)> {
    let min = *per_count.values().min()?;
    let best_line = *per_count.iter().find(|(_, v)| **v == min)?.0 as i64;
    if looseness == 0 {
        return Some((best_line as usize, 0));
    }
    let mut actual = 0i64;
    for l in per_count.keys() {
        let line_diff = *l as i64 - best_line;
        if (line_diff < actual && looseness <= line_diff) || (line_diff > actual && looseness >= line_diff) {
            actual = line_diff;
        }
    }
    Some(((best_line + actual) as usize, actual))
}

// ------------------------------------------------------------------- TFM metrics (self-validation)

/// Width, height, depth in scaled points of every character of a TFM file at its design size:
/// the sub-file layout of TFtoPL §8-11 and `store_scaled` of tex.web §571-572. Only used to bind
/// the models above to the repository's TeX-recorded paragraphs (which are set in cmr10).
pub fn tfm_metrics(b: &[u8]) -> Option<std::collections::BTreeMap<u8, (i64, i64, i64)>> {
    let h = |i: usize| -> Option<usize> { Some(((*b.get(2 * i)? as usize) << 8) | *b.get(2 * i + 1)? as usize) };
    let (lf, lh, bc, ec, nw, nh, nd) = (h(0)?, h(1)?, h(2)?, h(3)?, h(4)?, h(5)?, h(6)?);
    if b.len() < 4 * lf || ec < bc || lh < 2 {
        return None;
    }
    let word = |i: usize| -> Option<[u8; 4]> { Some([*b.get(4 * i)?, *b.get(4 * i + 1)?, *b.get(4 * i + 2)?, *b.get(4 * i + 3)?]) };
    // §568: design size is header word 1, a fix_word; z := design size in scaled points
    let ds = word(6 + 1)?;
    let mut z: i64 = ((ds[0] as i64) << 24 | (ds[1] as i64) << 16 | (ds[2] as i64) << 8 | ds[3] as i64) >> 4; // §568: z*16 = fix_word, units of 2^-20 pt -> sp
    if ds[0] >= 128 {
        return None;
    }
    // §572: replace z by z' and compute alpha, beta
    let mut alpha: i64 = 16;
    while z >= 0o40000000 {
        z /= 2;
        alpha += alpha;
    }
    let beta = 256 / alpha;
    let alpha = alpha * z;
    // §571 store_scaled
    let scaled = |w: [u8; 4]| -> Option<i64> {
        let (a, bb, c, d) = (w[0] as i64, w[1] as i64, w[2] as i64, w[3] as i64);
        let sw = (((d * z) / 0o400 + c * z) / 0o400 + bb * z) / beta;
        match a {
            0 => Some(sw),
            255 => Some(sw - alpha),
            _ => None,
        }
    };
    let char_base = 6 + lh;
    let width_base = char_base + (ec - bc + 1);
    let height_base = width_base + nw;
    let depth_base = height_base + nh;
    let _ = nd;
    let mut out = std::collections::BTreeMap::new();
    for c in bc..=ec {
        let ci = word(char_base + c - bc)?;
        if ci[0] == 0 {
            continue; // §554: width index 0 = the character does not exist
        }
        let w = scaled(word(width_base + ci[0] as usize)?)?;
        let hh = scaled(word(height_base + (ci[1] >> 4) as usize)?)?;
        let dd = scaled(word(depth_base + (ci[1] & 15) as usize)?)?;
        out.insert(c as u8, (w, hh, dd));
    }
    Some(out)
}

#[cfg(test)]
mod tests {
    use super::*;
    fn g(w: i64, st: i64, sto: usize, sh: i64, sho: usize) -> Node {
        Node::Glue(GlueSpec { w, stretch: st, stretch_order: sto, shrink: sh, shrink_order: sho })
    }
    #[test]
    fn hpack_orders() {
        // fil stretch cancels: TeX falls back to the finite total
        let l = [g(10, 5, 1, 0, 0), g(10, -5, 1, 0, 0), g(10, 4, 0, 0, 0)];
        let p = hpack(&l, Pack::Additional(2));
        assert_eq!((p.order, p.sign, p.set), (0, Sign::Stretching, Set::Ratio { num: 2, den: 4 }));
        // overfull: ratio one, sign shrinking
        let l = [Node::Char { w: 10, h: 1, d: 0 }, g(10, 0, 0, 3, 0)];
        let p = hpack(&l, Pack::Exactly(10));
        assert!(p.overfull);
        assert_eq!((p.sign, p.set), (Sign::Shrinking, Set::One));
        // no shrink at all: unset
        let p = hpack(&[Node::Char { w: 10, h: 1, d: 0 }], Pack::Exactly(5));
        assert_eq!((p.sign, p.overfull), (Sign::Normal, true));
        // shifted box
        let p = hpack(&[Node::Box { w: 1, h: 9, d: 3, shift: 4 }], Pack::Additional(0));
        assert_eq!((p.height, p.depth), (5, 7));
    }
    #[test]
    fn breakpoints_by_kind() {
        let p = Params { line_penalty: 10, hyphen_penalty: 50, ex_hyphen_penalty: 50, adj_demerits: 10000, double_hyphen_demerits: 10000, final_hyphen_demerits: 5000, looseness: 0, left_skip: GlueSpec::default(), right_skip: GlueSpec::default(), emergency_stretch: 0 };
        let c = Node::Char { w: 5, h: 0, d: 0 };
        let l = vec![g(1, 0, 0, 0, 0), c.clone(), g(1, 0, 0, 0, 0), g(1, 0, 0, 0, 0), Node::Kern { w: 1, explicit: true }, g(1, 0, 0, 0, 0), Node::Penalty(10000), Node::Penalty(-20000)];
        let b: Vec<usize> = breakpoints(&l, &p).iter().map(|b| b.idx).collect();
        assert_eq!(b, vec![2, 4, 7, 8]);
    }
}
