//! Conditionals, `\expandafter` and `\noexpand` (tex.web §358, §366-369, §440-445, §487-510).
//!
//! Two independent things live here:
//!
//! 1. **Conditional trees** (`Cond`, `Shape`): a data type for well-nested conditionals, their rendering
//!    as tokens, the token list TeX delivers for them *by construction* (the letters of the selected
//!    branches), and a counting/unranking enumerator of all trees over a menu of variants.
//! 2. **A reference expander** (`Expander`): a transliteration of TeX's `expand`, `get_x_token`,
//!    `conditional`, `pass_text`, `scan_int` for a world of parameterless macros and the primitives
//!    `\expandafter`, `\noexpand`, `\iftrue`, `\iffalse`, `\ifnum`, `\ifodd`, `\ifcase`, `\or`, `\else`,
//!    `\fi`. The don't-expand marker that `\noexpand` leaves on the input (§358, §367-369) is modelled
//!    explicitly; `keep_marker = false` describes an implementation that loses the marker when the
//!    expansion step was requested by `\expandafter` (defect class D18 of the design).
//!
//! The checks require (1) and (2) to agree on every tree they run.

use crate::macros::Tok;
use std::collections::BTreeMap;

pub const SPACE: Tok = Tok::Ch(' ', 10);

// =================================================================================================
// 1. conditional trees
// =================================================================================================

#[derive(Clone, Debug, PartialEq, Eq)]
pub enum Head {
    IfTrue,
    IfFalse,
    /// `\myif .. \myelse .. \myfi` where `\let\myif=\iftrue \let\myelse=\else \let\myfi=\fi`
    AliasTrue,
    /// `\ifnum a R b` with R one of `<`, `=`, `>`
    IfNum(i64, char, i64),
    IfOdd(i64),
    /// `\ifcase n` followed by `ors` `\or`s
    IfCase(i64),
    /// `\ifodd <text>` / `\ifcase <text>` where the operand is written with a sign string (`--3`, `+-3`, `- 3`)
    IfOddText(&'static str),
    IfCaseText(&'static str),
    /// `\ifnum a<k1 blanks>R<k2 blanks>b ` where the blanks are space tokens produced by expansion
    /// (`\def\sp{ }`, `\def\e{}`): style 0 = k times `\sp`; style 1 = a literal space, `\e`, then k-1 times `\sp`
    IfNumSpaced(i64, char, i64, u8, u8, u8),
    /// `\ifeof n` on a stream that was never opened (§501: true)
    IfEof(i64),
    /// a conditional the harness implements itself (`\ifht` true, `\ifhf` false), without operand
    IfHarness(bool),
    /// `~ .. \else .. \fi` where `\let~=\iftrue` (the active character `~` is the conditional)
    ActiveTrue,
    /// `\iftrue .. \else .. ~` / `\iffalse .. \else .. ~` where `\let~=\fi`
    TrueActiveFi,
    FalseActiveFi,
}

pub const ACTIVE: Tok = Tok::Ch('~', 13);

#[derive(Clone, Debug, PartialEq, Eq)]
pub struct Variant {
    pub head: Head,
    /// number of `\or`s (0 unless `IfCase`)
    pub ors: usize,
    pub has_else: bool,
}

impl Variant {
    pub fn new(head: Head, ors: usize, has_else: bool) -> Variant {
        let ors = if matches!(head, Head::IfCase(_) | Head::IfCaseText(_)) { ors } else { 0 };
        Variant { head, ors, has_else }
    }
    /// number of branch bodies
    pub fn branches(&self) -> usize {
        self.ors + 1 + self.has_else as usize
    }
    /// §501-§509: truth of the condition (None for `\ifcase`)
    pub fn truth(&self) -> Option<bool> {
        Some(match self.head {
            Head::IfTrue | Head::AliasTrue | Head::ActiveTrue | Head::TrueActiveFi | Head::IfEof(_) => true,
            Head::IfHarness(b) => b,
            Head::IfFalse | Head::FalseActiveFi => false,
            Head::IfNum(a, r, b) | Head::IfNumSpaced(a, r, b, ..) => match r {
                '<' => a < b,
                '>' => a > b,
                _ => a == b,
            },
            Head::IfOdd(n) => n.rem_euclid(2) == 1, // §504 odd(cur_val): true for negative odd numbers
            Head::IfOddText(t) => signed_value(t).rem_euclid(2) == 1,
            Head::IfCase(_) | Head::IfCaseText(_) => return None,
        })
    }
    /// index of the branch whose tokens are delivered, if any
    pub fn selected(&self) -> Option<usize> {
        match self.case_value() {
            Some(n) => {
                if n >= 0 && (n as usize) <= self.ors {
                    Some(n as usize)
                } else if self.has_else {
                    Some(self.ors + 1)
                } else {
                    None
                }
            }
            _ => {
                if self.truth().unwrap() {
                    Some(0)
                } else if self.has_else {
                    Some(1)
                } else {
                    None
                }
            }
        }
    }
    /// value of the `\ifcase` operand, None for the other kinds
    pub fn case_value(&self) -> Option<i64> {
        match self.head {
            Head::IfCase(n) => Some(n),
            Head::IfCaseText(t) => Some(signed_value(t)),
            _ => None,
        }
    }
    pub fn uses_active_if(&self) -> bool {
        self.head == Head::ActiveTrue
    }
    pub fn uses_active_fi(&self) -> bool {
        matches!(self.head, Head::TrueActiveFi | Head::FalseActiveFi)
    }
    pub fn is_alias(&self) -> bool {
        self.head == Head::AliasTrue
    }
    fn number(n: i64, out: &mut Vec<Tok>) {
        for c in n.to_string().chars() {
            out.push(Tok::Ch(c, 12));
        }
        out.push(SPACE); // operands are always terminated by a space
    }
    fn number_text(t: &str, out: &mut Vec<Tok>) {
        for c in t.chars() {
            out.push(if c == ' ' { SPACE } else { Tok::Ch(c, 12) });
        }
        out.push(SPACE);
    }
    pub fn head_tokens(&self, out: &mut Vec<Tok>) {
        match self.head {
            Head::IfTrue | Head::TrueActiveFi => out.push(Tok::Cs("iftrue")),
            Head::IfFalse | Head::FalseActiveFi => out.push(Tok::Cs("iffalse")),
            Head::ActiveTrue => out.push(ACTIVE),
            Head::IfNumSpaced(a, r, b, k1, k2, style) => {
                let blanks = |k: u8, out: &mut Vec<Tok>| {
                    if k == 0 {
                        return;
                    }
                    if style == 0 {
                        for _ in 0..k {
                            out.push(Tok::Cs("sp"));
                        }
                    } else {
                        out.push(SPACE);
                        out.push(Tok::Cs("e"));
                        for _ in 1..k {
                            out.push(Tok::Cs("sp"));
                        }
                    }
                };
                out.push(Tok::Cs("ifnum"));
                for c in a.to_string().chars() {
                    out.push(Tok::Ch(c, 12));
                }
                blanks(k1, out);
                out.push(Tok::Ch(r, 12));
                blanks(k2, out);
                Self::number(b, out);
            }
            Head::IfEof(n) => {
                out.push(Tok::Cs("ifeof"));
                Self::number(n, out);
            }
            Head::IfHarness(b) => out.push(Tok::Cs(if b { "ifht" } else { "ifhf" })),
            Head::AliasTrue => out.push(Tok::Cs("myif")),
            Head::IfNum(a, r, b) => {
                out.push(Tok::Cs("ifnum"));
                Self::number(a, out);
                out.push(Tok::Ch(r, 12));
                Self::number(b, out);
            }
            Head::IfOdd(n) => {
                out.push(Tok::Cs("ifodd"));
                Self::number(n, out);
            }
            Head::IfCase(n) => {
                out.push(Tok::Cs("ifcase"));
                Self::number(n, out);
            }
            Head::IfOddText(t) => {
                out.push(Tok::Cs("ifodd"));
                Self::number_text(t, out);
            }
            Head::IfCaseText(t) => {
                out.push(Tok::Cs("ifcase"));
                Self::number_text(t, out);
            }
        }
    }
}

/// §440-441: value of `<signs and blanks><decimal digits>`: every `-` flips the sign, `+` and blanks are skipped.
pub fn signed_value(t: &str) -> i64 {
    let neg = t.chars().filter(|c| *c == '-').count() % 2 == 1;
    let v: i64 = t.chars().filter(|c| c.is_ascii_digit()).collect::<String>().parse().expect("digits");
    if neg {
        -v
    } else {
        v
    }
}

#[derive(Clone, Debug, PartialEq, Eq)]
pub enum Item {
    /// a letter that is unique in the tree (assigned when the tree is rendered)
    Letter,
    Cond(Cond),
    /// a token that may only stand in skipped text
    Junk(Tok),
    /// a given unexpandable character token (delivered when the body is live)
    Lit(Tok),
}

#[derive(Clone, Debug, PartialEq, Eq)]
pub struct Cond {
    pub v: Variant,
    /// `v.branches()` bodies
    pub bodies: Vec<Vec<Item>>,
}

/// How a body is situated with respect to skipping.
#[derive(Clone, Copy, PartialEq, Eq, Debug)]
pub enum Ctx {
    /// its tokens are delivered
    Live,
    /// skipped branch of a conditional that is itself live (the skipper is at nesting level 0 here)
    Skipped,
    /// inside a conditional that lies in skipped text (the skipper is at nesting level >= 1 here)
    Deep,
}

const LETTERS: &[u8] = b"abcdefghijklmnopqrstuvwxyzABCDEFGHIJKLMNOPQRSTUVWXY";

pub struct Rendered {
    pub tokens: Vec<Tok>,
    /// the tokens TeX delivers: the letters of the live bodies, in order
    pub expected: Vec<Tok>,
    pub facts: TreeFacts,
}
#[derive(Clone, Copy, Default, Debug)]
pub struct TreeFacts {
    pub nodes: usize,
    pub depth: usize,
    pub some_branch_skipped: bool,
    pub some_branch_delivered: bool,
    pub aliased_conditional_in_skipped_text: bool,
    pub or_at_depth_gt0_in_skipped_text: bool,
    pub else_at_depth_gt0_in_skipped_text: bool,
    pub ifcase_out_of_range: bool,
    pub ifcase_negative: bool,
    pub negative_odd_live: bool,
    pub brace_in_skipped_text: bool,
    pub live_branch_ended_by_or: bool,
    /// `~` stands for \iftrue / for \fi somewhere in the tree (at most one of the two per tree), live / in skipped text
    pub skipped_ifeof: bool,
    pub skipped_harness_condition: bool,
    pub live_ifeof_or_harness_condition: bool,
    pub active_if: bool,
    pub active_fi: bool,
    pub active_alias_live: bool,
    pub active_alias_in_skipped_text: bool,
    pub letters: usize,
}

impl Cond {
    pub fn render(&self) -> Rendered {
        let mut r = Rendered { tokens: vec![], expected: vec![], facts: TreeFacts::default() };
        let mut next_letter = 0usize;
        self.render_into(Ctx::Live, 1, &mut next_letter, &mut r);
        r.facts.letters = next_letter;
        r
    }
    fn render_into(&self, ctx: Ctx, depth: usize, next_letter: &mut usize, r: &mut Rendered) {
        let live = ctx == Ctx::Live;
        r.facts.nodes += 1;
        r.facts.depth = r.facts.depth.max(depth);
        if !live && self.v.is_alias() {
            r.facts.aliased_conditional_in_skipped_text = true;
        }
        match self.v.head {
            Head::IfEof(_) if !live => r.facts.skipped_ifeof = true,
            Head::IfHarness(_) if !live => r.facts.skipped_harness_condition = true,
            Head::IfEof(_) | Head::IfHarness(_) => r.facts.live_ifeof_or_harness_condition = true,
            _ => {}
        }
        if self.v.uses_active_if() || self.v.uses_active_fi() {
            r.facts.active_if |= self.v.uses_active_if();
            r.facts.active_fi |= self.v.uses_active_fi();
            if live {
                r.facts.active_alias_live = true;
            } else {
                r.facts.active_alias_in_skipped_text = true;
            }
        }
        if !live && self.v.ors > 0 {
            r.facts.or_at_depth_gt0_in_skipped_text = true;
        }
        if !live && self.v.has_else {
            r.facts.else_at_depth_gt0_in_skipped_text = true;
        }
        if live {
            if let Some(n) = self.v.case_value() {
                if n < 0 {
                    r.facts.ifcase_negative = true;
                } else if n as usize > self.v.ors {
                    r.facts.ifcase_out_of_range = true;
                }
            }
            let odd_operand = match self.v.head {
                Head::IfOdd(n) => Some(n),
                Head::IfOddText(t) => Some(signed_value(t)),
                _ => None,
            };
            if let Some(n) = odd_operand {
                if n < 0 && n % 2 != 0 {
                    r.facts.negative_odd_live = true;
                }
            }
        }
        self.v.head_tokens(&mut r.tokens);
        let sel = if live { self.v.selected() } else { None };
        for (i, body) in self.bodies.iter().enumerate() {
            if i > 0 {
                if self.v.has_else && i == self.bodies.len() - 1 {
                    r.tokens.push(Tok::Cs(if self.v.is_alias() { "myelse" } else { "else" }));
                } else {
                    r.tokens.push(Tok::Cs("or"));
                }
            }
            let bctx = match ctx {
                Ctx::Live if sel == Some(i) => Ctx::Live,
                Ctx::Live => Ctx::Skipped,
                _ => Ctx::Deep,
            };
            if live {
                if bctx == Ctx::Live {
                    r.facts.some_branch_delivered = true;
                    if self.v.case_value().is_some() && i < self.v.ors {
                        r.facts.live_branch_ended_by_or = true;
                    }
                } else {
                    r.facts.some_branch_skipped = true;
                }
            }
            for it in body {
                match it {
                    Item::Letter => {
                        let t = Tok::Ch(LETTERS[*next_letter % LETTERS.len()] as char, 11);
                        *next_letter += 1;
                        r.tokens.push(t);
                        if bctx == Ctx::Live {
                            r.expected.push(t);
                        }
                    }
                    Item::Lit(t) => {
                        r.tokens.push(*t);
                        if bctx == Ctx::Live {
                            r.expected.push(*t);
                        }
                    }
                    Item::Junk(t) => {
                        assert!(bctx != Ctx::Live, "junk in a live body");
                        if t.is_brace() {
                            r.facts.brace_in_skipped_text = true;
                        }
                        if *t == Tok::Cs("or") {
                            r.facts.or_at_depth_gt0_in_skipped_text = true;
                        }
                        if *t == Tok::Cs("else") || *t == Tok::Cs("myelse") {
                            r.facts.else_at_depth_gt0_in_skipped_text = true;
                        }
                        r.tokens.push(*t);
                    }
                    Item::Cond(c) => c.render_into(bctx, depth + 1, next_letter, r),
                }
            }
        }
        r.tokens.push(if self.v.uses_active_fi() { ACTIVE } else { Tok::Cs(if self.v.is_alias() { "myfi" } else { "fi" }) });
    }

    /// The places where a junk token can be inserted: (path of body, position in the body, context).
    /// A path is a list of (item index in the enclosing body is implicit) steps: it addresses the
    /// `k`-th skipped/deep body in rendering order.
    pub fn junk_slots(&self) -> Vec<(usize, usize, Ctx)> {
        let mut out = vec![];
        let mut body_no = 0usize;
        self.slots_into(Ctx::Live, &mut body_no, &mut out);
        out
    }
    fn slots_into(&self, ctx: Ctx, body_no: &mut usize, out: &mut Vec<(usize, usize, Ctx)>) {
        let sel = if ctx == Ctx::Live { self.v.selected() } else { None };
        for (i, body) in self.bodies.iter().enumerate() {
            let bctx = match ctx {
                Ctx::Live if sel == Some(i) => Ctx::Live,
                Ctx::Live => Ctx::Skipped,
                _ => Ctx::Deep,
            };
            let my_no = *body_no;
            *body_no += 1;
            if bctx != Ctx::Live {
                for pos in 0..=body.len() {
                    out.push((my_no, pos, bctx));
                }
            }
            for it in body {
                if let Item::Cond(c) = it {
                    c.slots_into(bctx, body_no, out);
                }
            }
        }
    }
    /// Insert `junk` at position `pos` of body number `body_no` (numbering of `junk_slots`).
    pub fn insert_junk(&mut self, body_no: usize, pos: usize, junk: Tok) {
        let mut n = 0usize;
        let done = self.insert_into(body_no, pos, junk, &mut n);
        assert!(done, "no such body");
    }
    fn insert_into(&mut self, target: usize, pos: usize, junk: Tok, n: &mut usize) -> bool {
        for body in self.bodies.iter_mut() {
            let my_no = *n;
            *n += 1;
            if my_no == target {
                body.insert(pos, Item::Junk(junk));
                return true;
            }
            for it in body.iter_mut() {
                if let Item::Cond(c) = it {
                    if c.insert_into(target, pos, junk, n) {
                        return true;
                    }
                }
            }
        }
        false
    }
}

/// Junk that may stand at a slot of the given context without making TeX complain:
/// braces and a macro hiding a `\fi` anywhere in skipped text; `\or` and `\else` only where the
/// skipping routine is at nesting level >= 1 (§494 `pass_text` ignores them there; at level 0 TeX
/// would treat them as belonging to the conditional being skipped).
pub fn junk_menu(ctx: Ctx) -> Vec<Tok> {
    let mut v = vec![Tok::Ch('{', 1), Tok::Ch('}', 2), Tok::Cs("hidfi")];
    if ctx == Ctx::Deep {
        v.push(Tok::Cs("or"));
        v.push(Tok::Cs("else"));
    }
    if ctx == Ctx::Live {
        v.clear();
    }
    v
}

// ------------------------------------------------------------------ enumeration of all trees

#[derive(Clone, Copy, PartialEq, Eq, Debug)]
pub enum FormItem {
    L,
    C,
}

/// All conditionals with 1..=max_nodes nodes and nesting depth <= max_depth whose nodes are taken from
/// `variants` and whose bodies are taken from `forms` (sequences over {letter, nested conditional}).
pub struct Shape {
    pub variants: Vec<Variant>,
    pub forms: Vec<Vec<FormItem>>,
    pub max_nodes: usize,
    pub max_depth: usize,
    /// cond[n][d]: conditionals with exactly n nodes, depth <= d
    cond: Vec<Vec<u64>>,
    /// body[n][d]: bodies containing exactly n nodes, nested conditionals of depth <= d
    body: Vec<Vec<u64>>,
    /// seq[k][n][d]: k-tuples of bodies with n nodes in total
    seq: Vec<Vec<Vec<u64>>>,
}

impl Shape {
    pub fn new(variants: Vec<Variant>, forms: Vec<Vec<FormItem>>, max_nodes: usize, max_depth: usize) -> Shape {
        let maxk = variants.iter().map(|v| v.branches()).max().unwrap_or(0);
        let (n1, d1) = (max_nodes + 1, max_depth + 1);
        let mut s = Shape { variants, forms, max_nodes, max_depth, cond: vec![vec![0; d1]; n1], body: vec![vec![0; d1]; n1], seq: vec![vec![vec![0; d1]; n1]; maxk + 1] };
        // depth d tables depend on depth d-1 tables of conds; fill by increasing d, then n
        for d in 0..d1 {
            for n in 0..n1 {
                // cond[n][d]
                if n >= 1 && d >= 1 {
                    let mut c = 0u64;
                    for v in &s.variants {
                        c += s.seq[v.branches()][n - 1][d - 1];
                    }
                    s.cond[n][d] = c;
                }
            }
            for n in 0..n1 {
                let mut b = 0u64;
                for f in &s.forms {
                    b += s.form_count(f, n, d);
                }
                s.body[n][d] = b;
            }
            for k in 0..=maxk {
                for n in 0..n1 {
                    s.seq[k][n][d] = if k == 0 {
                        (n == 0) as u64
                    } else {
                        (0..=n).map(|j| s.body[j][d] * s.seq[k - 1][n - j][d]).sum()
                    };
                }
            }
        }
        s
    }
    fn form_count(&self, f: &[FormItem], n: usize, d: usize) -> u64 {
        let c = f.iter().filter(|x| **x == FormItem::C).count();
        match c {
            0 => (n == 0) as u64,
            1 => self.cond[n][d],
            2 => (1..n).map(|j| self.cond[j][d] * self.cond[n - j][d]).sum(),
            _ => panic!("at most two nested conditionals per body"),
        }
    }
    pub fn total(&self) -> u64 {
        (1..=self.max_nodes).map(|n| self.cond[n][self.max_depth]).sum()
    }
    pub fn count_with_nodes(&self, n: usize) -> u64 {
        self.cond[n][self.max_depth]
    }
    pub fn unrank(&self, mut idx: u64) -> Cond {
        for n in 1..=self.max_nodes {
            let c = self.cond[n][self.max_depth];
            if idx < c {
                return self.unrank_cond(idx, n, self.max_depth);
            }
            idx -= c;
        }
        panic!("index out of range");
    }
    fn unrank_cond(&self, mut idx: u64, n: usize, d: usize) -> Cond {
        for v in &self.variants {
            let c = self.seq[v.branches()][n - 1][d - 1];
            if idx < c {
                return Cond { v: v.clone(), bodies: self.unrank_seq(idx, v.branches(), n - 1, d - 1) };
            }
            idx -= c;
        }
        panic!("unrank_cond");
    }
    fn unrank_seq(&self, mut idx: u64, k: usize, n: usize, d: usize) -> Vec<Vec<Item>> {
        if k == 0 {
            return vec![];
        }
        for j in 0..=n {
            let c = self.body[j][d] * self.seq[k - 1][n - j][d];
            if idx < c {
                let rest = self.seq[k - 1][n - j][d];
                let mut v = vec![self.unrank_body(idx / rest, j, d)];
                v.extend(self.unrank_seq(idx % rest, k - 1, n - j, d));
                return v;
            }
            idx -= c;
        }
        panic!("unrank_seq");
    }
    fn unrank_body(&self, mut idx: u64, n: usize, d: usize) -> Vec<Item> {
        for f in &self.forms {
            let c = self.form_count(f, n, d);
            if idx < c {
                let nc = f.iter().filter(|x| **x == FormItem::C).count();
                let conds: Vec<Cond> = match nc {
                    0 => vec![],
                    1 => vec![self.unrank_cond(idx, n, d)],
                    _ => {
                        let mut out = vec![];
                        for j in 1..n {
                            let cj = self.cond[j][d] * self.cond[n - j][d];
                            if idx < cj {
                                let r = self.cond[n - j][d];
                                out = vec![self.unrank_cond(idx / r, j, d), self.unrank_cond(idx % r, n - j, d)];
                                break;
                            }
                            idx -= cj;
                        }
                        out
                    }
                };
                let mut it = conds.into_iter();
                return f
                    .iter()
                    .map(|x| match x {
                        FormItem::L => Item::Letter,
                        FormItem::C => Item::Cond(it.next().expect("cond")),
                    })
                    .collect();
            }
            idx -= c;
        }
        panic!("unrank_body");
    }
}

// =================================================================================================
// 2. reference expander
// =================================================================================================

#[derive(Clone, Debug, PartialEq, Eq)]
pub enum Meaning {
    /// parameterless macro
    Macro(Vec<Tok>),
    ExpandAfter,
    NoExpand,
    IfTrue,
    IfFalse,
    IfNum,
    IfOdd,
    IfCase,
    /// `\ifeof`: scans a stream number; every stream is closed in this model, so the test is true
    IfEofClosed,
    /// a conditional without operand whose value is fixed
    IfConst(bool),
    Else,
    Fi,
    Or,
    /// `\relax` and every other unexpandable primitive
    Unexpandable,
    /// no meaning (§366: expanding it is the error "Undefined control sequence")
    Undefined(&'static str),
}
impl Meaning {
    /// `cur_cmd > max_command`
    pub fn expandable(&self) -> bool {
        !matches!(self, Meaning::Unexpandable)
    }
}
pub type Env = BTreeMap<&'static str, Meaning>;

/// Key under which the meaning of the active character `c` is stored in an `Env`.
pub fn active_key(c: char) -> &'static str {
    match c {
        '~' => "~",
        '|' => "|",
        '!' => "!",
        _ => "<active character>",
    }
}

/// The primitives under their usual names.
pub fn primitives() -> Env {
    BTreeMap::from([
        ("xa", Meaning::ExpandAfter),
        ("noexpand", Meaning::NoExpand),
        ("iftrue", Meaning::IfTrue),
        ("iffalse", Meaning::IfFalse),
        ("ifnum", Meaning::IfNum),
        ("ifodd", Meaning::IfOdd),
        ("ifcase", Meaning::IfCase),
        ("ifeof", Meaning::IfEofClosed),
        ("ifht", Meaning::IfConst(true)),
        ("ifhf", Meaning::IfConst(false)),
        ("else", Meaning::Else),
        ("fi", Meaning::Fi),
        ("or", Meaning::Or),
        ("relax", Meaning::Unexpandable),
        ("END", Meaning::Unexpandable),
    ])
}

#[derive(Clone, Debug, PartialEq, Eq)]
pub enum Stop {
    /// the token list ended where TeX needs another token (fatal in TeX: the file ended)
    EndOfInput,
    /// §510 "Extra \else / \fi / \or", §500 "Extra \or"
    Extra(&'static str),
    /// §403/§415 "Missing number", §503 "Missing = inserted for \ifnum", §445 "Number too big"
    BadNumber(&'static str),
    /// behaviour the model does not cover (stated domain restriction of the check), e.g. §510 insert_relax
    /// while a condition is still being evaluated
    OutsideDomain(&'static str),
    /// expansion budget of the model exhausted
    Budget,
    /// a control sequence without meaning was met (TeX: "Undefined control sequence")
    Undefined(&'static str),
}

#[derive(Clone, Copy, Debug, Default, PartialEq, Eq)]
pub struct Events {
    /// an `\expandafter` performed its expansion step on `\noexpand` followed by an expandable token
    pub xa_on_noexpand_expandable: bool,
    /// ... by any control sequence token
    pub xa_on_noexpand: bool,
    /// deepest recursion of `\expandafter` expanding `\expandafter`
    pub xa_chain: usize,
    /// a marked token was read while text was being skipped
    pub marked_token_skipped: bool,
    /// a marked token was read as the first or second token of an `\expandafter` or by `\noexpand` (the marker is dropped by back_input)
    pub marker_dropped_by_backup: bool,
    /// the token an `\expandafter` expanded was an active character
    pub xa_expands_active_char: bool,
    /// largest number of space tokens skipped between the first operand of an \ifnum and its relation (§406)
    pub blanks_before_relation: usize,
    pub expansions: usize,
    pub max_cond_depth: usize,
}

// §489 codes
const IF_CODE: u8 = 1;
const FI_CODE: u8 = 2;
const ELSE_CODE: u8 = 3;
const OR_CODE: u8 = 4;

#[derive(Clone, Copy, PartialEq, Eq)]
enum Site {
    Main,
    ExpandAfter,
}

pub struct Expander<'a> {
    env: &'a Env,
    /// the input, last element = next token; the flag is the don't-expand marker in front of the token
    stack: Vec<(Tok, bool)>,
    /// `if_limit` of every open conditional (§489: cond_ptr stack), last = innermost
    limits: Vec<u8>,
    pub out: Vec<Tok>,
    pub keep_marker: bool,
    pub budget: usize,
    pub events: Events,
    xa_depth: usize,
}

impl<'a> Expander<'a> {
    pub fn new(env: &'a Env, input: &[Tok], keep_marker: bool) -> Expander<'a> {
        Expander { env, stack: input.iter().rev().map(|t| (*t, false)).collect(), limits: vec![], out: vec![], keep_marker, budget: 5000, events: Events::default(), xa_depth: 0 }
    }
    /// Run to the end of the input; the delivered tokens are in `out` (also after a `Stop`).
    pub fn run(&mut self) -> Result<(), Stop> {
        while let Some((t, _)) = self.get_x_token()? {
            self.out.push(t);
        }
        Ok(())
    }
    pub fn open_conditionals(&self) -> usize {
        self.limits.len()
    }
    fn meaning(&self, t: Tok) -> Meaning {
        match t {
            Tok::Cs(n) => self.env.get(n).cloned().unwrap_or(Meaning::Undefined(n)),
            // an active character is a control sequence token like any other (§289: cs_token_flag+active_base+c);
            // its meaning is stored in the environment under the one-character name
            Tok::Ch(c, 13) => {
                let n = active_key(c);
                self.env.get(n).cloned().unwrap_or(Meaning::Undefined(n))
            }
            _ => Meaning::Unexpandable,
        }
    }
    /// §357-358 get_next: (token, its meaning, "meaning replaced by \relax because of a don't-expand marker")
    fn get_next(&mut self) -> Result<Option<(Tok, Meaning, bool)>, Stop> {
        match self.stack.pop() {
            None => Ok(None),
            Some((t, marked)) => {
                let m = self.meaning(t);
                if marked && m.expandable() {
                    // §358: cur_cmd:=relax; cur_chr:=no_expand_flag
                    Ok(Some((t, Meaning::Unexpandable, true)))
                } else {
                    Ok(Some((t, m, false)))
                }
            }
        }
    }
    /// §325 back_input: only the token goes back, a marker is not re-created
    fn back_input(&mut self, t: Tok) {
        self.stack.push((t, false));
    }
    /// §380 get_x_token
    fn get_x_token(&mut self) -> Result<Option<(Tok, bool)>, Stop> {
        loop {
            match self.get_next()? {
                None => return Ok(None),
                Some((t, m, noexp)) => {
                    if m.expandable() {
                        self.expand(m, Site::Main)?;
                    } else {
                        return Ok(Some((t, noexp)));
                    }
                }
            }
        }
    }
    /// §366 expand (and §389 macro_call for parameterless macros)
    fn expand(&mut self, m: Meaning, site: Site) -> Result<(), Stop> {
        self.events.expansions += 1;
        if self.events.expansions > self.budget {
            return Err(Stop::Budget);
        }
        match m {
            Meaning::Macro(body) => {
                for t in body.iter().rev() {
                    self.stack.push((*t, false));
                }
                Ok(())
            }
            Meaning::ExpandAfter => {
                // §368: get_token; t:=cur_tok; get_token; if cur_cmd>max_command then expand else back_input; cur_tok:=t; back_input
                let (t, _, dropped1) = self.get_next()?.ok_or(Stop::EndOfInput)?;
                let (t2, m2, dropped2) = self.get_next()?.ok_or(Stop::EndOfInput)?;
                if dropped1 || dropped2 {
                    self.events.marker_dropped_by_backup = true;
                }
                if m2.expandable() {
                    if matches!(t2, Tok::Ch(_, 13)) {
                        self.events.xa_expands_active_char = true;
                    }
                    self.xa_depth += 1;
                    if m2 == Meaning::ExpandAfter {
                        self.events.xa_chain = self.events.xa_chain.max(self.xa_depth + 1);
                    }
                    let r = self.expand(m2, Site::ExpandAfter);
                    self.xa_depth -= 1;
                    r?;
                } else {
                    self.back_input(t2);
                }
                self.back_input(t);
                Ok(())
            }
            Meaning::NoExpand => {
                // §367: get_token; t:=cur_tok; back_input; if t>=cs_token_flag then put a frozen_dont_expand marker in front
                let (t, _, dropped) = self.get_next()?.ok_or(Stop::EndOfInput)?;
                if dropped {
                    self.events.marker_dropped_by_backup = true;
                }
                let is_cs = matches!(t, Tok::Cs(_) | Tok::Ch(_, 13));
                if site == Site::ExpandAfter && is_cs {
                    self.events.xa_on_noexpand = true;
                    if self.meaning(t).expandable() {
                        self.events.xa_on_noexpand_expandable = true;
                    }
                }
                let keep = self.keep_marker || site == Site::Main;
                self.stack.push((t, is_cs && keep));
                Ok(())
            }
            Meaning::IfTrue | Meaning::IfFalse | Meaning::IfNum | Meaning::IfOdd | Meaning::IfCase | Meaning::IfEofClosed | Meaning::IfConst(_) => self.conditional(m),
            Meaning::Fi => self.fi_or_else(FI_CODE),
            Meaning::Else => self.fi_or_else(ELSE_CODE),
            Meaning::Or => self.fi_or_else(OR_CODE),
            Meaning::Undefined(n) => Err(Stop::Undefined(n)),
            Meaning::Unexpandable => unreachable!(),
        }
    }
    /// §494 pass_text: skip to the next `\fi`, `\else` or `\or` at level 0; returns its code
    fn pass_text(&mut self) -> Result<u8, Stop> {
        let mut l = 0usize;
        loop {
            let (_, m, noexp) = self.get_next()?.ok_or(Stop::EndOfInput)?;
            if noexp {
                self.events.marked_token_skipped = true;
            }
            let code = match m {
                Meaning::Fi => FI_CODE,
                Meaning::Else => ELSE_CODE,
                Meaning::Or => OR_CODE,
                Meaning::IfTrue | Meaning::IfFalse | Meaning::IfNum | Meaning::IfOdd | Meaning::IfCase | Meaning::IfEofClosed | Meaning::IfConst(_) => {
                    l += 1;
                    continue;
                }
                _ => continue,
            };
            if l == 0 {
                return Ok(code);
            }
            if code == FI_CODE {
                l -= 1;
            }
        }
    }
    /// §496 pop the condition stack
    fn pop_cond(&mut self) {
        self.limits.pop();
    }
    /// §498 conditional
    fn conditional(&mut self, m: Meaning) -> Result<(), Stop> {
        // §495 push the condition stack; if_limit:=if_code
        self.limits.push(IF_CODE);
        self.events.max_cond_depth = self.events.max_cond_depth.max(self.limits.len());
        let save = self.limits.len(); // identifies this conditional: it is limits[save-1]
        let b = match m {
            Meaning::IfTrue => true,
            Meaning::IfFalse => false,
            Meaning::IfConst(b) => b,
            Meaning::IfEofClosed => {
                // §501 if_eof_code: scan_four_bit_int; b:=(read_open[cur_val]=closed)
                let n = self.scan_int()?;
                if !(0..=15).contains(&n) {
                    return Err(Stop::BadNumber("Bad number (a stream number must be in 0..15)"));
                }
                true
            }
            Meaning::IfNum => {
                // §503
                let a = self.scan_int()?;
                let mut blanks = 0usize;
                let r = loop {
                    // §406 get the next non-blank non-call token
                    let (t, _) = self.get_x_token()?.ok_or(Stop::EndOfInput)?;
                    if !matches!(t, Tok::Ch(_, 10)) {
                        break t;
                    }
                    blanks += 1;
                };
                self.events.blanks_before_relation = self.events.blanks_before_relation.max(blanks);
                let r = match r {
                    Tok::Ch(c @ ('<' | '=' | '>'), 12) => c,
                    _ => return Err(Stop::BadNumber("Missing = inserted for \\ifnum")),
                };
                let b = self.scan_int()?;
                match r {
                    '<' => a < b,
                    '>' => a > b,
                    _ => a == b,
                }
            }
            Meaning::IfOdd => self.scan_int()?.rem_euclid(2) == 1, // §504 odd(cur_val)
            Meaning::IfCase => {
                // §509
                let mut n = self.scan_int()?;
                while n != 0 {
                    let code = self.pass_text()?;
                    if self.limits.len() == save {
                        if code == OR_CODE {
                            n -= 1;
                        } else {
                            // goto common_ending
                            if code == FI_CODE {
                                self.pop_cond();
                            } else {
                                self.limits[save - 1] = FI_CODE;
                            }
                            return Ok(());
                        }
                    } else if code == FI_CODE {
                        self.pop_cond();
                    }
                }
                self.limits[save - 1] = OR_CODE; // change_if_limit(or_code, save_cond_ptr)
                return Ok(()); // wait for \or, \else, or \fi
            }
            _ => unreachable!(),
        };
        if b {
            self.limits[save - 1] = ELSE_CODE; // change_if_limit(else_code, save_cond_ptr): wait for \else or \fi
            return Ok(());
        }
        // §500 skip to \else or \fi, then goto common_ending
        let code = loop {
            let code = self.pass_text()?;
            if self.limits.len() == save {
                if code != OR_CODE {
                    break code;
                }
                return Err(Stop::Extra("or"));
            } else if code == FI_CODE {
                self.pop_cond();
            }
        };
        // common_ending
        if code == FI_CODE {
            self.pop_cond();
        } else {
            self.limits[save - 1] = FI_CODE; // wait for \fi
        }
        Ok(())
    }
    /// §510 terminate the current conditional and skip to \fi
    fn fi_or_else(&mut self, code: u8) -> Result<(), Stop> {
        let if_limit = self.limits.last().copied().unwrap_or(0);
        if code > if_limit {
            if if_limit == IF_CODE {
                // insert_relax: the condition is not yet evaluated (\ifnum1<2\else ...)
                return Err(Stop::OutsideDomain("\\fi, \\else or \\or met while a condition was being scanned (TeX inserts \\relax)"));
            }
            return Err(Stop::Extra(match code {
                FI_CODE => "fi",
                ELSE_CODE => "else",
                _ => "or",
            }));
        }
        let mut c = code;
        while c != FI_CODE {
            c = self.pass_text()?; // skip to \fi
        }
        self.pop_cond();
        Ok(())
    }
    /// §440-§445 scan_int for decimal constants
    fn scan_int(&mut self) -> Result<i64, Stop> {
        let mut negative = false;
        // §441 get the next non-blank non-sign token; set negative appropriately
        let mut cur = loop {
            let t = loop {
                let (t, _) = self.get_x_token()?.ok_or(Stop::EndOfInput)?;
                if !matches!(t, Tok::Ch(_, 10)) {
                    break t;
                }
            };
            if t == Tok::Ch('-', 12) {
                negative = !negative;
            } else if t != Tok::Ch('+', 12) {
                break t;
            }
        };
        if !matches!(cur, Tok::Ch('0'..='9', 12)) {
            return Err(Stop::BadNumber("Missing number (or a non-decimal constant, which this model does not cover)"));
        }
        // §444-445 accumulate the constant until cur_tok is not a suitable digit
        let mut val = 0i64;
        loop {
            match cur {
                Tok::Ch(d @ '0'..='9', 12) => {
                    val = val * 10 + (d as i64 - '0' as i64);
                    if val > crate::arith::INFINITY {
                        return Err(Stop::BadNumber("Number too big"));
                    }
                }
                _ => {
                    // §444: if cur_cmd<>spacer then back_input
                    if !matches!(cur, Tok::Ch(_, 10)) {
                        self.back_input(cur);
                    }
                    break;
                }
            }
            cur = match self.get_x_token()? {
                Some((t, _)) => t,
                None => return Err(Stop::EndOfInput),
            };
        }
        Ok(if negative { -val } else { val })
    }
}

/// Convenience: run the expander; `Ok(delivered tokens)` or the reason it stopped.
pub fn expand_all(env: &Env, input: &[Tok], keep_marker: bool) -> (Result<Vec<Tok>, Stop>, Events) {
    let mut e = Expander::new(env, input, keep_marker);
    let r = e.run();
    let ev = e.events;
    (r.map(|_| e.out), ev)
}

#[cfg(test)]
mod tests {
    use super::*;
    fn cs(n: &'static str) -> Tok {
        Tok::Cs(n)
    }
    fn ch(c: char) -> Tok {
        Tok::Ch(c, if c.is_ascii_alphabetic() { 11 } else { 12 })
    }
    fn env() -> Env {
        let mut e = primitives();
        e.insert("a", Meaning::Macro(vec![cs("b")]));
        e.insert("b", Meaning::Macro(vec![ch('y')]));
        e.insert("c", Meaning::Macro(vec![]));
        e
    }
    #[test]
    fn noexpand_marker() {
        let e = env();
        // \xa\a\noexpand\a : TeX delivers y \a ; an implementation that loses the marker delivers y y
        let inp = [cs("xa"), cs("a"), cs("noexpand"), cs("a")];
        assert_eq!(expand_all(&e, &inp, true).0, Ok(vec![ch('y'), cs("a")]));
        assert_eq!(expand_all(&e, &inp, false).0, Ok(vec![ch('y'), ch('y')]));
        // the repository's test only_expands_once: \xa\noexpand\A -> \B (here \a -> \b)
        assert_eq!(expand_all(&e, &[cs("xa"), cs("noexpand"), cs("a")], true).0, Ok(vec![cs("b")]));
        // marker dropped when the marked token is backed up by an outer \expandafter
        let inp = [cs("xa"), cs("xa"), cs("xa"), ch('x'), cs("noexpand"), cs("a")];
        assert_eq!(expand_all(&e, &inp, true).0, Ok(vec![ch('x'), ch('y')]));
    }
    #[test]
    fn active_characters() {
        let mut e = env();
        e.insert("~", Meaning::Macro(vec![cs("b")]));
        let t = Tok::Ch('~', 13);
        assert_eq!(expand_all(&e, &[cs("xa"), ch('x'), t], true).0, Ok(vec![ch('x'), cs("b")].into_iter().flat_map(|x| if x == cs("b") { vec![ch('y')] } else { vec![x] }).collect::<Vec<_>>()));
        assert_eq!(expand_all(&e, &[cs("noexpand"), t, t], true).0, Ok(vec![t, ch('y')]));
        e.insert("~", Meaning::IfFalse);
        assert_eq!(expand_all(&e, &[t, ch('p'), cs("else"), ch('q'), cs("fi")], true).0, Ok(vec![ch('q')]));
        assert_eq!(expand_all(&e, &[cs("iffalse"), t, cs("fi"), ch('p'), cs("fi"), ch('q')], true).0, Ok(vec![ch('q')]));
    }
    #[test]
    fn conditionals() {
        let e = env();
        let sp = SPACE;
        let inp = [cs("ifnum"), ch('1'), sp, ch('<'), ch('2'), sp, ch('p'), cs("else"), ch('q'), cs("fi"), ch('r')];
        assert_eq!(expand_all(&e, &inp, true).0, Ok(vec![ch('p'), ch('r')]));
        let inp = [cs("ifodd"), ch('-'), ch('3'), sp, ch('p'), cs("else"), ch('q'), cs("fi")];
        assert_eq!(expand_all(&e, &inp, true).0, Ok(vec![ch('p')]));
        let inp = [cs("ifcase"), ch('1'), sp, ch('p'), cs("iftrue"), cs("or"), cs("fi"), cs("or"), ch('q'), cs("or"), ch('r'), cs("else"), ch('s'), cs("fi"), ch('t')];
        assert_eq!(expand_all(&e, &inp, true).0, Ok(vec![ch('q'), ch('t')]));
        let inp = [cs("iftrue"), ch('p'), cs("or"), cs("fi")];
        assert_eq!(expand_all(&e, &inp, true).0, Err(Stop::Extra("or")));
        let inp = [cs("ifnum"), ch('1'), ch('<'), ch('2'), cs("else"), cs("fi")];
        assert!(matches!(expand_all(&e, &inp, true).0, Err(Stop::OutsideDomain(_))));
    }
    #[test]
    fn enumeration_is_a_bijection() {
        let variants = vec![Variant::new(Head::IfTrue, 0, false), Variant::new(Head::IfFalse, 0, true), Variant::new(Head::IfCase(1), 1, false)];
        let forms = vec![vec![FormItem::L], vec![FormItem::C], vec![FormItem::L, FormItem::C], vec![FormItem::C, FormItem::C]];
        let s = Shape::new(variants, forms, 4, 3);
        let n = s.total();
        assert!(n > 100);
        let mut seen = std::collections::HashSet::new();
        let e = {
            let mut e = primitives();
            e.insert("myif", Meaning::IfTrue);
            e
        };
        for i in 0..n {
            let c = s.unrank(i);
            let r = c.render();
            assert!(r.facts.nodes <= 4 && r.facts.depth <= 3);
            assert!(seen.insert(format!("{:?}", c)), "duplicate tree at {i}");
            assert_eq!(expand_all(&e, &r.tokens, true).0, Ok(r.expected.clone()), "tree {i}");
        }
    }
}
