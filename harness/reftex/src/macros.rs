//! TeX's macro definitions and calls on token lists: `scan_toks(macro_def=true)` tex.web §473-479 and
//! `macro_call` §389-400, transliterated. A token is a control sequence (by name) or a character with
//! its category code; nothing here knows about the repository's types.
//!
//! Pascal's linked lists become vectors and the pointers `r`, `s`, `t`, `u`, `v` become indices into
//! the parameter part, but the control flow (labels `continue`, `found`, `done`, `done1`) is kept.

pub type Cat = u8;
pub const LEFT_BRACE: Cat = 1;
pub const RIGHT_BRACE: Cat = 2;
pub const MAC_PARAM: Cat = 6;
pub const SPACER: Cat = 10;
pub const LETTER: Cat = 11;
pub const OTHER: Cat = 12;

#[derive(Clone, Copy, PartialEq, Eq, Hash, Debug, PartialOrd, Ord)]
pub enum Tok {
    /// control sequence, by name (without the escape character)
    Cs(&'static str),
    /// character token with its category code
    Ch(char, Cat),
}

impl Tok {
    /// `cur_tok < right_brace_limit` (§289): a left or right brace character token
    #[inline]
    pub fn is_brace(self) -> bool {
        matches!(self, Tok::Ch(_, LEFT_BRACE) | Tok::Ch(_, RIGHT_BRACE))
    }
    #[inline]
    pub fn is_left_brace(self) -> bool {
        matches!(self, Tok::Ch(_, LEFT_BRACE))
    }
    #[inline]
    pub fn is_right_brace(self) -> bool {
        matches!(self, Tok::Ch(_, RIGHT_BRACE))
    }
    /// §289 `space_token`: the one blank-space token the scanner produces
    #[inline]
    pub fn is_space_token(self) -> bool {
        self == Tok::Ch(' ', SPACER)
    }
    pub fn show(self) -> String {
        match self {
            Tok::Cs(n) => format!("\\{n}"),
            Tok::Ch(c, cat) => format!("{c}/{cat}"),
        }
    }
}
pub fn show(ts: &[Tok]) -> String {
    ts.iter().map(|t| t.show()).collect::<Vec<_>>().join(" ")
}

/// Item of the parameter part of a macro's token list (§200: `match`, `end_match`, ordinary tokens).
#[derive(Clone, Copy, PartialEq, Eq, Debug)]
pub enum PItem {
    Tok(Tok),
    /// `match_token + c`: a parameter; `c` is the character that was used as `#`
    Match(char),
    EndMatch,
}
impl PItem {
    /// `(info(r) >= match_token) and (info(r) <= end_match_token)`
    #[inline]
    fn is_match_or_end(self) -> bool {
        matches!(self, PItem::Match(_) | PItem::EndMatch)
    }
}
/// Item of the replacement text: ordinary token or `out_param` n (1..=9).
#[derive(Clone, Copy, PartialEq, Eq, Debug)]
pub enum BItem {
    Tok(Tok),
    Out(u8),
}

#[derive(Clone, PartialEq, Eq, Debug)]
pub struct MacroDef {
    /// parameter part, always terminated by `EndMatch`
    pub params: Vec<PItem>,
    pub body: Vec<BItem>,
}

#[derive(Clone, Copy, PartialEq, Eq, Debug)]
pub enum DefErr {
    /// §475 "Missing { inserted": a right brace ended the parameter part
    MissingLeftBrace,
    /// §476 "You already have nine parameters"
    TooManyParameters,
    /// §476 "Parameters must be numbered consecutively"
    NotConsecutive,
    /// §479 "Illegal parameter number in definition"
    IllegalParameterNumber,
    /// the token list ended inside the definition (§338/§339 "File ended while scanning definition")
    EndOfInput,
}

/// §473-479: scan the parameter part and the body of a `\def`, starting right after the control
/// sequence being defined. Returns the definition and the number of tokens consumed (including the
/// closing right brace). The recoverable error paths of TeX are reported as `Err` (the checks treat
/// them as outside the domain); they are *not* recovered from.
pub fn scan_def(input: &[Tok]) -> Result<(MacroDef, usize), DefErr> {
    let mut pos = 0usize;
    let mut params: Vec<PItem> = vec![];
    let mut body: Vec<BItem> = vec![];
    let mut hash_brace: Option<Tok> = None;
    let mut t: u8 = 0; // number of parameters so far (§473: t = zero_token + count)
    let get = |pos: &mut usize| -> Result<Tok, DefErr> {
        let x = *input.get(*pos).ok_or(DefErr::EndOfInput)?;
        *pos += 1;
        Ok(x)
    };
    // §474 Scan and build the parameter part of the macro definition
    'params: {
        loop {
            let cur = get(&mut pos)?; // continue: get_token
            if cur.is_brace() {
                // goto done1
                params.push(PItem::EndMatch);
                if cur.is_right_brace() {
                    return Err(DefErr::MissingLeftBrace); // §475
                }
                break 'params;
            }
            if let Tok::Ch(c, MAC_PARAM) = cur {
                // §476
                let nxt = get(&mut pos)?;
                if nxt.is_left_brace() {
                    hash_brace = Some(nxt);
                    params.push(PItem::Tok(nxt));
                    params.push(PItem::EndMatch);
                    break 'params; // goto done
                }
                if t == 9 {
                    return Err(DefErr::TooManyParameters);
                }
                t += 1;
                if nxt != Tok::Ch((b'0' + t) as char, OTHER) {
                    return Err(DefErr::NotConsecutive);
                }
                params.push(PItem::Match(c)); // cur_tok := s
                continue;
            }
            params.push(PItem::Tok(cur));
        }
    }
    // §477 Scan and build the body of the token list; goto found when finished
    let mut unbalance = 1i64;
    loop {
        let mut cur = BItem::Tok(get(&mut pos)?);
        if let BItem::Tok(c) = cur {
            if c.is_brace() {
                if c.is_left_brace() {
                    unbalance += 1;
                } else {
                    unbalance -= 1;
                    if unbalance == 0 {
                        break; // goto found
                    }
                }
            } else if let Tok::Ch(_, MAC_PARAM) = c {
                // §479 Look for parameter number or ##
                let nxt = get(&mut pos)?;
                match nxt {
                    Tok::Ch(_, MAC_PARAM) => cur = BItem::Tok(nxt), // ## : the second token is stored as it is
                    Tok::Ch(d, OTHER) if ('1'..='9').contains(&d) && (d as u8 - b'0') <= t => cur = BItem::Out(d as u8 - b'0'),
                    _ => return Err(DefErr::IllegalParameterNumber),
                }
            }
        }
        body.push(cur);
    }
    // found: if hash_brace<>0 then store_new_token(hash_brace)
    if let Some(h) = hash_brace {
        body.push(BItem::Tok(h));
    }
    Ok((MacroDef { params, body }, pos))
}

#[derive(Clone, Copy, PartialEq, Eq, Debug)]
pub enum CallErr {
    /// §398 "Use of \x doesn't match its definition"
    DoesNotMatch,
    /// §395 "Argument of \x has an extra }"
    ExtraRightBrace,
    /// §396 "Paragraph ended before \x was complete"
    Runaway,
    /// the token list ended while an argument was being scanned (§338 "File ended while scanning use of")
    EndOfInput,
}

#[derive(Clone, PartialEq, Eq, Debug, Default)]
pub struct Call {
    /// what `#1`.. were bound to (`pstack`)
    pub args: Vec<Vec<Tok>>,
    /// per argument: §400 removed a pair of outer braces (the argument was written as one group)
    pub arg_braced: Vec<bool>,
    /// the replacement text with the arguments substituted
    pub expansion: Vec<Tok>,
    /// number of tokens of `input` that the call removed
    pub consumed: usize,
    /// collision facts computed by the model (for the vacuity counters of the check)
    pub facts: Facts,
}
#[derive(Clone, Copy, PartialEq, Eq, Debug, Default)]
pub struct Facts {
    /// §397 ran with s<>null: a delimiter was matched in part and then abandoned
    pub partial_delimiter_abandoned: bool,
    /// ... and the re-scan found that a suffix of the abandoned tokens starts the delimiter again
    pub partial_delimiter_restarted: bool,
    /// ... and that re-started match is at least two tokens long (a border of length >= 2 of the delimiter)
    pub partial_delimiter_restarted_with_2: bool,
    /// §393: a blank space was skipped before an undelimited parameter
    pub spaces_skipped: bool,
    /// §400: a delimited parameter received m >= 2 units of which at least 2 are groups
    pub several_groups_delimited: bool,
    /// §400: braces were stripped from a delimited / an undelimited argument
    pub stripped_delimited: bool,
    pub stripped_undelimited: bool,
    /// an argument is the empty list because it was written `{}`
    pub empty_group_argument: bool,
    /// a delimited argument is empty because the delimiter followed immediately
    pub empty_delimited: bool,
    /// the argument begins with { and ends with } but is not a single group (`{x}{y}`, `{x}y{z}`)
    pub brace_to_brace_not_single: bool,
    /// the parameter part ends with the `#{` form
    pub hash_brace: bool,
}

/// §389-400 `macro_call` for a macro that is not `\outer`; `long` says whether `\par` may appear in
/// arguments (§396). `input` is what follows the macro's own token.
pub fn macro_call(def: &MacroDef, input: &[Tok], long: bool) -> Result<Call, CallErr> {
    let params = &def.params;
    let mut facts = Facts::default();
    let mut pos = 0usize;
    let mut pstack: Vec<Vec<Tok>> = vec![];
    let mut arg_braced: Vec<bool> = vec![];
    let mut r = 0usize; // §391 r := link(ref_count)
    let par = Tok::Cs("par");
    if let Some(PItem::Tok(t)) = params.iter().rev().nth(1) {
        facts.hash_brace = t.is_left_brace();
    }
    // §391 if info(r) <> end_match_token then Scan the parameters and make link(r) point to the macro body
    if params[r] != PItem::EndMatch {
        loop {
            // §392 Scan a parameter until its delimiter string has been found; or, if s=null, simply scan the delimiter string
            let s: Option<usize>;
            let mut p: Vec<Tok> = vec![];
            let mut m = 0usize;
            let mut groups = 0usize;
            if let PItem::Match(_) = params[r] {
                r += 1;
                s = Some(r);
            } else {
                s = None;
            }
            'cont: loop {
                // continue: get_token
                let cur = *input.get(pos).ok_or(CallErr::EndOfInput)?;
                pos += 1;
                if PItem::Tok(cur) == params[r] {
                    // §394 Advance r; goto found if the parameter delimiter has been fully matched, otherwise goto continue
                    r += 1;
                    if params[r].is_match_or_end() {
                        break 'cont; // goto found
                    }
                    continue 'cont;
                }
                // §397 Contribute the recently matched tokens to the current parameter, and goto continue if a partial match is still in effect; but abort if s=null
                if s != Some(r) {
                    let s0 = match s {
                        None => return Err(CallErr::DoesNotMatch), // §398
                        Some(s0) => s0,
                    };
                    facts.partial_delimiter_abandoned = true;
                    let mut t = s0;
                    loop {
                        // repeat
                        if let PItem::Tok(x) = params[t] {
                            p.push(x);
                        }
                        m += 1;
                        let mut u = t + 1;
                        let mut v = s0;
                        loop {
                            if u == r {
                                if PItem::Tok(cur) != params[v] {
                                    break; // goto done
                                }
                                r = v + 1;
                                facts.partial_delimiter_restarted = true;
                                if r - s0 >= 2 {
                                    facts.partial_delimiter_restarted_with_2 = true;
                                }
                                continue 'cont;
                            }
                            if params[u] != params[v] {
                                break; // goto done
                            }
                            u += 1;
                            v += 1;
                        }
                        // done:
                        t += 1;
                        if t == r {
                            break;
                        }
                    }
                    r = s0; // at this point, no tokens are recently matched
                }
                // §392 (cont.)
                if cur == par && !long {
                    return Err(CallErr::Runaway); // §396
                }
                if cur.is_brace() {
                    if cur.is_left_brace() {
                        // §399 Contribute an entire group to the current parameter
                        let mut unbalance = 1i64;
                        let mut c = cur;
                        loop {
                            p.push(c); // fast_store_new_token(cur_tok)
                            c = *input.get(pos).ok_or(CallErr::EndOfInput)?; // get_token
                            pos += 1;
                            if c == par && !long {
                                return Err(CallErr::Runaway);
                            }
                            if c.is_brace() {
                                if c.is_left_brace() {
                                    unbalance += 1;
                                } else {
                                    unbalance -= 1;
                                    if unbalance == 0 {
                                        break; // goto done1
                                    }
                                }
                            }
                        }
                        // done1: rbrace_ptr := p; store_new_token(cur_tok)
                        p.push(c);
                        groups += 1;
                    } else {
                        // §395 Report an extra right brace and goto continue
                        return Err(CallErr::ExtraRightBrace);
                    }
                } else {
                    // §393 Store the current token, but goto continue if it is a blank space that would become an undelimited parameter
                    if cur.is_space_token() && params[r].is_match_or_end() {
                        facts.spaces_skipped = true;
                        continue 'cont;
                    }
                    p.push(cur);
                }
                m += 1;
                // if info(r)>end_match_token then goto continue; if info(r)<match_token then goto continue
                if !params[r].is_match_or_end() {
                    continue 'cont;
                }
                break 'cont;
            }
            // found: if s<>null then §400 Tidy up the parameter just scanned, and tuck it away
            if let Some(s0) = s {
                let delimited = !params[s0].is_match_or_end();
                let strip = m == 1 && p.last().map(|t| t.is_brace()).unwrap_or(false);
                arg_braced.push(strip);
                if strip {
                    p.pop();
                    p.remove(0);
                    if p.is_empty() {
                        facts.empty_group_argument = true;
                    }
                    if delimited {
                        facts.stripped_delimited = true;
                    } else {
                        facts.stripped_undelimited = true;
                    }
                } else if delimited {
                    if p.is_empty() {
                        facts.empty_delimited = true;
                    }
                    if groups >= 2 {
                        facts.several_groups_delimited = true;
                    }
                    if m >= 2 && p.first().map(|t| t.is_left_brace()).unwrap_or(false) && p.last().map(|t| t.is_right_brace()).unwrap_or(false) {
                        facts.brace_to_brace_not_single = true;
                    }
                }
                pstack.push(p);
            }
            // until info(r)=end_match_token
            if params[r] == PItem::EndMatch {
                break;
            }
        }
    }
    // §390 Feed the macro body and its parameters to the scanner
    let mut expansion = vec![];
    for b in &def.body {
        match b {
            BItem::Tok(t) => expansion.push(*t),
            BItem::Out(n) => expansion.extend_from_slice(&pstack[*n as usize - 1]),
        }
    }
    Ok(Call { args: pstack, arg_braced, expansion, consumed: pos, facts })
}

// ------------------------------------------------------------------------------------------------
// Second, declarative formulation (The TeXbook, chapter 20, pp. 203-204), independent of the
// control flow of §391-§400. The checks require both formulations to agree on every case they run.

/// Index of the right brace matching the left brace at `open` (None if the list ends first).
pub fn matching_brace(ts: &[Tok], open: usize) -> Option<usize> {
    let mut depth = 0i64;
    for (i, t) in ts.iter().enumerate().skip(open) {
        if t.is_left_brace() {
            depth += 1;
        } else if t.is_right_brace() {
            depth -= 1;
            if depth == 0 {
                return Some(i);
            }
        }
    }
    None
}

/// "the shortest (possibly empty) sequence of tokens with properly nested {...} groups that is
/// followed in the input by this particular list of nonparameter tokens": position of the first
/// occurrence of `delim` at brace depth 0 at or after `from`. The last token of `delim` may be a left
/// brace (the `#{` form); no other token of a delimiter can be a brace.
fn first_occurrence_at_depth_0(input: &[Tok], from: usize, delim: &[Tok]) -> Option<usize> {
    let mut depth = 0i64;
    let mut i = from;
    while i < input.len() {
        if depth == 0 && input[i..].starts_with(delim) {
            return Some(i);
        }
        if input[i].is_left_brace() {
            depth += 1;
        } else if input[i].is_right_brace() {
            if depth == 0 {
                return None; // an unmatched right brace cannot be part of an argument
            }
            depth -= 1;
        }
        i += 1;
    }
    None
}

/// Declarative macro call. `prefix` are the tokens before the first parameter, `params[i]` is `None`
/// for an undelimited parameter and the delimiter otherwise; with the `#{` form the left brace is the
/// last token of the last delimiter (or of the prefix when there is no parameter).
/// Returns the arguments and the number of tokens consumed, or None when the call does not match
/// (for whatever reason: mismatch, extra right brace, end of the list).
pub fn spec_call(prefix: &[Tok], params: &[Option<Vec<Tok>>], input: &[Tok]) -> Option<(Vec<Vec<Tok>>, usize)> {
    if !input.starts_with(prefix) {
        return None;
    }
    let mut pos = prefix.len();
    let mut args = vec![];
    for p in params {
        match p {
            None => {
                // "the next nonblank token, unless that token is {, when the argument is the entire group"
                while input.get(pos).map(|t| t.is_space_token()).unwrap_or(false) {
                    pos += 1;
                }
                let t = *input.get(pos)?;
                if t.is_right_brace() {
                    return None;
                }
                if t.is_left_brace() {
                    let close = matching_brace(input, pos)?;
                    args.push(input[pos + 1..close].to_vec());
                    pos = close + 1;
                } else {
                    args.push(vec![t]);
                    pos += 1;
                }
            }
            Some(d) => {
                let at = first_occurrence_at_depth_0(input, pos, d)?;
                let mut arg = &input[pos..at];
                // "if the argument has the form {nested tokens}, the outermost braces are removed"
                if arg.len() >= 2 && arg[0].is_left_brace() && matching_brace(arg, 0) == Some(arg.len() - 1) {
                    arg = &arg[1..arg.len() - 1];
                }
                args.push(arg.to_vec());
                pos = at + d.len();
            }
        }
    }
    Some((args, pos))
}

#[cfg(test)]
mod tests {
    use super::*;
    fn lex(s: &str) -> Vec<Tok> {
        // tiny test lexer: \name (letters), {, }, #, space, letters, others
        let cs: &[&'static str] = &["x", "par", "relax", "b"];
        let b: Vec<char> = s.chars().collect();
        let mut i = 0;
        let mut out = vec![];
        while i < b.len() {
            let c = b[i];
            i += 1;
            match c {
                '\\' => {
                    let st = i;
                    while i < b.len() && b[i].is_ascii_alphabetic() {
                        i += 1;
                    }
                    let n: String = b[st..i].iter().collect();
                    out.push(Tok::Cs(cs.iter().find(|x| **x == n).expect("known cs")));
                    while i < b.len() && b[i] == ' ' {
                        i += 1;
                    }
                }
                '{' => out.push(Tok::Ch(c, LEFT_BRACE)),
                '}' => out.push(Tok::Ch(c, RIGHT_BRACE)),
                '#' => out.push(Tok::Ch(c, MAC_PARAM)),
                ' ' => out.push(Tok::Ch(c, SPACER)),
                c if c.is_ascii_alphabetic() => out.push(Tok::Ch(c, LETTER)),
                c => out.push(Tok::Ch(c, OTHER)),
            }
        }
        out
    }
    fn run(def: &str, call: &str) -> Result<String, CallErr> {
        let (d, n) = scan_def(&lex(def)).unwrap();
        assert_eq!(n, lex(def).len());
        let input = lex(call);
        let c = macro_call(&d, &input, false)?;
        let mut out = c.expansion.clone();
        out.extend_from_slice(&input[c.consumed..]);
        Ok(out.iter().map(|t| match t { Tok::Cs(n) => format!("\\{n} "), Tok::Ch(c, _) => c.to_string() }).collect())
    }
    #[test]
    fn texbook() {
        // The TeXbook, chapter 20: \def\cs AB#1#2C$#3\$ {#3{ab#1}#1 c##\x #2}
        assert_eq!(run("#1.{[#1]}", "{x}{y}.z").unwrap(), "[{x}{y}]z");
        assert_eq!(run("#1.{[#1]}", "{x}.z").unwrap(), "[x]z");
        assert_eq!(run("#1.{[#1]}", " {x}.z").unwrap(), "[ {x}]z");
        assert_eq!(run("#1#2{[#1|#2]}", "  a {bc}d").unwrap(), "[a|bc]d");
        assert_eq!(run("#1aa{[#1]}", "aaa").unwrap(), "[]a");
        assert_eq!(run("#1aab{[#1]}", "aaab.").unwrap(), "[a].");
        assert_eq!(run("#1ab{[#1]}", "aab.").unwrap(), "[a].");
        assert_eq!(run("#1#{[#1]}", "ab{c}").unwrap(), "[ab]{c}");
        assert_eq!(run("a#{x}", "a{c}").unwrap(), "x{c}");
        assert_eq!(run("#1{##1#1}", "a").unwrap(), "#1a");
        assert_eq!(run("a#1{x}", "ba"), Err(CallErr::DoesNotMatch));
        assert_eq!(run("#1.{x}", "}."), Err(CallErr::ExtraRightBrace));
        assert_eq!(run("#1{x}", "}"), Err(CallErr::ExtraRightBrace));
        assert_eq!(run("#1.{x}", "a\\par."), Err(CallErr::Runaway));
        assert_eq!(run("#1.{x}", "{a"), Err(CallErr::EndOfInput));
    }
}
