//! Reference models (the trusted base of the checks). No dependency on the repository.
pub mod dvipos;
