//! TeX's number scanners on token lists, transliterated from tex.web:
//! scan_keyword §407, scan_int §440-446, scan_dimen §448-460, scan_glue §461-462, print_spec §177-178.
//!
//! Arithmetic is `i64`; where Pascal would leave the 32-bit range (negating -2^31, which is outside
//! TeX's integer range |n| <= 2^31-1) the scanner sets `undefined` and the caller must not judge the
//! value. `errors` lists the errors TeX raises, in order.

use crate::arith::{self, INFINITY, MAX_DIMEN, UNITY};
use std::collections::VecDeque;

#[derive(Clone, Copy, Debug, PartialEq, Eq, Default)]
pub struct Glue {
    pub width: i64,
    pub stretch: i64,
    /// 0 normal, 1 fil, 2 fill, 3 filll
    pub stretch_order: u8,
    pub shrink: i64,
    pub shrink_order: u8,
}

#[derive(Clone, Debug, PartialEq, Eq)]
pub enum Tok {
    /// character token of category 11
    Letter(char),
    /// character token of category 12
    Other(char),
    /// character token of category 10
    Space,
    /// character token of any other category (braces, #, $ ...): never part of a number
    Special(char),
    /// control sequence whose meaning is an internal integer (register, \chardef'd name ...)
    Int(i64),
    /// ... an internal dimension
    Dimen(i64),
    /// ... an internal glue
    Glue(Glue),
    /// unexpandable control sequence that is not an internal quantity (\relax, an undefined name);
    /// `Some(c)` when its name is the single character c
    Cs(Option<char>),
    /// macro without parameters: name (as for `Cs`) and replacement text
    Macro(Option<char>, Vec<Tok>),
    /// the token list is exhausted (the harness always ends a list with `Cs`, so this never decides)
    End,
}

#[derive(Clone, Copy, Debug, PartialEq, Eq)]
pub enum ScanError {
    /// §446 "Missing number, treated as zero"
    MissingNumber,
    /// §445 "Number too big"
    NumberTooBig,
    /// §442 "Improper alphabetic constant"
    ImproperAlpha,
    /// §459 "Illegal unit of measure (pt inserted)"
    IllegalUnit,
    /// §454 "Illegal unit of measure (replaced by filll)"
    IllegalFil,
    /// §460 "Dimension too large"
    DimensionTooLarge,
}

pub struct Scanner {
    pub input: VecDeque<Tok>,
    pub errors: Vec<ScanError>,
    /// a Pascal range violation happened (an operand was -2^31): the value is not defined by tex.web
    pub undefined: bool,
    /// \fontdimen6 and \fontdimen5 of the current font (sp)
    pub em: i64,
    pub ex: i64,
    /// largest character code a single-character control sequence / character token may have in an
    /// alphabetic constant (255 in TeX82; 0x10FFFF for a Unicode engine)
    pub max_char: i64,
    /// §407 compares character codes only (`cur_cs=0`), whatever the category code
    pub keyword_any_catcode: bool,
    /// §407 skips space tokens in front of a keyword (and does not restore them)
    pub keyword_skips_spaces: bool,
    /// §454: every `l` after `fil` is a keyword of its own, so spaces (and expansion) may precede it.
    /// `false` = the known deviation "an l must follow fil immediately".
    pub fil_l_skips_spaces: bool,
    /// §448/§460: an out-of-range result is replaced by +max_dimen and negated by explicit signs only.
    /// `true` = the known deviation "the clamped value also takes the sign of an internal unit".
    pub clamp_sign_follows_unit: bool,
    /// the scanner asked for a token after the list was exhausted: what TeX does depends on input
    /// that the list does not contain
    pub hit_end: bool,
}

impl Scanner {
    pub fn new(toks: Vec<Tok>) -> Scanner {
        Scanner { input: toks.into(), errors: vec![], undefined: false, em: 0, ex: 0, max_char: 0x10FFFF, keyword_any_catcode: true, keyword_skips_spaces: true, fil_l_skips_spaces: true, clamp_sign_follows_unit: false, hit_end: false }
    }
    fn get_token(&mut self) -> Tok {
        match self.input.pop_front() {
            Some(t) => t,
            None => {
                self.hit_end = true;
                Tok::End
            }
        }
    }
    /// §380 get_x_token (parameterless macros only)
    fn get_x_token(&mut self) -> Tok {
        loop {
            match self.get_token() {
                Tok::Macro(_, body) => {
                    for t in body.into_iter().rev() {
                        self.input.push_front(t);
                    }
                }
                t => return t,
            }
        }
    }
    fn back_input(&mut self, t: Tok) {
        if t != Tok::End {
            self.input.push_front(t);
        }
    }
    fn negate(&mut self, v: i64) -> i64 {
        if v < -INFINITY || v > INFINITY {
            self.undefined = true;
        }
        -v
    }
    /// §406 Get the next non-blank non-call token
    fn next_nonblank(&mut self) -> Tok {
        loop {
            let t = self.get_x_token();
            if t != Tok::Space {
                return t;
            }
        }
    }
    /// §441 Get the next non-blank non-sign token; set `negative` appropriately
    fn next_nonblank_nonsign(&mut self, negative: &mut bool) -> Tok {
        loop {
            let t = self.next_nonblank();
            if t == Tok::Other('-') {
                *negative = !*negative;
            } else if t != Tok::Other('+') {
                return t;
            }
        }
    }
    /// §443 Scan an optional space
    fn optional_space(&mut self) -> Tok {
        let t = self.get_x_token();
        if t != Tok::Space {
            self.back_input(t.clone());
        }
        t
    }

    /// §407 scan_keyword
    pub fn scan_keyword(&mut self, s: &str) -> bool {
        let mut matched: Vec<Tok> = vec![];
        for k in s.chars() {
            loop {
                let t = self.get_x_token();
                let c = match &t {
                    Tok::Letter(c) => Some(*c),
                    Tok::Other(c) | Tok::Special(c) if self.keyword_any_catcode => Some(*c),
                    _ => None,
                };
                if c == Some(k) || c == Some(k.to_ascii_uppercase()) {
                    matched.push(t);
                    break;
                } else if t != Tok::Space || !matched.is_empty() || !self.keyword_skips_spaces {
                    self.back_input(t);
                    for m in matched.into_iter().rev() {
                        self.back_input(m);
                    }
                    return false;
                }
                // a space before the first character of the keyword: skipped
            }
        }
        true
    }

    /// §440 scan_int. Returns (value, radix, the token that ended the constant).
    fn scan_int_ext(&mut self) -> (i64, u32, Tok) {
        let mut radix = 0u32;
        let mut ok_so_far = true;
        let mut negative = false;
        let mut cur_tok = self.next_nonblank_nonsign(&mut negative);
        let mut cur_val: i64;
        match cur_tok.clone() {
            Tok::Other('`') => {
                // §442: get_token, macro expansion suppressed
                let t = self.get_token();
                let code: Option<i64> = match &t {
                    Tok::Letter(c) | Tok::Other(c) | Tok::Special(c) => Some(*c as i64),
                    Tok::Space => Some(32),
                    Tok::Cs(Some(c)) | Tok::Macro(Some(c), _) => Some(*c as i64),
                    _ => None,
                };
                match code {
                    Some(c) if c <= self.max_char => {
                        cur_val = c;
                        cur_tok = self.optional_space();
                    }
                    _ => {
                        self.errors.push(ScanError::ImproperAlpha);
                        cur_val = '0' as i64;
                        self.back_input(t); // back_error
                    }
                }
            }
            Tok::Int(v) | Tok::Dimen(v) => cur_val = v, // scan_something_internal(int_val), §429 coercion
            Tok::Glue(g) => cur_val = g.width,
            _ => {
                // §444 Scan a numeric constant
                radix = 10;
                let mut m: i64 = 214748364;
                if cur_tok == Tok::Other('\'') {
                    radix = 8;
                    m = 0o2000000000;
                    cur_tok = self.get_x_token();
                } else if cur_tok == Tok::Other('"') {
                    radix = 16;
                    m = 0o1000000000;
                    cur_tok = self.get_x_token();
                }
                let mut vacuous = true;
                cur_val = 0;
                // §445
                loop {
                    let d: i64 = match &cur_tok {
                        Tok::Other(c) if c.is_ascii_digit() && (*c as u32 - '0' as u32) < radix => *c as i64 - '0' as i64,
                        Tok::Other(c) | Tok::Letter(c) if radix == 16 && ('A'..='F').contains(c) => *c as i64 - 'A' as i64 + 10,
                        _ => break,
                    };
                    vacuous = false;
                    if cur_val >= m && (cur_val > m || d > 7 || radix != 10) {
                        if ok_so_far {
                            self.errors.push(ScanError::NumberTooBig);
                            cur_val = INFINITY;
                            ok_so_far = false;
                        }
                    } else {
                        cur_val = cur_val * radix as i64 + d;
                    }
                    cur_tok = self.get_x_token();
                }
                if vacuous {
                    // §446: back_error
                    self.errors.push(ScanError::MissingNumber);
                    self.back_input(cur_tok.clone());
                } else if cur_tok != Tok::Space {
                    self.back_input(cur_tok.clone());
                }
            }
        }
        if negative {
            cur_val = self.negate(cur_val);
        }
        (cur_val, radix, cur_tok)
    }
    pub fn scan_int(&mut self) -> i64 {
        self.scan_int_ext().0
    }

    /// §448 scan_dimen(mu=false, inf, shortcut). `shortcut = Some(v)`: cur_val already holds the
    /// integer v. Returns (value, cur_order).
    pub fn scan_dimen(&mut self, inf: bool, shortcut: Option<i64>) -> (i64, u8) {
        let mut f: i64 = 0;
        let mut arith_error = false;
        let mut cur_order = 0u8;
        let mut negative = false;
        let mut cur_val: i64;
        'attach_sign: {
            match shortcut {
                Some(v) => cur_val = v,
                None => {
                    let t = self.next_nonblank_nonsign(&mut negative);
                    match t {
                        // §449: an internal dimension goes to attach_sign, an internal integer falls through
                        Tok::Int(v) => cur_val = v,
                        Tok::Dimen(v) => {
                            cur_val = v;
                            if v < -INFINITY {
                                self.undefined = true; // abs(-2^31)
                            }
                            break 'attach_sign;
                        }
                        Tok::Glue(g) => {
                            cur_val = g.width;
                            if g.width < -INFINITY {
                                self.undefined = true;
                            }
                            break 'attach_sign;
                        }
                        t => {
                            self.back_input(t.clone());
                            let mut cur_tok = t;
                            if cur_tok == Tok::Other(',') {
                                cur_tok = Tok::Other('.');
                            }
                            let radix;
                            if cur_tok != Tok::Other('.') {
                                let r = self.scan_int_ext();
                                cur_val = r.0;
                                radix = r.1;
                                cur_tok = r.2;
                            } else {
                                radix = 10;
                                cur_val = 0;
                            }
                            if cur_tok == Tok::Other(',') {
                                cur_tok = Tok::Other('.');
                            }
                            if radix == 10 && cur_tok == Tok::Other('.') {
                                // §452 Scan decimal fraction
                                let mut digits: Vec<u8> = vec![];
                                let _ = self.get_token(); // point_token is being re-scanned
                                let last = loop {
                                    let t = self.get_x_token();
                                    match &t {
                                        Tok::Other(c) if c.is_ascii_digit() => {
                                            if digits.len() < 17 {
                                                digits.push(*c as u8 - b'0');
                                            }
                                        }
                                        _ => break t,
                                    }
                                };
                                f = arith::round_decimals(&digits);
                                if last != Tok::Space {
                                    self.back_input(last);
                                }
                            }
                        }
                    }
                }
            }
            if cur_val < 0 {
                negative = !negative;
                cur_val = self.negate(cur_val);
            }
            // §453 Scan units and set cur_val to x*(cur_val+f/2^16)
            'done: {
                'attach_fraction: {
                    if inf {
                        // §454
                        if self.scan_keyword("fil") {
                            cur_order = 1;
                            loop {
                                let save = self.keyword_skips_spaces;
                                self.keyword_skips_spaces = save && self.fil_l_skips_spaces;
                                let found = self.scan_keyword("l");
                                self.keyword_skips_spaces = save;
                                if !found {
                                    break;
                                }
                                if cur_order == 3 {
                                    self.errors.push(ScanError::IllegalFil);
                                } else {
                                    cur_order += 1;
                                }
                            }
                            break 'attach_fraction;
                        }
                    }
                    // §455 Scan for units that are internal dimensions
                    let save_cur_val = cur_val;
                    let t = self.next_nonblank();
                    let v: Option<i64> = match t {
                        Tok::Int(v) | Tok::Dimen(v) => Some(v),
                        Tok::Glue(g) => Some(g.width),
                        t => {
                            self.back_input(t);
                            if self.scan_keyword("em") {
                                self.optional_space();
                                Some(self.em)
                            } else if self.scan_keyword("ex") {
                                self.optional_space();
                                Some(self.ex)
                            } else {
                                None
                            }
                        }
                    };
                    if let Some(v) = v {
                        // found: cur_val := nx_plus_y(save_cur_val, v, xn_over_d(v, f, 2^16))
                        if v < -INFINITY {
                            self.undefined = true;
                        }
                        let y = match arith::xn_over_d(v, f, UNITY) {
                            Ok((q, _)) => q,
                            Err(()) => {
                                arith_error = true;
                                0
                            }
                        };
                        cur_val = match arith::nx_plus_y(save_cur_val, v, y) {
                            Ok(r) => r,
                            Err(()) => {
                                arith_error = true;
                                0
                            }
                        };
                        if arith_error && v < 0 && self.clamp_sign_follows_unit {
                            negative = !negative;
                        }
                        break 'attach_sign;
                    }
                    // §456: \mag is 1000 here, "true" is scanned and changes nothing
                    let _ = self.scan_keyword("true");
                    if self.scan_keyword("pt") {
                        break 'attach_fraction;
                    }
                    // §458
                    let conv: Option<(i64, i64)> = if self.scan_keyword("in") {
                        Some((7227, 100))
                    } else if self.scan_keyword("pc") {
                        Some((12, 1))
                    } else if self.scan_keyword("cm") {
                        Some((7227, 254))
                    } else if self.scan_keyword("mm") {
                        Some((7227, 2540))
                    } else if self.scan_keyword("bp") {
                        Some((7227, 7200))
                    } else if self.scan_keyword("dd") {
                        Some((1238, 1157))
                    } else if self.scan_keyword("cc") {
                        Some((14856, 1157))
                    } else if self.scan_keyword("sp") {
                        break 'done;
                    } else {
                        // §459: pt inserted
                        self.errors.push(ScanError::IllegalUnit);
                        None
                    };
                    if let Some((num, denom)) = conv {
                        let (q, rem) = match arith::xn_over_d(cur_val, num, denom) {
                            Ok(x) => x,
                            Err(()) => {
                                arith_error = true;
                                (1 << 30, 0) // value is irrelevant once arith_error is set, but >= 2^14
                            }
                        };
                        cur_val = q;
                        f = (num * f + UNITY * rem) / denom;
                        cur_val += f / UNITY;
                        f %= UNITY;
                    }
                }
                // attach_fraction:
                if cur_val >= 0o40000 {
                    arith_error = true;
                } else {
                    cur_val = cur_val * UNITY + f;
                }
            }
            // done:
            self.optional_space();
        }
        // attach_sign:
        if arith_error || cur_val.abs() >= 0o10000000000 {
            // §460
            self.errors.push(ScanError::DimensionTooLarge);
            cur_val = MAX_DIMEN;
        }
        if negative {
            cur_val = -cur_val;
        }
        (cur_val, cur_order)
    }

    /// §461 scan_glue(glue_val)
    pub fn scan_glue(&mut self) -> Glue {
        let mut negative = false;
        let t = self.next_nonblank_nonsign(&mut negative);
        let width = match t {
            Tok::Glue(g) => {
                // §430: all three components are negated
                return if negative { Glue { width: self.negate(g.width), stretch: self.negate(g.stretch), shrink: self.negate(g.shrink), ..g } } else { g };
            }
            Tok::Dimen(v) => {
                if negative {
                    self.negate(v)
                } else {
                    v
                }
            }
            Tok::Int(v) => {
                let v = if negative { self.negate(v) } else { v };
                self.scan_dimen(false, Some(v)).0
            }
            t => {
                self.back_input(t);
                let v = self.scan_dimen(false, None).0;
                if negative {
                    -v
                } else {
                    v
                }
            }
        };
        // §462
        let mut q = Glue { width, ..Default::default() };
        if self.scan_keyword("plus") {
            let (v, o) = self.scan_dimen(true, None);
            q.stretch = v;
            q.stretch_order = o;
        }
        if self.scan_keyword("minus") {
            let (v, o) = self.scan_dimen(true, None);
            q.shrink = v;
            q.shrink_order = o;
        }
        q
    }

    /// What main control does with the rest of the list: character tokens are typeset (returned as
    /// text), macros are expanded, `Cs(None)` stands for \\relax. `None` if an internal quantity, an
    /// undefined name or a special character is met (outside what the checks look at).
    pub fn rest_text(&mut self) -> Option<String> {
        let mut s = String::new();
        loop {
            match self.get_x_token() {
                Tok::Letter(c) | Tok::Other(c) => s.push(c),
                Tok::Space => s.push(' '),
                Tok::Cs(None) => {} // \relax: no effect
                Tok::End => return Some(s),
                _ => return None,
            }
        }
    }
}

/// §178 print_spec(p, "pt")
pub fn print_spec(g: &Glue) -> String {
    let mut s = arith::print_scaled(g.width);
    s.push_str("pt");
    let glue = |d: i64, order: u8| -> String {
        let mut s = arith::print_scaled(d);
        if order > 0 {
            s.push_str("fil");
            for _ in 1..order {
                s.push('l');
            }
        } else {
            s.push_str("pt");
        }
        s
    };
    if g.stretch != 0 {
        s.push_str(" plus ");
        s.push_str(&glue(g.stretch, g.stretch_order));
    }
    if g.shrink != 0 {
        s.push_str(" minus ");
        s.push_str(&glue(g.shrink, g.shrink_order));
    }
    s
}

/// §1239 Compute the sum of two glue specs: `q` is the glue just scanned, `r` the old value.
/// Integer addition is Pascal's: the caller wraps to 32 bits (`\advance` is not range checked).
pub fn add_glue(q: &Glue, r: &Glue) -> Glue {
    let mut q = *q;
    q.width += r.width;
    if q.stretch == 0 {
        q.stretch_order = 0;
    }
    if q.stretch_order == r.stretch_order {
        q.stretch += r.stretch;
    } else if q.stretch_order < r.stretch_order && r.stretch != 0 {
        q.stretch = r.stretch;
        q.stretch_order = r.stretch_order;
    }
    if q.shrink == 0 {
        q.shrink_order = 0;
    }
    if q.shrink_order == r.shrink_order {
        q.shrink += r.shrink;
    } else if q.shrink_order < r.shrink_order && r.shrink != 0 {
        q.shrink = r.shrink;
        q.shrink_order = r.shrink_order;
    }
    q
}

/// Wrap an i64 to the 32-bit two's complement value a Pascal `integer` addition yields on the
/// machines TeX runs on (`\advance` "silently wraps").
pub fn wrap32(v: i64) -> i64 {
    (v + (1i64 << 31)).rem_euclid(1i64 << 32) - (1i64 << 31)
}

#[cfg(test)]
mod tests {
    use super::*;
    fn lex(s: &str) -> Vec<Tok> {
        let mut v: Vec<Tok> = s
            .chars()
            .map(|c| if c == ' ' { Tok::Space } else if c.is_ascii_alphabetic() { Tok::Letter(c) } else { Tok::Other(c) })
            .collect();
        v.push(Tok::Cs(None));
        v
    }
    fn dimen(s: &str) -> (i64, Vec<ScanError>, String) {
        let mut sc = Scanner::new(lex(s));
        sc.em = 12 * UNITY;
        sc.ex = 12 * UNITY;
        let v = sc.scan_dimen(false, None).0;
        let rest = sc.rest_text().unwrap();
        (v, sc.errors, rest)
    }
    #[test]
    fn repo_recorded_values() {
        // crates/texlang/src/parse/dimen.rs, parse_success_tests / parse_failure_tests
        assert_eq!(dimen("0.075in").0, 355207);
        assert_eq!(dimen("1in").0, 65536 * 7227 / 100);
        assert_eq!(dimen("1 in").0, 65536 * 7227 / 100);
        assert_eq!(dimen("16383.99998pt"), (MAX_DIMEN, vec![], "".into()));
        assert_eq!(dimen("1.999999sp").0, 1);
        assert_eq!(dimen("1073741823.99999999sp").0, MAX_DIMEN);
        assert_eq!(dimen("16384pt"), (MAX_DIMEN, vec![ScanError::DimensionTooLarge], "".into()));
        assert_eq!(dimen("-300000000in"), (-MAX_DIMEN, vec![ScanError::DimensionTooLarge], "".into()));
        assert_eq!(dimen("1073741824sp").1, vec![ScanError::DimensionTooLarge]);
        assert_eq!(dimen("1xy"), (65536, vec![ScanError::IllegalUnit], "xy".into()));
        assert_eq!(dimen(".pt").0, 0);
        assert_eq!(dimen("-1.5pt").0, -98304);
        assert_eq!(dimen("1true cm").0, 65536 * 7227 / 254);
    }
}
