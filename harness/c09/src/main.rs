//! C09 — not built yet.
fn main() {
    eprintln!("c09: check not built yet");
    std::process::exit(2);
}
