//! C09 — interpreter totality: any input ends in success or a located error, no crash. DESIGN.md §3 C09.
//! Engine: BEX (all short token strings) + DEV (every single deviation of seed programs), each program
//! in the interaction modes errorstop / scroll / nonstop / batch.
//!
//! Every sweep runs in worker subprocesses (`c09 --worker <family> <lo> <hi> <progress-file>`): stdin
//! closed, address space limited, big stack, a progress file naming the case in flight. A worker that
//! aborts (stack overflow, allocation failure) or stops making progress is attributed to that case,
//! which becomes a `fail`; the rest of the chunk is re-run by fresh workers.

use serde_json::{json, Value};
use std::collections::BTreeMap;
use std::os::unix::fs::FileExt;
use std::sync::atomic::{AtomicU64, Ordering};
use std::time::{Duration, Instant};
use vcore::{Acc, Ctx, Level};
use vtex::texlang::token;

// ------------------------------------------------------------------ vocabulary

/// Full vocabulary: every installed primitive (the harness removes \sleep) + the tokens of DESIGN §3 C09.
fn full_vocab() -> Vec<String> {
    let mut names: Vec<String> = vtex::builtins().keys().map(|k| format!("\\{k}")).collect();
    names.sort();
    let extra = [
        "\\par", "\\undefined", "\\a", "~", "{", "}", "#", "$", "&", "^", "_", "%", " ", "\n", "=", "-", "+", "`", "'", "\"", ".", ":", "<", "a", "f", "p", "t", "é", "by", "to", "pt", "fil", "plus", "true", "0", "1", "15", "16", "255", "256", "32767", "32768",
        "55296", "1114111", "1114112", "2147483647", "2147483648", "-1", "^^M", "^^@", "\u{7f}", "1pt", "#1",
        // both sides of every limit the parsers know (value-1, value, value+1; the rest is in the list above):
        // 16 (streams, category codes), 128, 256 (u8, \\toks), 4096, 16384 (pt), 32768 (registers, \\mathcode),
        // the surrogate block 55296..57343, char::MAX = 1114111, 2^30 (sp), 2^31
        "17", "127", "128", "129", "257", "4095", "4096", "4097", "16383", "16384", "16385", "32769", "55295", "55297", "57343", "57344", "57345", "1114110", "1073741823", "1073741824", "1073741825", "2147483646",
        // 3- and 4-byte characters, a control symbol made of one, the predefined \\outer and empty macros (see
        // setup_vm), the names of the empty and the blank-only file
        "→", "𝔸", "\\→", "\\o", "\\e", "e", "w",
        // active characters in every role a control sequence has (see setup_vm): `~` undefined, `?` a macro,
        // `@` an alias of a primitive, `|` an \\outer macro, `!` made active by the program and never defined;
        // control sequences with a single non-letter name
        "?", "@", "|", "!", "\\catcode`\\!=13 ", "\\%", "\\\\", "\\1", "\\~",
        // numbers whose length is the hazard: 17 / 18 / 19 / 30 fraction digits, 21 integer digits,
        // octal and hexadecimal constants at and beyond 2^31-1
        "1.12345678901234567", "1.123456789012345678", ".9999999999999999999pt", "0.123456789012345678901234567890", "100000000000000000000", "'17777777777", "'20000000000", "'777777777777", "\"7FFFFFFF", "\"80000000", "\"FFFFFFFFF",
    ];
    names.extend(extra.iter().map(|s| s.to_string()));
    names
}
/// Core: the tokens that steer scanning, grouping, expansion, conditionals, registers and files.
fn core_vocab() -> Vec<String> {
    [
        "\\count", "\\dimen", "\\skip", "\\toks", "\\the", "\\def", "\\let", "\\global", "\\advance", "\\multiply", "\\divide", "\\catcode", "\\chardef", "\\countdef", "\\ifnum", "\\ifcase", "\\else", "\\fi", "\\or", "\\expandafter", "\\noexpand",
        "\\read", "\\input", "\\openin", "\\ifeof", "\\endinput", "\\a", "{", "}", "#", "1", "-", "=", " ", "2147483647", "f", "by", "to", "pt", "é", "1.123456789012345678", "-2147483647", "57343", "\\o", "\\e", "~", "?",
    ]
    .iter()
    .map(|s| s.to_string())
    .collect()
}
/// Fixed programs that stress resources rather than syntax (each in the four modes, no deviations).
fn resource_programs() -> Vec<String> {
    vec![
        // an allocation of 8.6 GB, beyond the worker's address-space limit
        "\\newIntArray\\m 2147483646 \\m 1=2 ".to_string(),
        "\\def\\a{\\a\\a}\\a".to_string(),
        "\\def\\a{{\\a}}\\a".to_string(),
        format!("{}x{}", "{".repeat(20000), "}".repeat(20000)),
        format!("{}\\relax", "\\expandafter".repeat(20000)),
        "a".repeat(100_000),
        format!("\\count 0={} \\the\\count 0", "1".repeat(5000)),
        format!("\\def\\a{{{}}}\\a", "#".repeat(2) + &"x".repeat(50_000)),
        format!("{}\\fi", "\\iftrue".repeat(20000)),
    ]
}
/// Product family: drive one register (a \\count, a \\dimen, or one component of a \\skip) to exactly
/// -2^31 or 2^31-1 by \\advance wrap-around, then apply one arithmetic primitive with one operand of
/// {-1, 0, 1, 2, 2^31-1, -2^31 (from another register)}, or use the register in one coercion context.
fn extreme_programs() -> Vec<String> {
    let min_count = |r: u32| format!(r"\count {r}=-2147483647 \advance\count {r} by -1 ");
    let wrap = |kind: &str, r: u32, comp: &str, neg: bool| -> String {
        // comp: "" (width / the dimension itself), "plus", "minus"
        let (a, b) = if neg { ("-1073741823sp", "-2sp") } else { ("1073741823sp", "1sp") };
        let w = |v: &str| if comp.is_empty() { v.to_string() } else { format!("0pt {comp} {v}") };
        format!(r"\{kind} {r}={} \advance\{kind} {r} by {} \advance\{kind} {r} by {} ", w(a), w(a), w(b))
    };
    // (kind of register 1, setup text)
    let mut targets: Vec<(&str, String)> = vec![];
    for neg in [true, false] {
        targets.push(("count", if neg { min_count(1) } else { r"\count 1=2147483647 ".to_string() }));
        targets.push(("dimen", wrap("dimen", 1, "", neg)));
        targets.push(("skip", wrap("skip", 1, "", neg)));
        targets.push(("skip", wrap("skip", 1, "plus", neg)));
        targets.push(("skip", wrap("skip", 1, "minus", neg)));
    }
    let mut out = vec![];
    for (kind, setup) in &targets {
        let x = format!(r"\{kind} 1 ");
        // arithmetic primitives on the register itself
        let int_operands: Vec<(String, String)> = vec![
            (String::new(), "-1 ".into()),
            (String::new(), "0 ".into()),
            (String::new(), "1 ".into()),
            (String::new(), "2 ".into()),
            (String::new(), "2147483647 ".into()),
            (min_count(2), r"\count 2 ".into()),
        ];
        for op in ["multiply", "divide"] {
            for (pre, operand) in &int_operands {
                out.push(format!(r"{setup}{pre}\{op}{x}by {operand}\the{x}"));
            }
        }
        let same: Vec<(String, String)> = match *kind {
            "count" => int_operands.clone(),
            "dimen" => vec![
                (String::new(), "-1sp ".into()),
                (String::new(), "0sp ".into()),
                (String::new(), "1sp ".into()),
                (String::new(), "2sp ".into()),
                (String::new(), "1073741823sp ".into()),
                (wrap("dimen", 2, "", true), r"\dimen 2 ".into()),
                (wrap("dimen", 2, "", false), r"-\dimen 2 ".into()),
                (min_count(2), r"\count 2 sp ".into()),
            ],
            _ => vec![
                (String::new(), "-1sp plus -1sp minus -1sp ".into()),
                (String::new(), "0sp ".into()),
                (String::new(), "1sp plus 1sp minus 1sp ".into()),
                (String::new(), "1073741823sp plus 1073741823sp minus 1073741823sp ".into()),
                (String::new(), "1sp plus 2fil minus -1fill ".into()),
                (wrap("skip", 2, "", true), r"\skip 2 ".into()),
                (wrap("skip", 2, "plus", true), r"-\skip 2 ".into()),
                (wrap("dimen", 2, "", true), r"\dimen 2 plus \dimen 2 minus \dimen 2 ".into()),
            ],
        };
        for (pre, operand) in &same {
            out.push(format!(r"{setup}{pre}\advance{x}by {operand}\the{x}"));
        }
        // coercion contexts that read the register
        let unit = if *kind == "count" { "sp " } else { "" };
        let fil = if *kind == "count" { "fil " } else { "" };
        for ctx in [
            format!(r"\count 0={x}"),
            format!(r"\count 0=-{x}"),
            format!(r"\dimen 0={x}{unit}"),
            format!(r"\dimen 0=-{x}{unit}"),
            format!(r"\dimen 0=.5{x}"),
            format!(r"\dimen 0=2{x}"),
            format!(r"\dimen 0=-1.5{x}"),
            format!(r"\dimen 0=1.123456789012345678{x}"),
            format!(r"\dimen 0={x}pt "),
            format!(r"\skip 0={x}{unit}"),
            format!(r"\skip 0=-{x}{unit}"),
            format!(r"\skip 0=1pt plus {x}{fil}minus -{x}{fil}"),
            format!(r"\skip 0=1pt plus 2{x}minus .5{x}"),
            format!(r"\ifnum{x}<0 a\else b\fi "),
            format!(r"\ifnum 0>-{x}a\fi "),
            format!(r"\ifodd{x}a\fi "),
            format!(r"\ifcase{x}a\or b\else c\fi "),
            format!(r"\the{x}"),
            format!(r"\catcode{x}=11 "),
            format!(r"\count{x}=1 "),
            format!(r"\chardef\c={x}"),
            format!(r"\count 0=5 \multiply\count 0 by {x}\the\count 0 "),
            format!(r"\count 0=-5 \divide\count 0 by {x}\the\count 0 "),
            format!(r"\dimen 0=1pt \multiply\dimen 0 by {x}\the\dimen 0 "),
            format!(r"\dimen 0=-1pt \divide\dimen 0 by {x}\the\dimen 0 "),
            format!(r"\skip 0=1pt plus 1fil minus 1pt \multiply\skip 0 by {x}\divide\skip 0 by {x}\the\skip 0 "),
            format!(r"\dimen 0=1pt \advance\dimen 0 by {x}{unit}\the\dimen 0 "),
            format!(r"\advance\count 0 by {x}\advance\skip 0 by {x}{unit}\the\skip 0 "),
            format!(r"{{\global\advance{x}by {x}}}\the{x}"),
        ] {
            out.push(format!("{setup}{ctx}"));
        }
    }
    out
}
/// Multi-byte text placed before (earlier lines, same line), and after (same line, later lines) a program:
/// (text in front of the program, text behind it). The mode prefix stays in front of everything.
const WRAPPERS: [(&str, &str); 16] = [
    ("é\n", ""),
    ("éé\n", ""),
    ("→\n", ""),
    ("a→b\n\n", ""),
    ("é", ""),
    ("→\né→", ""),
    ("", "\n→é"),
    ("", "→"),
    ("é\n→ ", "é\n"),
    ("𝔸\n\n→→→\n", "\n"),
    // endings and beginnings (ASCII): as is, final newline, CR LF, blank lines after, blank line before, inside a group
    ("", ""),
    ("", "\n"),
    ("", "\r\n"),
    ("", "\n\n \n"),
    ("\n", ""),
    ("{", ""),
];
/// Scanning positions in front of which the input (or a line) ends with the escape character while
/// \endlinechar is -1: the lexer then delivers the control sequence with the EMPTY name.
const EMPTY_CS_CONTEXTS: [&str; 40] = [
    "", "\\count 1=`", "\\catcode`", "\\catcode`a=", "\\ifnum`", "\\ifnum 1<`", "\\ifnum 1<", "\\ifodd", "\\ifcase", "\\def", "\\def\\a#1", "\\gdef", "\\let", "\\let\\a=", "\\the", "\\input ", "\\input f", "\\openin 1 ",
    "\\expandafter", "\\expandafter\\a", "\\noexpand", "\\chardef", "\\chardef\\a=", "\\mathchardef", "\\countdef", "\\toksdef", "\\global", "\\long", "\\read 1 to", "\\advance", "\\advance\\count 1 by", "\\toks 1=", "\\count",
    "\\dimen 1=1", "\\skip 1=1pt plus", "\\newInt", "\\newIntArray", "\\def\\a#1{#1}\\a", "\\iffalse", "{",
];
const EMPTY_CS_ENDINGS: [&str; 5] = ["\\", "\\\n", "\\\nx", "\\\n\\relax x", "\\\n=1 "];
/// A command whose name has 1-, 2-, 3- or 4-byte characters is defined, THEN an undefined command is executed
/// (the default handler's UndefinedCommandError compares the name with every name in the commands map).
fn multibyte_name_programs() -> Vec<String> {
    let defs = [
        r"\def\a{}", r"\def\é{}", r"\let\中=\relax ", r"\def\𝔸{}", r"\catcode`\é=11 \def\éé{}", r"\catcode`\中=11 \catcode`\𝔸=11 \let\a中𝔸b=\relax ", r"\gdef\→{x}\chardef\é=65 \countdef\𝔸=1 ",
    ];
    let undefs = [r"\undefinedcs", r"\xyz ", r"\é", r"\→", "~", r"\éé ", r"\a中𝔸 ", r"\ "];
    let mut v = vec![];
    for d in defs {
        for u in undefs {
            v.push(format!("{d}{u}"));
        }
    }
    v
}
fn mini_vocab() -> Vec<String> {
    ["\\the", "\\def", "\\a", "{", "}", "#", "1", "-", "2147483647", "é", "\\fi", "\\read"].iter().map(|s| s.to_string()).collect()
}
fn append_tok(src: &mut String, t: &str) {
    src.push_str(t);
    if t.starts_with('\\') && t.len() > 2 && t.chars().nth(1).map(|c| c.is_ascii_alphabetic()).unwrap_or(false) {
        src.push(' ');
    }
}
const MODES: [&str; 4] = ["", "\\scrollmode ", "\\nonstopmode ", "\\batchmode "];
const MODE_NAMES: [&str; 4] = ["errorstop", "scroll", "nonstop", "batch"];

// ------------------------------------------------------------------ seeds

fn seeds() -> Vec<String> {
    let mut v: Vec<String> = vtex::texlang_stdlib::ErrorCase::all_error_cases().into_iter().map(|c| c.source_code.to_string()).collect();
    // valid idioms
    for s in [
        r"\def\a#1.#2{[#2#1]}\a xy.{z}w",
        r"\def\a#1#2{#2#1}\a{x}{y}\a x{yz}",
        r"\ifnum 1<2 a\ifcase 1 b\or c\or d\else e\fi\else f\fi g",
        r"\ifodd 3 \iftrue a\else b\fi\fi\iffalse x\ifnum 1=1 y\fi\else z\fi",
        "\\openin 1 f \\read 1 to \\a \\a \\ifeof 1 e\\else \\read 1 to \\b \\b\\fi \\closein 1 ",
        r"\input f \relax",
        "a\\input g b",
        r"\count 1=5 \advance\count 1 by 2 \multiply\count 1 by -3 \divide\count 1 by 2 \the\count 1",
        r"\dimen 1=1.5pt \advance\dimen 1 by 2\dimen 1 \skip 1=\dimen 1 plus 1fil minus 2pt \the\skip 1",
        r"\countdef\c=3 \c=7 {\global\c=8 \c=9 }\the\c",
        r"\toks 1={a#b}\toksdef\t=1 \the\t \toks 2=\t",
        r"\catcode `\<=1 \catcode `\>=2 \def\a<x>\a",
        r"\chardef\c=65 \mathchardef\m=7 \c\the\m \count 1=\c",
        r"\expandafter\def\expandafter\a\expandafter{\the\count 1}\a \noexpand\a",
        r"\let\b=\def \b\c{x}\c \let\d=a \d",
        r"{\def\a{x}\gdef\b{y}}\b \a",
        r"\long\outer\def\a#1{#1}\a{\par}",
        r"\endlinechar=-1 \year=\month \the\time \jobname",
        r"\newInt\n \n=3 \newIntArray\m 4 \m 2=5 \the\m 2 \the\n",
        r"\tracingmacros=2 \def\a#1{#1}\a b",
        r"\globaldefs=1 {\count 1=2 }\the\count 1 \globaldefs=-1 \global\count 1=3 ",
        r"\dimen 0=\count 1 sp \dimen 2=-\dimen 0 \multiply\dimen 0 by \count 1 ",
        // values at the edge of the 32-bit range (-2^31 is reachable by \advance only)
        r"\count 1=-2147483647 \advance\count 1 by -1 \dimen 0=\count 1 sp",
        r"\count 1=-2147483647 \advance\count 1 by -1 \skip 0=\count 1 pt",
        r"\count 1=-2147483647 \advance\count 1 by -1 \dimen 0=1pt \multiply\dimen 0 by \count 1 ",
        r"\dimen 1=-1073741823sp \advance\dimen 1 by -1073741823sp \advance\dimen 1 by -2sp \dimen 0=-\dimen 1 ",
        r"\dimen 1=-1073741823sp \advance\dimen 1 by -1073741823sp \advance\dimen 1 by -2sp \multiply\dimen 1 by 1 ",
        r"\skip 1=-1073741823sp \advance\skip 1 by -1073741823sp \advance\skip 1 by -2sp \skip 0=-\skip 1 ",
        r"\count 2=2147483647 \dimen 0=.5\count 2 ",
        r"\count 1=-1073741824 \multiply\count 1 by 2 \divide\count 1 by -1 ",
        r"\newIntArray\m 4 \let\b=\m \b 2=5 \the\b 2 ",
        r"\ifcase -2147483647 a\or b\or c\else d\fi \ifcase 2147483647 a\or b\fi",
        // the same thing again / empty things
        r"\def\a{}\def\a{}\a \let\a=\a \a \gdef\a{}\a",
        r"\openin 1 f \openin 1 f \closein 1 \closein 1 \closein 15 \ifeof 15 a\fi",
        r"{}{{}}\toks 1={}\the\toks 1 \count 1=\count 1 \catcode `a=11 \endlinechar=\endlinechar ",
        r"\input e \input w a\input e ",
        // a second instance of a kind
        "\\openin 1 f \\openin 2 g \\read 2 to\\a \\read 1 to\\b \\a\\b \\ifeof 2 x\\fi ",
        r"\newIntArray\m 2 \newIntArray\n 3 \n 2=1 \m 1=2 \newInt\p \newInt\q \q=\n 2 \the\q \m 3=1 ",
        r"\newIntArray\m 4 \m 3=1 \m 4=1 ",
        // prefixes in every order and combination
        r"\global\long\outer\def\a#1{#1}\outer\global\long\gdef\b{}\long\global\outer\def\c{}\a\b",
        r"\long\global\count 1=2 \global\global\advance\count 1 by 1 \outer\count 1=1 \global\let\a=\b \long\let\a=\b ",
        r"\def\a#1#2{(#1#2)}\def\b{x}\def\c{y}\expandafter\expandafter\expandafter\a\expandafter\b\c",
        // active characters in the roles of control sequences
        r"{\def~{x}~}~ \let\a=~ \a \the~ \expandafter\a~ \expandafter~\a",
        r"\catcode`\!=13 ! \def!{y}! \let!=\undefined ! \let\b=! \b",
        r"\count 1=`~ \count 1=`? \ifnum`|=`@ a\fi \def\a~{}\a~ \a? ?@| \noexpand~ \noexpand?",
        // infinite orders other than fil
        r"\skip 1=1pt plus 2fill minus 3filll \advance\skip 1 by \skip 1 \multiply\skip 1 by -2 \divide\skip 1 by 3 \the\skip 1 ",
        // faults inside collecting loops: \outer macro and \par in parameter text, argument, skipped branch, token list
        r"\def\a#1{#1}\a{x\o y}\a\o \iffalse\o\fi \toks 1={\o}\def\b#1\o{}\def\c{\o}",
        r"\def\a#1{#1}\a{x\par y}\def\b#1.{#1}\b x\par.\iffalse\par\fi ",
    ] {
        v.push(s.to_string());
    }
    v
}
/// Lexical chunks of a seed: control word (+ the blanks it swallows), control symbol, digit string, or one character.
fn chunks(src: &str) -> Vec<String> {
    let cs: Vec<char> = src.chars().collect();
    let mut out = vec![];
    let mut i = 0;
    while i < cs.len() {
        let start = i;
        if cs[i] == '\\' {
            i += 1;
            if i < cs.len() && cs[i].is_ascii_alphabetic() {
                while i < cs.len() && cs[i].is_ascii_alphabetic() {
                    i += 1;
                }
                while i < cs.len() && cs[i] == ' ' {
                    i += 1;
                }
            } else if i < cs.len() {
                i += 1;
            }
        } else if cs[i].is_ascii_digit() {
            while i < cs.len() && cs[i].is_ascii_digit() {
                i += 1;
            }
        } else {
            i += 1;
        }
        out.push(cs[start..i].iter().collect());
    }
    out
}
fn join(chs: &[String]) -> String {
    let mut s = String::new();
    for c in chs {
        if c.starts_with('\\') && c.len() > 2 && !c.ends_with(' ') {
            append_tok(&mut s, c);
        } else {
            s.push_str(c);
        }
    }
    s
}

// ------------------------------------------------------------------ families (index -> program)

struct Families {
    full: Vec<String>,
    core: Vec<String>,
    mini: Vec<String>,
    seeds: Vec<Vec<String>>,
    /// cumulative number of single deviations per seed, for the full / core substitution vocabulary
    dev1_cum: Vec<u64>,
    dev1_vocab: Vec<String>,
    dev2_cum: Vec<u64>,
    short_full_len: u32,
    short_core_len: u32,
    resource: Vec<String>,
    extreme: Vec<Vec<String>>,
    extreme_cum: Vec<u64>,
    extreme_vocab: Vec<String>,
    /// nonascii-lines: core strings up to this length, then every non-empty truncation of every seed
    lines_core_len: u32,
    lines_trunc_cum: Vec<u64>,
    mbnames: Vec<Vec<String>>,
    mbnames_cum: Vec<u64>,
}
impl Families {
    fn new(quick: bool) -> Families {
        let full = full_vocab();
        let core = core_vocab();
        let mini = mini_vocab();
        let seeds: Vec<Vec<String>> = seeds().iter().map(|s| chunks(s)).collect();
        let dev1_vocab = if quick { core.clone() } else { full.clone() };
        let mut dev1_cum = vec![0u64];
        let mut dev2_cum = vec![0u64];
        for s in &seeds {
            let n = s.len() as u64;
            let k = dev1_vocab.len() as u64;
            dev1_cum.push(dev1_cum.last().unwrap() + 1 + n + n * k + (n + 1) * k);
            let d = Self::n_dev(n, mini.len() as u64);
            dev2_cum.push(dev2_cum.last().unwrap() + d * d);
        }
        let extreme: Vec<Vec<String>> = extreme_programs().iter().map(|s| chunks(s)).collect();
        let extreme_vocab: Vec<String> = if quick { ["-", "0", "2147483647", "\\the"].iter().map(|s| s.to_string()).collect() } else { core.clone() };
        let mut extreme_cum = vec![0u64];
        for e in &extreme {
            extreme_cum.push(extreme_cum.last().unwrap() + Self::n_dev(e.len() as u64, extreme_vocab.len() as u64));
        }
        let mut lines_trunc_cum = vec![0u64];
        for sd in &seeds {
            lines_trunc_cum.push(lines_trunc_cum.last().unwrap() + sd.len() as u64);
        }
        let mbnames: Vec<Vec<String>> = multibyte_name_programs().iter().map(|s| chunks(s)).collect();
        let mut mbnames_cum = vec![0u64];
        for e in &mbnames {
            mbnames_cum.push(mbnames_cum.last().unwrap() + Self::n_dev(e.len() as u64, mini.len() as u64));
        }
        Families { mbnames, mbnames_cum, lines_core_len: if quick { 2 } else { 3 }, lines_trunc_cum, extreme, extreme_cum, extreme_vocab, full, core, mini, seeds, dev1_cum, dev1_vocab, dev2_cum, short_full_len: if quick { 2 } else { 3 }, short_core_len: if quick { 3 } else { 4 }, resource: resource_programs() }
    }
    fn n_dev(n: u64, k: u64) -> u64 {
        n + n * k + (n + 1) * k
    }
    /// d-th single deviation of a chunk list: deletions, then substitutions, then insertions.
    fn deviate(chs: &[String], vocab: &[String], d: u64) -> Option<Vec<String>> {
        let n = chs.len() as u64;
        let k = vocab.len() as u64;
        let mut out = chs.to_vec();
        if d < n {
            out.remove(d as usize);
        } else if d < n + n * k {
            let e = d - n;
            out[(e / k) as usize] = vocab[(e % k) as usize].clone();
        } else if d < n + n * k + (n + 1) * k {
            let e = d - n - n * k;
            out.insert((e / k) as usize, vocab[(e % k) as usize].clone());
        } else {
            return None;
        }
        Some(out)
    }
    fn count(&self, family: &str) -> u64 {
        match family {
            "short-full" => vcore::strings_upto(self.full.len() as u64, self.short_full_len) * 4,
            "short-core" => vcore::strings_upto(self.core.len() as u64, self.short_core_len) * 4,
            "seed-dev1" => self.dev1_cum.last().unwrap() * 4,
            "seed-dev2" => *self.dev2_cum.last().unwrap(),
            "resource" => self.resource.len() as u64 * 4,
            "nonascii-lines" => (vcore::strings_upto(self.core.len() as u64, self.lines_core_len) + self.lines_trunc_cum.last().unwrap()) * WRAPPERS.len() as u64 * 4,
            "stdlib-state" => self.lines_trunc_cum.last().unwrap() * 4,
            "strict-short" => vcore::strings_upto(self.full.len() as u64, 2) * 4,
            "multibyte-names" => self.mbnames.len() as u64 * 8,
            "multibyte-names-dev1" => *self.mbnames_cum.last().unwrap() * 4,
            // contexts x endings, then every seed truncation with the first ending; x {recording, strict} handlers x 4 modes
            "empty-cs" => ((EMPTY_CS_CONTEXTS.len() * EMPTY_CS_ENDINGS.len()) as u64 + self.lines_trunc_cum.last().unwrap()) * 8,
            "extreme-arith" => self.extreme.len() as u64 * 4,
            "extreme-arith-dev1" => *self.extreme_cum.last().unwrap(),
            _ => 0,
        }
    }
    /// (mode index, program without the mode prefix)
    fn program(&self, family: &str, idx: u64) -> (usize, String) {
        match family {
            "short-full" | "short-core" => {
                let v = if family == "short-full" { &self.full } else { &self.core };
                let mode = (idx % 4) as usize;
                let digits = vcore::nth_string(v.len() as u64, idx / 4);
                let mut src = String::new();
                for d in digits {
                    append_tok(&mut src, &v[d as usize]);
                }
                (mode, src)
            }
            "seed-dev1" => {
                let mode = (idx % 4) as usize;
                let j = idx / 4;
                let s = match self.dev1_cum.binary_search(&j) {
                    Ok(i) => i,
                    Err(i) => i - 1,
                };
                let d = j - self.dev1_cum[s];
                let chs = if d == 0 { self.seeds[s].clone() } else { Self::deviate(&self.seeds[s], &self.dev1_vocab, d - 1).expect("deviation index") };
                (mode, join(&chs))
            }
            "resource" => ((idx % 4) as usize, self.resource[(idx / 4) as usize].clone()),
            "nonascii-lines" => {
                let mode = (idx % 4) as usize;
                let w = WRAPPERS[((idx / 4) % WRAPPERS.len() as u64) as usize];
                let item = idx / 4 / WRAPPERS.len() as u64;
                let ncore = vcore::strings_upto(self.core.len() as u64, self.lines_core_len);
                let body = if item < ncore {
                    let mut src = String::new();
                    for d in vcore::nth_string(self.core.len() as u64, item) {
                        append_tok(&mut src, &self.core[d as usize]);
                    }
                    src
                } else {
                    // the first k+1 chunks of a seed: the input ends inside whatever construct is open there
                    let j = item - ncore;
                    let sd = match self.lines_trunc_cum.binary_search(&j) {
                        Ok(i) => i,
                        Err(i) => i - 1,
                    };
                    let k = (j - self.lines_trunc_cum[sd]) as usize;
                    join(&self.seeds[sd][..=k])
                };
                (mode, format!("{}{}{}", w.0, body, w.1))
            }
            "multibyte-names" => ((idx % 4) as usize, join(&self.mbnames[(idx / 8) as usize])),
            "multibyte-names-dev1" => {
                let j = idx / 4;
                let e = match self.mbnames_cum.binary_search(&j) {
                    Ok(i) => i,
                    Err(i) => i - 1,
                };
                ((idx % 4) as usize, join(&Self::deviate(&self.mbnames[e], &self.mini, j - self.mbnames_cum[e]).expect("deviation index")))
            }
            "strict-short" => {
                let mut src = String::new();
                for d in vcore::nth_string(self.full.len() as u64, idx / 4) {
                    append_tok(&mut src, &self.full[d as usize]);
                }
                ((idx % 4) as usize, src)
            }
            "empty-cs" => {
                let j = idx / 8;
                let nc = (EMPTY_CS_CONTEXTS.len() * EMPTY_CS_ENDINGS.len()) as u64;
                let tail = if j < nc {
                    format!("{}{}", EMPTY_CS_CONTEXTS[(j / EMPTY_CS_ENDINGS.len() as u64) as usize], EMPTY_CS_ENDINGS[(j % EMPTY_CS_ENDINGS.len() as u64) as usize])
                } else {
                    let t = j - nc;
                    let sd = match self.lines_trunc_cum.binary_search(&t) {
                        Ok(i) => i,
                        Err(i) => i - 1,
                    };
                    format!("{}\\", join(&self.seeds[sd][..=(t - self.lines_trunc_cum[sd]) as usize]).trim_end())
                };
                ((idx % 4) as usize, format!("\\endlinechar=-1 \n{tail}"))
            }
            "stdlib-state" => {
                let j = idx / 4;
                let sd = match self.lines_trunc_cum.binary_search(&j) {
                    Ok(i) => i,
                    Err(i) => i - 1,
                };
                ((idx % 4) as usize, join(&self.seeds[sd][..=(j - self.lines_trunc_cum[sd]) as usize]))
            }
            "extreme-arith" => ((idx % 4) as usize, join(&self.extreme[(idx / 4) as usize])),
            "extreme-arith-dev1" => {
                let e = match self.extreme_cum.binary_search(&idx) {
                    Ok(i) => i,
                    Err(i) => i - 1,
                };
                let chs = Self::deviate(&self.extreme[e], &self.extreme_vocab, idx - self.extreme_cum[e]).expect("deviation index");
                (1, join(&chs))
            }
            "seed-dev2" => {
                let s = match self.dev2_cum.binary_search(&idx) {
                    Ok(i) => i,
                    Err(i) => i - 1,
                };
                let d = idx - self.dev2_cum[s];
                let nd = Self::n_dev(self.seeds[s].len() as u64, self.mini.len() as u64);
                let first = Self::deviate(&self.seeds[s], &self.mini, d / nd).expect("dev2 first");
                // the second deviation is applied to the result of the first (indices beyond its range: none)
                let chs = Self::deviate(&first, &self.mini, d % nd).unwrap_or(first);
                (1, join(&chs))
            }
            _ => (0, String::new()),
        }
    }
}

// ------------------------------------------------------------------ one case (worker side)

/// Panic sites that are planned to stay (DESIGN §4.1, D8): (finding id, file suffix, text of the source line).
const KNOWN_SITES: [(&str, &str, &str); 3] = [
    ("D8-the-non-variable", "texlang-stdlib/src/the.rs", "todo!(\"should return an error\")"),
    ("D8-file-area", "texlang/src/parse/filelocation.rs", "panic!(\"Texlang does not have support for file areas yet\");"),
    ("D8-font-variable-as-number", "texlang/src/parse/integer.rs", "todo!(\"scan a font into an int?\");"),
];

fn setup_vm() -> Box<vtex::Vm> {
    let mut vm = vtex::new_vm();
    vm.state.env.step_budget.set(3000);
    vm.state.env.err_budget.set(100);
    {
        let fs = vm.state.env.fs.borrow();
        fs.add("f.tex", "a{\nb}\n\\x");
        fs.add("g.tex", "é\\endinput z\n}");
        fs.add("a.tex", "\\input a");
        fs.add("e.tex", "");
        fs.add("w.tex", " \n\n  \n");
    }
    // two macros exist before every program: an \outer one and an empty one
    // and three active characters: a macro, an alias of a primitive, an \outer macro (`~` stays undefined)
    let _ = vtex::run(&mut vm, "\\outer\\def\\o{}\\def\\e{}\\catcode`\\?=13 \\def?{q}\\catcode`\\@=13 \\let@=\\relax \\catcode`\\|=13 \\outer\\def|{}");
    vm.clear_sources();
    vm.state.env.steps.set(0);
    vm.state.env.errs.set(0);
    for (name, f) in [("fa", 1u32), ("fb", 2u32)] {
        if let Some(cs) = vm.cs_name_interner().get(name) {
            vm.state.env.font_names.borrow_mut().insert(f, token::CommandRef::ControlSequence(cs));
        }
    }
    vtex::set_terminal(&mut vm, &["t{", "\\fi é"]);
    vm
}

/// Second program run on the same VM: typesets x, then the input ends inside `\count`.
const SECOND: &str = "x\\count";
/// Title and context-chain length of the error `SECOND` ends with on a fresh VM.
fn second_baseline() -> &'static (String, usize) {
    static B: std::sync::OnceLock<(String, usize)> = std::sync::OnceLock::new();
    B.get_or_init(|| {
        let mut vm = setup_vm();
        let _ = vm.push_source("u.tex", SECOND);
        match vm.run::<vtex::H>() {
            Err(e) => (e.error.title(), e.stack_trace.len()),
            Ok(()) => ("<no error>".into(), 0),
        }
    })
}
/// The rendered error shows `<source name>:<line>`.
fn text_shows_location(text: &str) -> bool {
    for marker in [".tex:", "terminal>:"] {
        let mut rest = text;
        while let Some(i) = rest.find(marker) {
            rest = &rest[i + marker.len()..];
            if rest.chars().next().map(|c| c.is_ascii_digit()).unwrap_or(false) {
                return true;
            }
        }
    }
    false
}

struct Verdict {
    class: String,
    /// (expected, observed, note)
    fail: Option<(String, String, String)>,
    known: Option<String>,
    cutoff: bool,
    reached_primitive: bool,
    errors_recovered: u64,
    nonascii_error: bool,
}

fn run_case(mode: usize, body: &str) -> Verdict {
    run_case_with::<vtex::H>(mode, body)
}
/// `Hd` = vtex::H (undefined commands are recorded) or vtex::HStrict (the VM's default handler: an
/// undefined control sequence or active character is the fatal UndefinedCommandError).
fn run_case_with<Hd: vtex::texlang::vm::Handlers<vtex::HState>>(mode: usize, body: &str) -> Verdict {
    let src = format!("{}{}", MODES[mode], body);
    let mut v = Verdict { class: String::new(), fail: None, known: None, cutoff: false, reached_primitive: body.contains('\\'), errors_recovered: 0, nonascii_error: false };
    let errs = std::cell::Cell::new(0u64);
    let r = vcore::catch(|| {
        let mut vm = setup_vm();
        let _ = vm.push_source("t.tex", src.clone());
        let r = vm.run::<Hd>();
        errs.set(vm.state.env.errs.get());
        let outcome: Result<(), (String, String)> = match r {
            Ok(()) => Ok(()),
            Err(e) => {
                let title = e.error.title();
                // the error must render, to non-empty text, without panicking (a panic here unwinds to `catch`)
                let text = format!("{e}");
                // "carries a source location": any of the error's carriers names a line (which carrier the
                // crate uses for which error kind is its own choice), or the rendered text itself shows
                // <source>:<line>
                let located = e.token_traces.values().any(|tr| tr.line_number >= 1)
                    || e.end_of_input_trace.as_ref().map(|tr| tr.line_number >= 1).unwrap_or(false)
                    || e.error.source_code_trace_override().map(|tr| tr.line_number >= 1).unwrap_or(false)
                    || e.stack_trace.iter().any(|s| s.trace.line_number >= 1)
                    || text_shows_location(&text);
                Err((title, if text.trim().is_empty() { "EMPTY-RENDERING".into() } else if !located { "NOT-LOCATED".into() } else { String::new() }))
            }
        };
        // afterwards the VM is reusable: unread input of the first program is dropped and a second program
        // runs; it ends with an end-of-input error inside \\count, whose context chain (stack trace) must be
        // the one this program has on a fresh VM - frames left over from the first program would make a
        // later error point at the wrong place
        let depth = vm.generate_stack_trace().len();
        vm.clear_sources();
        vm.state.env.out.borrow_mut().clear();
        vm.state.env.steps.set(0);
        vm.state.env.errs.set(0);
        let _ = vm.push_source("u.tex", SECOND);
        let again = vm.run::<Hd>().map_err(|e| (e.error.title(), e.stack_trace.len(), depth));
        let out2 = vm.state.env.out.borrow().concat();
        (outcome, again, out2)
    });
    v.errors_recovered = errs.get();
    match r {
        Err(p) if p.cutoff => {
            v.cutoff = true;
            v.class = "budget cut-off".into();
        }
        Err(p) => {
            let line = p.source_line();
            let rel = p.rel_file();
            v.class = format!("panic {}", p.site());
            if let Some((id, _, _)) = KNOWN_SITES.iter().find(|(_, f, l)| rel.ends_with(f) && line.contains(l)) {
                v.known = Some(id.to_string());
            } else {
                v.fail = Some(("success or a located error".into(), p.describe(), "panic".into()));
            }
            v.nonascii_error = !body.is_ascii();
        }
        Ok((outcome, again, out2)) => {
            match &outcome {
                Ok(()) => v.class = "ok".into(),
                Err((title, defect)) => {
                    v.class = format!("error: {}", generalize(title));
                    v.nonascii_error = !body.is_ascii();
                    if !defect.is_empty() {
                        v.fail = Some(("an error that carries a source location and renders to non-empty text".into(), format!("{defect}: {title}"), "error is not located / does not render".into()));
                    }
                }
            }
            if v.fail.is_none() {
                // a fatal error in the first run may leave groups/conditionals open; the second run
                // must still execute (x is typeset or a located error is returned, no panic, no hang)
                let (t0, d0) = second_baseline();
                match again {
                    Ok(()) => v.class.push_str(if out2.contains('x') { " / second run: ok" } else { " / second run: x not typeset" }),
                    Err((t, d, left)) if t == *t0 => {
                        if d != *d0 {
                            v.fail = Some((
                                format!("second program: {t0:?} with the context chain it has on a fresh VM ({d0} element(s))"),
                                format!("context chain of {d} element(s); {left} element(s) were left on the execution stack by the first run"),
                                "an error of the second program carries context left over from the first one".into(),
                            ));
                        }
                    }
                    Err(_) => v.class.push_str(" / second run: other error"),
                }
            }
        }
    }
    v
}
/// The same oracle on the repository's own `StdLibState` (no harness hooks: no budgets, real file system
/// rooted at a directory that does not exist, stdout to the worker's /dev/null), for programs without loops.
fn run_case_stdlib(mode: usize, body: &str) -> Verdict {
    use vtex::texlang_stdlib::StdLibState;
    let src = format!("{}{}", MODES[mode], body);
    let mut v = Verdict { class: String::new(), fail: None, known: None, cutoff: false, reached_primitive: body.contains('\\'), errors_recovered: 0, nonascii_error: false };
    let r = vcore::catch(|| {
        let mut cmds = vtex::texlang_stdlib::built_in_commands::<StdLibState>();
        cmds.remove("sleep");
        let mut vm = vtex::texlang::vm::VM::<StdLibState>::new_with_built_in_commands(cmds);
        vm.working_directory = Some("/nonexistent-c09".into());
        vm.state.error_mode.set_default_terminal(std::rc::Rc::new(std::cell::RefCell::new(vtex::ScriptTerminal { lines: vec!["t{".into(), "\\fi é".into()], pos: 0 })));
        let _ = vm.push_source("t.tex", src.clone());
        match vm.run::<vtex::texlang::vm::DefaultHandlers>() {
            Ok(()) => None,
            Err(e) => {
                let text = format!("{e}");
                let located = e.token_traces.values().any(|tr| tr.line_number >= 1)
                    || e.end_of_input_trace.as_ref().map(|tr| tr.line_number >= 1).unwrap_or(false)
                    || e.error.source_code_trace_override().map(|tr| tr.line_number >= 1).unwrap_or(false)
                    || e.stack_trace.iter().any(|s| s.trace.line_number >= 1)
                    || text_shows_location(&text);
                Some((e.error.title(), text.trim().is_empty(), located))
            }
        }
    });
    match r {
        Err(p) => {
            let (line, rel) = (p.source_line(), p.rel_file());
            v.class = format!("stdlib-state panic {}", p.site());
            if let Some((id, _, _)) = KNOWN_SITES.iter().find(|(_, f, l)| rel.ends_with(f) && line.contains(l)) {
                v.known = Some(id.to_string());
            } else {
                v.fail = Some(("success or a located error".into(), p.describe(), "panic (StdLibState)".into()));
            }
        }
        Ok(None) => v.class = "stdlib-state ok".into(),
        Ok(Some((title, empty, located))) => {
            v.class = format!("stdlib-state error: {}", generalize(&title));
            if empty || !located {
                v.fail = Some(("an error that carries a source location and renders to non-empty text".into(), format!("{}: {title}", if empty { "EMPTY-RENDERING" } else { "NOT-LOCATED" }), "error is not located / does not render (StdLibState)".into()));
            }
        }
    }
    v
}
/// Error titles with their variable parts removed (keeps the number of outcome classes bounded).
fn generalize(title: &str) -> String {
    let mut out = String::new();
    let mut prev_digit = false;
    for c in title.chars().take(90) {
        if c.is_ascii_digit() {
            if !prev_digit {
                out.push('N');
            }
            prev_digit = true;
        } else {
            prev_digit = false;
            out.push(if c.is_ascii() { c } else { '?' });
        }
    }
    out
}

// ------------------------------------------------------------------ worker

#[derive(Default)]
struct WAcc {
    evals: u64,
    nontrivial: u64,
    cutoffs: u64,
    fail_count: u64,
    classes: BTreeMap<String, u64>,
    counters: BTreeMap<String, u64>,
    fails: Vec<Value>,
    known: BTreeMap<String, (u64, u64, Value)>,
    witness: BTreeMap<String, String>,
}
impl WAcc {
    fn to_json(&self) -> Value {
        json!({"evals": self.evals, "nontrivial": self.nontrivial, "cutoffs": self.cutoffs, "fail_count": self.fail_count, "classes": self.classes, "counters": self.counters, "fails": self.fails, "witness": self.witness,
            "known": self.known.iter().map(|(k, v)| (k.clone(), json!([v.0, v.1, v.2]))).collect::<serde_json::Map<String, Value>>()})
    }
}
fn case_json(family: &str, idx: u64, mode: usize, body: &str) -> Value {
    json!({"family": family, "idx": idx, "mode": MODE_NAMES[mode], "program": format!("{}{}", MODES[mode], body)})
}

fn worker(family: &str, lo: u64, hi: u64, progress: &str, quick: bool) -> ! {
    vcore::pan::install_hook();
    let fams = Families::new(quick);
    let pf = std::fs::OpenOptions::new().write(true).create(true).truncate(false).open(progress).expect("progress file");
    let family = family.to_string();
    let result = format!("{progress}.out");
    let h = std::thread::Builder::new()
        .stack_size(512 << 20)
        .spawn(move || {
            let mut w = WAcc::default();
            for idx in lo..hi {
                let _ = pf.write_at(&idx.to_le_bytes(), 0);
                // self-test hooks of the attribution machinery (never set by ./check)
                if selftest("C09_SELFTEST_ABORT_AT") == Some(idx) {
                    std::process::abort();
                }
                if selftest("C09_SELFTEST_HANG_AT") == Some(idx) {
                    loop {
                        std::thread::sleep(Duration::from_secs(3600));
                    }
                }
                let (mode, body) = fams.program(&family, idx);
                let strict = family == "strict-short" || family.starts_with("multibyte-names") || (family == "empty-cs" && (idx / 4) % 2 == 1);
                let on_stdlib = family == "stdlib-state" || (family == "multibyte-names" && (idx / 4) % 2 == 1);
                let v = if on_stdlib {
                    run_case_stdlib(mode, &body)
                } else if strict {
                    run_case_with::<vtex::HStrict>(mode, &body)
                } else {
                    run_case(mode, &body)
                };
                w.evals += 1;
                // vacuity counters, from the program text
                for (name, hit) in [
                    ("program_has_3_byte_char", body.chars().any(|c| c.len_utf8() == 3)),
                    ("program_has_4_byte_char", body.chars().any(|c| c.len_utf8() == 4)),
                    ("program_uses_outer_macro", body.contains("\\o ") || body.ends_with("\\o")),
                    ("program_uses_empty_macro", body.contains("\\e ")),
                    ("program_ends_with_newline", body.ends_with('\n')),
                    ("program_has_cr_lf", body.contains("\r\n")),
                    ("program_starts_inside_a_group", body.starts_with('{')),
                    ("program_on_stdlib_state", family == "stdlib-state"),
                    // \endlinechar=-1 on line 1, and the input or a later line ends with one escape character
                    // directly after a scanning primitive
                    ("empty_named_control_sequence_reaches_a_scanner", family == "empty-cs" && body.len() > "\\endlinechar=-1 \n\\".len() + 1 && !body.starts_with("\\endlinechar=-1 \n\\")),
                    // default (strict) undefined-command handler and the first token is the undefined active character
                    ("undefined_active_character_executed", (strict || family == "stdlib-state") && (body.starts_with('~') || body.starts_with("{\\def~{x}~}~"))),
                    ("undefined_command_while_a_multibyte_name_is_defined", family == "multibyte-names" && !body.starts_with("\\def\\a{}")),
                    ("program_uses_active_macro_or_alias", body.contains('?') || body.contains('@') || body.contains('|')),
                    ("program_reads_empty_or_blank_file", body.contains("\\input e") || body.contains("\\input w")),
                ] {
                    if hit {
                        *w.counters.entry(name.into()).or_insert(0) += 1;
                    }
                }
                if v.reached_primitive {
                    w.nontrivial += 1;
                }
                *w.classes.entry(v.class.clone()).or_insert(0) += 1;
                if v.cutoff {
                    w.cutoffs += 1;
                }
                if v.errors_recovered > 0 {
                    *w.counters.entry(format!("errors_recovered_{}", MODE_NAMES[mode])).or_insert(0) += 1;
                }
                if v.nonascii_error {
                    *w.counters.entry("errors_on_non_ascii_lines".into()).or_insert(0) += 1;
                }
                if let Some(id) = v.known {
                    let e = w.known.entry(id).or_insert((0, idx, case_json(&family, idx, mode, &body)));
                    e.0 += 1;
                } else if let Some((exp, obs, note)) = v.fail {
                    w.fail_count += 1;
                    if w.fails.len() < 6 {
                        w.fails.push(json!({"idx": idx, "case": case_json(&family, idx, mode, &body), "expected": exp, "observed": obs, "note": note}));
                    }
                    // the class carries its first (smallest-index) witness of this chunk
                    let k = format!("FAIL {}", vcore::clip(&obs_site(&obs), 160));
                    *w.classes.entry(k.clone()).or_insert(0) += 1;
                    w.witness.entry(k).or_insert_with(|| format!("{}{}", MODES[mode], body));
                }
            }
            // the result goes to a file: the subject itself prints to stdout (\tracingmacros uses println!)
            std::fs::write(&result, serde_json::to_string(&w.to_json()).unwrap()).expect("write result");
            let _ = pf.write_at(&u64::MAX.to_le_bytes(), 0);
        })
        .expect("spawn");
    let ok = h.join().is_ok();
    std::process::exit(if ok { 0 } else { 3 })
}
fn selftest(var: &str) -> Option<u64> {
    std::env::var(var).ok().and_then(|s| s.parse().ok())
}
fn obs_site(obs: &str) -> String {
    // "panic at <site>: msg [source line: ...]" -> "<site> [source line]"
    match (obs.find("panic at "), obs.find("[source line:")) {
        (Some(a), Some(b)) => {
            let site = obs[a + 9..].split(": ").next().unwrap_or("");
            format!("{site} {}", &obs[b..])
        }
        _ => obs.to_string(),
    }
}

// ------------------------------------------------------------------ parent

static SEQ: AtomicU64 = AtomicU64::new(0);

enum ChunkEnd {
    Done(Value),
    /// the worker died or hung while running this index
    Died(u64, String),
    Machinery(String),
}

fn run_worker(family: &str, lo: u64, hi: u64, quick: bool, stall_s: u64) -> ChunkEnd {
    let dir = std::env::temp_dir().join(format!("c09-{}", std::process::id()));
    let _ = std::fs::create_dir_all(&dir);
    // workers are started from a private copy of the binary: a rebuild during a long run must not
    // change (or momentarily remove) what is being executed
    static EXE: std::sync::OnceLock<std::path::PathBuf> = std::sync::OnceLock::new();
    let exe = EXE
        .get_or_init(|| {
            let me = std::env::current_exe().expect("current_exe");
            let copy = dir.join("c09-worker");
            match std::fs::copy(&me, &copy) {
                Ok(_) => copy,
                Err(_) => me,
            }
        })
        .clone();
    let pfile = dir.join(format!("p{}", SEQ.fetch_add(1, Ordering::Relaxed)));
    let _ = std::fs::write(&pfile, (u64::MAX - 1).to_le_bytes());
    // address space limit: an allocation failure must abort the worker, not exhaust the machine
    let script = "ulimit -v 3145728; exec \"$0\" \"$@\"";
    let mut child = match std::process::Command::new("/bin/sh")
        .arg("-c")
        .arg(script)
        .arg(&exe)
        .args(["--worker", family, &lo.to_string(), &hi.to_string(), pfile.to_str().unwrap(), "--tier", if quick { "quick" } else { "thorough" }])
        .stdin(std::process::Stdio::null())
        .stdout(std::process::Stdio::null())
        .stderr(std::process::Stdio::null())
        .spawn()
    {
        Ok(c) => c,
        Err(e) => return ChunkEnd::Machinery(format!("cannot spawn worker: {e}")),
    };
    let rfile = dir.join(format!("{}.out", pfile.file_name().unwrap().to_string_lossy()));
    let read_progress = || -> u64 {
        let mut b = [0u8; 8];
        match std::fs::File::open(&pfile).and_then(|f| f.read_at(&mut b, 0)) {
            Ok(8) => u64::from_le_bytes(b),
            _ => u64::MAX - 1,
        }
    };
    let mut last = (read_progress(), Instant::now());
    let status = loop {
        match child.try_wait() {
            Ok(Some(st)) => break Some(st),
            Ok(None) => {}
            Err(_) => break None,
        }
        std::thread::sleep(Duration::from_millis(20));
        let p = read_progress();
        if p != last.0 {
            last = (p, Instant::now());
        } else if last.1.elapsed() > Duration::from_secs(stall_s) {
            let _ = child.kill();
            let _ = child.wait();
            let _ = std::fs::remove_file(&pfile);
            let _ = std::fs::remove_file(&rfile);
            return if p >= u64::MAX - 1 { ChunkEnd::Machinery(format!("worker {family} {lo}..{hi} made no progress at all for {stall_s} s")) } else { ChunkEnd::Died(p, format!("no progress for {stall_s} s of wall clock on this case (hang); worker killed")) };
        }
    };
    let out = std::fs::read_to_string(&rfile).unwrap_or_default();
    let p = read_progress();
    let _ = std::fs::remove_file(&pfile);
    let _ = std::fs::remove_file(&rfile);
    match status {
        Some(st) if st.success() => match serde_json::from_str::<Value>(out.trim()) {
            Ok(v) => ChunkEnd::Done(v),
            Err(e) => ChunkEnd::Machinery(format!("worker {family} {lo}..{hi}: unreadable result ({e})")),
        },
        Some(st) => {
            if p >= u64::MAX - 1 {
                ChunkEnd::Machinery(format!("worker {family} {lo}..{hi} ended with {st} outside a case"))
            } else {
                use std::os::unix::process::ExitStatusExt;
                let how = match st.signal() {
                    Some(6) => "SIGABRT (abort: stack overflow guard, allocation failure or double panic)".to_string(),
                    Some(11) => "SIGSEGV (stack overflow)".to_string(),
                    Some(9) => "SIGKILL".to_string(),
                    Some(s) => format!("signal {s}"),
                    None => format!("{st}"),
                };
                ChunkEnd::Died(p, format!("the process died with {how} while running this case"))
            }
        }
        None => ChunkEnd::Machinery("cannot wait for worker".into()),
    }
}

fn leak(s: &str) -> &'static str {
    static NAMES: std::sync::Mutex<BTreeMap<String, &'static str>> = std::sync::Mutex::new(BTreeMap::new());
    let mut g = NAMES.lock().unwrap();
    if let Some(x) = g.get(s) {
        return x;
    }
    let l: &'static str = Box::leak(s.to_string().into_boxed_str());
    g.insert(s.to_string(), l);
    l
}
static WITNESS: std::sync::Mutex<BTreeMap<String, String>> = std::sync::Mutex::new(BTreeMap::new());
fn merge_worker(acc: &mut Acc, v: &Value) {
    if let Some(m) = v["witness"].as_object() {
        let mut g = WITNESS.lock().unwrap();
        for (k, w) in m {
            let w = w.as_str().unwrap_or("").to_string();
            match g.get(k) {
                Some(old) if old.len() <= w.len() => {}
                _ => {
                    g.insert(k.clone(), w);
                }
            }
        }
    }
    acc.evals += v["evals"].as_u64().unwrap_or(0);
    acc.nontrivial += v["nontrivial"].as_u64().unwrap_or(0);
    acc.cutoffs += v["cutoffs"].as_u64().unwrap_or(0);
    if let Some(m) = v["classes"].as_object() {
        for (k, n) in m {
            for _ in 0..1 {
                // Acc::class counts one by one; add the bulk directly
                let n = n.as_u64().unwrap_or(0);
                if n > 0 {
                    acc.class(k);
                    if let Some(e) = acc.classes.get_mut(k) {
                        *e += n - 1;
                    } else if let Some(e) = acc.classes.get_mut("<more classes>") {
                        *e += n - 1;
                    }
                }
            }
        }
    }
    if let Some(m) = v["counters"].as_object() {
        for (k, n) in m {
            acc.count_n(leak(k), n.as_u64().unwrap_or(0));
        }
    }
    let kept = v["fails"].as_array().map(|a| a.len()).unwrap_or(0) as u64;
    if let Some(a) = v["fails"].as_array() {
        for f in a {
            acc.fail(f["idx"].as_u64().unwrap_or(0), f["case"].clone(), f["expected"].as_str().unwrap_or(""), f["observed"].as_str().unwrap_or(""), f["note"].as_str().unwrap_or(""));
        }
    }
    acc.fail_count += v["fail_count"].as_u64().unwrap_or(0).saturating_sub(kept);
    if let Some(m) = v["known"].as_object() {
        for (k, e) in m {
            let (n, idx, w) = (e[0].as_u64().unwrap_or(0), e[1].as_u64().unwrap_or(0), e[2].clone());
            acc.known(k, idx, || w.clone());
            if let Some(x) = acc.known.get_mut(k) {
                x.0 += n - 1;
            }
        }
    }
}

/// Run one family: chunks of the index space are handed to worker processes, `threads` at a time.
fn run_family(ctx: &mut Ctx, fams: &Families, family: &str, bounds: &str) {
    if !ctx.wants(family) {
        return;
    }
    let n = fams.count(family);
    let t0 = Instant::now();
    let deadline = Instant::now() + Duration::from_secs_f64(ctx.remaining_s());
    let threads = ctx.threads.max(1);
    let chunk = if family == "resource" { 1 } else { (n / (threads as u64 * 6)).clamp(200, 40_000) };
    let nchunks = n.div_ceil(chunk);
    let next = AtomicU64::new(0);
    let done = AtomicU64::new(0);
    let quick = ctx.quick();
    let stall_s: u64 = std::env::var("C09_STALL_S").ok().and_then(|s| s.parse().ok()).unwrap_or(60);
    let machinery: std::sync::Mutex<Vec<String>> = std::sync::Mutex::new(vec![]);
    let mut accs: Vec<Acc> = vec![];
    std::thread::scope(|s| {
        let mut hs = vec![];
        for _ in 0..threads.min(nchunks as usize) {
            hs.push(s.spawn(|| {
                let mut acc = Acc::default();
                loop {
                    if Instant::now() >= deadline {
                        break;
                    }
                    let c = next.fetch_add(1, Ordering::Relaxed);
                    if c >= nchunks {
                        break;
                    }
                    // work list of sub-ranges of this chunk (a death splits the range around the case)
                    let mut todo = vec![(c * chunk, ((c + 1) * chunk).min(n))];
                    while let Some((lo, hi)) = todo.pop() {
                        if lo >= hi {
                            continue;
                        }
                        match run_worker(family, lo, hi, quick, stall_s) {
                            ChunkEnd::Done(v) => merge_worker(&mut acc, &v),
                            ChunkEnd::Died(p, how) => {
                                let (mode, body) = fams.program(family, p);
                                acc.eval();
                                acc.class("process death or hang");
                                acc.fail(p, case_json(family, p, mode, &body), "success or a located error", how, "abort / hang attributed through the worker's progress file");
                                todo.push((p + 1, hi));
                                todo.push((lo, p));
                            }
                            ChunkEnd::Machinery(m) => machinery.lock().unwrap().push(m),
                        }
                    }
                    done.fetch_add(1, Ordering::Relaxed);
                }
                acc
            }));
        }
        for h in hs {
            accs.push(h.join().expect("driver thread"));
        }
    });
    let mut total = Acc::default();
    for a in accs {
        total.merge(a);
    }
    // samples: three addressable programs of the family (first, middle, last index)
    for idx in [0, n / 2, n.saturating_sub(1)] {
        let (mode, body) = fams.program(family, idx);
        total.sample(idx, || case_json(family, idx, mode, &body));
    }
    for m in machinery.into_inner().unwrap() {
        ctx.machinery_error(m);
    }
    if std::env::var_os("C09_CLASSES").is_some() {
        for (k, n) in &total.classes {
            if k.starts_with("FAIL") || k.starts_with("panic") || k.starts_with("process") {
                eprintln!("CLASS {n:8} {k}{}", WITNESS.lock().unwrap().get(k).map(|w| format!("\n         shortest: {w:?}")).unwrap_or_default());
            }
        }
        for (k, (n, _, w)) in &total.known {
            eprintln!("KNOWN {n:8} {k} first: {}", w["program"]);
        }
    }
    let d = done.load(Ordering::Relaxed);
    let exhaustive = d == nchunks;
    let cap = if exhaustive { None } else { Some(format!("wall cap hit: {d} of {nchunks} chunks of the index space 0..{n} were completed")) };
    ctx.push_family(family, bounds, exhaustive, cap, t0.elapsed().as_secs_f64(), total);
}

fn main() {
    let args: Vec<String> = std::env::args().collect();
    if let Some(i) = args.iter().position(|a| a == "--worker") {
        let quick = !args.iter().any(|a| a == "thorough");
        worker(&args[i + 1], args[i + 2].parse().unwrap(), args[i + 3].parse().unwrap(), &args[i + 4], quick);
    }
    let mut ctx = Ctx::new("C09", Level::Exploration);
    ctx.assume("budgets: 3000 expansions and 100 recoverable errors per run; a run that exhausts the step budget is counted as a cut-off and not judged");
    ctx.assume("environment owned by the harness: in-memory files f.tex, g.tex, a.tex (self-including), a scripted terminal with two lines, output and logs to a sink, fixed clock; undefined control sequences are recorded by the handlers instead of ending the run");
    ctx.assume("worker processes run with a 3 GiB address-space limit: an allocation beyond it is an allocation failure (abort), which is reported against the case");
    ctx.assume("reusability after a run: after clear_sources() a second program `x\\count` runs without panic or hang; when it ends with its own end-of-input error, that error has the context chain it has on a fresh VM (state left by the first program - category codes, an open conditional - may legitimately change what the second program does: then nothing is compared)");
    let fams = Families::new(ctx.quick());

    if let Some((_f, case)) = ctx.replay_case() {
        vcore::pan::install_hook();
        let mut acc = Acc::default();
        // a replay file stores the whole program; the mode prefix is part of it
        let prog = case["program"].as_str().unwrap_or("").to_string();
        let mode = MODE_NAMES.iter().position(|m| Some(*m) == case["mode"].as_str()).unwrap_or(0);
        let body = prog.strip_prefix(MODES[mode]).unwrap_or(&prog).to_string();
        // run in a worker so that an abort is observed, not suffered
        let fam = case["family"].as_str().unwrap_or("").to_string();
        let idx = case["idx"].as_u64().unwrap_or(0);
        if fams.count(&fam) > idx && fams.program(&fam, idx) == (mode, body.clone()) {
            match run_worker(&fam, idx, idx + 1, ctx.quick(), 60) {
                ChunkEnd::Done(v) => merge_worker(&mut acc, &v),
                ChunkEnd::Died(p, how) => acc.fail(p, case.clone(), "success or a located error", how, "abort / hang"),
                ChunkEnd::Machinery(m) => {
                    eprintln!("{m}");
                    std::process::exit(2)
                }
            }
        } else {
            // program text not addressable in this tier's index space: run it in-process
            let v = run_case(mode, &body);
            acc.eval();
            if let Some(id) = v.known {
                acc.known(&id, 0, || case.clone());
            } else if let Some((e, o, n)) = v.fail {
                acc.fail(0, case.clone(), e, o, n);
            }
        }
        ctx.finish_replay(acc);
    }

    let (nf, nc) = (fams.full.len(), fams.core.len());
    run_family(&mut ctx, &fams, "short-full", &format!("every string of <= {} tokens over the full vocabulary ({nf} tokens: every installed primitive, braces, specials, numbers at every limit, non-ASCII) x 4 interaction modes", fams.short_full_len));
    run_family(&mut ctx, &fams, "short-core", &format!("every string of <= {} tokens over a {nc}-token core (registers, \\the, definitions, conditionals, \\expandafter, \\read/\\input) x 4 interaction modes", fams.short_core_len));
    run_family(&mut ctx, &fams, "seed-dev1", &format!("{} seeds (the repository's all_error_cases + 48 idioms), unchanged and with every single deletion / substitution / insertion of a token from a {}-token vocabulary at every position, x 4 interaction modes", fams.seeds.len(), fams.dev1_vocab.len()));
    run_family(&mut ctx, &fams, "nonascii-lines", &format!("every core string of <= {} tokens and every non-empty truncation of every seed (the input ends inside the construct that is open there), each wrapped in {} placements: multi-byte text (2-, 3- and 4-byte characters on one or several earlier lines, earlier on the same line, later on the same line, on later lines) and plain endings / beginnings (as is, final newline, CR LF, trailing blank lines, leading blank line, inside an unclosed group) x 4 interaction modes", fams.lines_core_len, WRAPPERS.len()));
    run_family(&mut ctx, &fams, "strict-short", &format!("every string of <= 2 tokens over the full vocabulary ({nf} tokens) x 4 interaction modes under the VM's default undefined-command handler (HStrict): an undefined control sequence or active character is the fatal UndefinedCommandError"));
    run_family(&mut ctx, &fams, "multibyte-names", &format!("{} programs (7 definitions of names with 1-, 2-, 3- and 4-byte characters, single and several characters, by \\def / \\let / \\gdef / \\chardef / \\countdef x 8 undefined commands incl. near-misses of the defined names and an undefined active character) x default handlers on the harness state / the repository's StdLibState x 4 interaction modes", fams.mbnames.len()));
    run_family(&mut ctx, &fams, "multibyte-names-dev1", &format!("the same programs with every single deletion / substitution / insertion over a {}-token vocabulary, default handlers, 4 interaction modes", fams.mini.len()));
    run_family(&mut ctx, &fams, "empty-cs", &format!("\\endlinechar=-1 on line 1, then {} scanning positions x {} endings in which the input or a line ends with the escape character (the control sequence with the empty name), and every non-empty truncation of every seed followed by the escape character; x recording / default handlers x 4 interaction modes", EMPTY_CS_CONTEXTS.len(), EMPTY_CS_ENDINGS.len()));
    run_family(&mut ctx, &fams, "stdlib-state", "every non-empty truncation of every seed x 4 interaction modes on the repository's own StdLibState with DefaultHandlers (the glue layer named in the property's file list; no harness hooks)");
    run_family(&mut ctx, &fams, "extreme-arith", &format!("{} programs x 4 interaction modes: a \\count, a \\dimen, and the width / stretch / shrink of a \\skip driven to exactly -2^31 and to 2^31-1 by \\advance wrap-around, then every arithmetic primitive with each operand of -1, 0, 1, 2, 2^31-1, -2^31 (from another register), and 29 coercion contexts (assignments with signs, fractions and units, glue components, conditionals, \\the, register indices, operands of \\advance/\\multiply/\\divide on other registers)", fams.extreme.len()));
    run_family(&mut ctx, &fams, "extreme-arith-dev1", &format!("the same {} programs with every single deletion / substitution / insertion of a token from a {}-token vocabulary at every position, scroll mode", fams.extreme.len(), fams.extreme_vocab.len()));
    run_family(&mut ctx, &fams, "resource", &format!("{} fixed programs x 4 interaction modes: an 8.6 GB \\newIntArray, runaway recursion (doubling, nested groups), 20000 nested groups / \\expandafter / \\iftrue, a 100000-character line, a 5000-digit number, a 50000-token macro body", fams.resource.len()));
    if !ctx.quick() {
        run_family(&mut ctx, &fams, "seed-dev2", &format!("the same seeds with every pair of deviations over a {}-token vocabulary, scroll mode", fams.mini.len()));
    }
    let _ = std::fs::remove_dir_all(std::env::temp_dir().join(format!("c09-{}", std::process::id())));

    ctx.require("errors_recovered_scroll", "a run in scroll mode recovered from at least one error");
    ctx.require("errors_recovered_nonstop", "a run in nonstop mode recovered from at least one error");
    ctx.require("errors_recovered_batch", "a run in batch mode recovered from at least one error");
    for (c, m) in [
        ("program_has_3_byte_char", "a 3-byte character in the program"),
        ("program_has_4_byte_char", "a 4-byte character in the program"),
        ("program_uses_outer_macro", "the predefined \\outer macro \\o occurs"),
        ("program_uses_empty_macro", "the predefined empty macro \\e occurs"),
        ("program_ends_with_newline", "the input ends with a newline"),
        ("program_has_cr_lf", "CR LF line ending"),
        ("program_starts_inside_a_group", "the whole program runs inside an unclosed group"),
        ("program_on_stdlib_state", "a run on the repository's StdLibState"),
        ("empty_named_control_sequence_reaches_a_scanner", "with \\endlinechar=-1 a line or the input ends with the escape character after a scanning primitive: the empty-named control sequence"),
        ("undefined_active_character_executed", "an undefined active character reaches the main loop under the VM's default undefined-command handler"),
        ("undefined_command_while_a_multibyte_name_is_defined", "a command with a multi-byte name is defined and then an undefined command is executed under the default handler"),
        ("program_uses_active_macro_or_alias", "an active character that is a macro, an alias of a primitive or an \\outer macro"),
        ("program_reads_empty_or_blank_file", "\\input of an empty / blank-only file"),
    ] {
        ctx.require(c, m);
    }
    ctx.require("errors_on_non_ascii_lines", "an error was raised on a line that contains a non-ASCII character");
    ctx.finish("every token string within the stated length over the stated vocabulary, and every single deviation of every seed, each in the stated interaction modes (non-trivial = the program contains a control sequence); outcome classes are error titles with numbers generalised");
}
