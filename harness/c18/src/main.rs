//! C18 — the Box language round-trips every expressible list; its parser is total.
//! Engine: BEX. DESIGN.md §3 C18.
//!
//! Lists:   print (element by element through `Display`, and as a whole list through `ToBoxLang` +
//!          `cst::pretty_print`) -> `parse_horizontal_list` (vertical: `cst::parse` + `parse_vbox_using_cst`)
//!          must give the list back; `format` of the printed text is idempotent and keeps the meaning.
//! Sources: every string over lexeme alphabets: `Ok` or located errors, never a panic; when it parses,
//!          `format` is idempotent and keeps the meaning, and the parsed list round-trips.

use boxworks::ds::{self, DiscretionaryElem as D, Horizontal as H, Vertical as V};
use boxworks::lang::convert::{ToBoxLang, ToBoxworks};
use boxworks::lang::{self, ast, cst};
use common::{Glue, GlueOrder, Scaled};
use reftex::boxl;
use serde_json::{json, Value};
use vcore::{catch, Acc, Ctx, Level};

const ORDERS: [GlueOrder; 4] = [GlueOrder::Normal, GlueOrder::Fil, GlueOrder::Fill, GlueOrder::Filll];
const MAXD: i32 = (1 << 30) - 1;

// ------------------------------------------------------------------------------------------------
// menus
// ------------------------------------------------------------------------------------------------

fn ch(c: char, font: u32) -> H {
    H::Char(ds::Char { char: c, font })
}
fn kern(w: i32) -> H {
    H::Kern(ds::Kern { width: Scaled(w), kind: ds::KernKind::Normal })
}
fn glue(w: i32, st: i32, so: GlueOrder, sh: i32, sho: GlueOrder) -> H {
    H::Glue(ds::Glue { kind: ds::GlueKind::Normal, value: Glue { width: Scaled(w), stretch: Scaled(st), stretch_order: so, shrink: Scaled(sh), shrink_order: sho } })
}
fn rule(h: i32, w: i32, d: i32) -> H {
    H::Rule(ds::Rule { height: Scaled(h), width: Scaled(w), depth: Scaled(d) })
}
fn lig(c: char, orig: &str, font: u32, l: bool, r: bool) -> H {
    H::Ligature(ds::Ligature { char: c, font, original_chars: orig.into(), includes_left_boundary: l, includes_right_boundary: r })
}
fn hbox(dims: [i32; 4], ratio: (i32, i32), order: GlueOrder, list: Vec<H>) -> ds::HBox {
    ds::HBox { height: Scaled(dims[0]), width: Scaled(dims[1]), depth: Scaled(dims[2]), shift_amount: Scaled(dims[3]), list, glue_ratio: ds::GlueRatio { num: Scaled(ratio.0), den: Scaled(ratio.1) }, glue_order: order }
}
fn vbox(dims: [i32; 4], list: Vec<V>) -> ds::VBox {
    ds::VBox { height: Scaled(dims[0]), width: Scaled(dims[1]), depth: Scaled(dims[2]), shift_amount: Scaled(dims[3]), list, ..Default::default() }
}
fn insertion(n: u8, dims: [i32; 2], skip: Glue, fp: u32, list: Vec<V>) -> H {
    H::Insertion(ds::Insertion { box_number: n, height: Scaled(dims[0]), split_max_depth: Scaled(dims[1]), split_top_skip: skip, float_penalty: fp, vbox: list })
}
fn h_to_v(h: &H) -> Option<V> {
    Some(match h {
        H::HBox(b) => V::HBox(b.clone()),
        H::VBox(b) => V::VBox(b.clone()),
        H::Rule(b) => V::Rule(b.clone()),
        H::Mark(b) => V::Mark(b.clone()),
        H::Insertion(b) => V::Insertion(b.clone()),
        H::Math(b) => V::Math(b.clone()),
        H::Glue(b) => V::Glue(b.clone()),
        H::Kern(b) => V::Kern(b.clone()),
        H::Penalty(b) => V::Penalty(b.clone()),
        _ => return None,
    })
}
fn h_to_d(h: &H) -> Option<D> {
    Some(match h {
        H::Char(b) => D::Char(b.clone()),
        H::HBox(b) => D::HBox(b.clone()),
        H::VBox(b) => D::VBox(b.clone()),
        H::Rule(b) => D::Rule(b.clone()),
        H::Ligature(b) => D::Ligature(b.clone()),
        H::Kern(b) => D::Kern(b.clone()),
        _ => return None,
    })
}
fn some_v_list() -> Vec<V> {
    vec![V::Penalty(ds::Penalty(7)), V::Glue(ds::Glue { kind: ds::GlueKind::Normal, value: Glue { width: Scaled(3), stretch: Scaled(65536), stretch_order: GlueOrder::Fill, ..Default::default() } }), V::Kern(ds::Kern { width: Scaled(-9), kind: ds::KernKind::Normal })]
}

/// Every node kind at its value boundaries (the property's domain: no double quote, normal kerns and
/// glue, legal dimensions).
fn full_menu() -> Vec<H> {
    let mut m: Vec<H> = vec![];
    for c in boxl::CHARS {
        for f in boxl::FONTS {
            m.push(ch(c, f));
        }
    }
    for w in boxl::SCALED {
        m.push(kern(w));
    }
    for p in boxl::PENALTIES {
        m.push(H::Penalty(ds::Penalty(p)));
    }
    for w in boxl::SCALED {
        for so in ORDERS {
            for sho in ORDERS {
                m.push(glue(w, w / 3, so, -(w / 7), sho));
            }
        }
    }
    for o in ORDERS {
        m.push(glue(0, MAXD, o, -MAXD, o));
        m.push(glue(-MAXD, -1, o, 1, GlueOrder::Normal));
    }
    let rd = [i32::MIN, 0, 65537];
    for h in rd {
        for w in rd {
            for d in rd {
                m.push(rule(h, w, d));
            }
        }
    }
    for w in boxl::SCALED {
        m.push(rule(w, 65536, -w));
    }
    for c in ['x', '\\', '\u{10ffff}'] {
        for orig in ["", "fi", "f|", "é-", "日𝄞", "\u{100000}", "\\n", " \t"] {
            for (l, r) in [(false, false), (true, false), (false, true), (true, true)] {
                for f in [0, u32::MAX] {
                    m.push(lig(c, orig, f, l, r));
                }
            }
        }
    }
    m.push(H::Discretionary(ds::Discretionary::new()));
    m.push(H::Discretionary(ds::Discretionary { pre_break: vec![D::Char(ds::Char { char: '-', font: 0 }), D::Kern(ds::Kern { width: Scaled(5), kind: ds::KernKind::Normal })], post_break: vec![h_to_d(&lig('f', "ff", 0, false, false)).unwrap()], replace_count: 3 }));
    for rc in [1, 255, 256, i32::MAX as u32, 1 << 31, u32::MAX] {
        m.push(H::Discretionary(ds::Discretionary { pre_break: vec![], post_break: vec![], replace_count: rc }));
    }
    for e in [ch('a', 0), ch('b', u32::MAX), H::HBox(hbox([1, 2, 3, 4], (1, 2), GlueOrder::Fil, vec![ch('q', 0)])), H::VBox(vbox([1, 2, 3, 4], some_v_list())), rule(i32::MIN, 1, i32::MIN), lig('x', "ab", 1, true, false), kern(-1)] {
        let d = h_to_d(&e).unwrap();
        m.push(H::Discretionary(ds::Discretionary { pre_break: vec![d.clone()], post_break: vec![], replace_count: 0 }));
        m.push(H::Discretionary(ds::Discretionary { pre_break: vec![], post_break: vec![d.clone(), d], replace_count: 2 }));
    }
    for r in boxl::RATIOS {
        for o in ORDERS {
            m.push(H::HBox(hbox([1, -2, 3, -4], r, o, vec![ch('q', 0)])));
            m.push(H::HBox(hbox([0, 0, 0, 0], r, o, vec![])));
        }
    }
    for w in boxl::SCALED {
        for k in 0..4 {
            let mut dims = [65536, 2 * 65536, 0, 0];
            dims[k] = w;
            m.push(H::HBox(hbox(dims, (0, 1), GlueOrder::Normal, vec![kern(1)])));
            m.push(H::VBox(vbox(dims, vec![])));
        }
    }
    m.push(H::HBox(hbox([1, 2, 3, 4], (1, 3), GlueOrder::Fill, vec![ch('a', 0), ch('b', 0), ch('c', 1), kern(2), ch('d', 1)])));
    m.push(H::VBox(vbox([1, 2, 3, 4], some_v_list())));
    m.push(H::VBox(vbox([0, 0, 0, 0], vec![V::HBox(hbox([1, 1, 1, 1], (1, 1), GlueOrder::Normal, vec![ch('z', 2)])), V::Rule(ds::Rule { height: Scaled(i32::MIN), width: Scaled(i32::MIN), depth: Scaled(26214) }), V::Mark(ds::Mark { list: vec![] }), V::Math(ds::Math::After)])));
    m.push(H::Math(ds::Math::Before));
    m.push(H::Math(ds::Math::After));
    m.push(H::Mark(ds::Mark { list: vec![] }));
    m.push(H::Adjust(ds::Adjust { list: vec![] }));
    m.push(H::Adjust(ds::Adjust { list: vec![V::Penalty(ds::Penalty(1))] }));
    m.push(H::Adjust(ds::Adjust { list: vec![V::VBox(vbox([1, 0, 0, 0], some_v_list())), V::Kern(ds::Kern { width: Scaled(1), kind: ds::KernKind::Normal })] }));
    for n in [0u8, 1, 255] {
        for fp in [0u32, 10000, i32::MAX as u32, 1 << 31, u32::MAX] {
            m.push(insertion(n, [1, 2], Glue { width: Scaled(3), ..Default::default() }, fp, vec![]));
        }
    }
    for w in boxl::SCALED_SHORT {
        for o in ORDERS {
            m.push(insertion(7, [w, -w], Glue { width: Scaled(w), stretch: Scaled(w / 2), stretch_order: o, shrink: Scaled(-w), shrink_order: o }, 4, some_v_list()));
        }
    }
    m
}

/// A short menu with one or two representatives of every node kind, for longer lists and nesting.
fn reduced_menu() -> Vec<H> {
    let mut m = vec![ch('a', 0), ch('b', 0), ch('\\', 0), ch('é', 1), ch('日', 1), ch('𝄞', 2), ch('\n', u32::MAX), ch('\u{10ffff}', 1), kern(0), kern(-1), kern(MAXD), H::Penalty(ds::Penalty(0)), H::Penalty(ds::Penalty(i32::MAX)), H::Penalty(ds::Penalty(-10000))];
    m.push(glue(0, 0, GlueOrder::Normal, 0, GlueOrder::Normal));
    m.push(glue(65536, 21845, GlueOrder::Fil, -9362, GlueOrder::Filll));
    m.push(glue(-MAXD, MAXD, GlueOrder::Normal, 1, GlueOrder::Fill));
    m.push(rule(i32::MIN, 26214, i32::MIN));
    m.push(rule(1, -1, 0));
    m.push(lig('x', "fi", 0, false, false));
    m.push(lig('\\', "é-", u32::MAX, true, true));
    m.push(lig('𝄞', "日\u{fffff}", 1 << 31, false, true));
    m.push(H::Discretionary(ds::Discretionary::new()));
    m.push(H::Discretionary(ds::Discretionary { pre_break: vec![D::Char(ds::Char { char: '-', font: 0 }), D::Kern(ds::Kern { width: Scaled(5), kind: ds::KernKind::Normal })], post_break: vec![h_to_d(&lig('f', "ff", 0, false, true)).unwrap()], replace_count: 3 }));
    m.push(H::HBox(hbox([0, 0, 0, 0], (0, 1), GlueOrder::Normal, vec![])));
    m.push(H::HBox(hbox([1, -2, 3, -4], (1, 3), GlueOrder::Fil, vec![ch('q', 0), ch('r', 0), kern(7)])));
    m.push(H::HBox(hbox([1, 1, 1, 1], (-5, 7), GlueOrder::Filll, vec![glue(1, 2, GlueOrder::Fill, 3, GlueOrder::Normal)])));
    m.push(H::VBox(vbox([0, 0, 0, 0], vec![])));
    m.push(H::VBox(vbox([MAXD, -1, 32768, 1], some_v_list())));
    m.push(H::Math(ds::Math::Before));
    m.push(H::Math(ds::Math::After));
    m.push(H::Mark(ds::Mark { list: vec![] }));
    m.push(H::Adjust(ds::Adjust { list: vec![] }));
    m.push(H::Adjust(ds::Adjust { list: vec![V::Penalty(ds::Penalty(1)), V::Rule(ds::Rule { height: Scaled(1), width: Scaled(i32::MIN), depth: Scaled(2) })] }));
    m.push(insertion(255, [1, 2], Glue { width: Scaled(3), ..Default::default() }, u32::MAX, vec![]));
    m.push(insertion(0, [-1, 32768], Glue { width: Scaled(3), stretch: Scaled(4), stretch_order: GlueOrder::Fil, shrink: Scaled(5), shrink_order: GlueOrder::Fill }, 4, some_v_list()));
    m
}

/// Nodes whose scaled contents are not legal TeX dimensions (|x| >= 2^30): outside the round-trip
/// domain, but the text they print is a text, so the parser must still not panic on it.
fn beyond_menu() -> Vec<H> {
    let mut m = vec![];
    for w in boxl::SCALED_BEYOND {
        m.push(kern(w));
        for o in ORDERS {
            m.push(glue(w, w, o, w, o));
            m.push(glue(0, w, o, 0, GlueOrder::Normal));
        }
        m.push(H::HBox(hbox([w, 0, 0, 0], (0, 1), GlueOrder::Normal, vec![])));
        m.push(H::VBox(vbox([0, 0, 0, w], vec![])));
        if w != i32::MIN {
            m.push(rule(w, w, w));
        }
        m.push(insertion(0, [w, w], Glue { width: Scaled(w), ..Default::default() }, 0, vec![]));
        m.push(H::Discretionary(ds::Discretionary { pre_break: vec![D::Kern(ds::Kern { width: Scaled(w), kind: ds::KernKind::Normal })], post_break: vec![], replace_count: 0 }));
    }
    m
}

// ------------------------------------------------------------------------------------------------
// D20 predicate (on the case)
// ------------------------------------------------------------------------------------------------

fn d20_boxes_h(l: &[H]) -> usize {
    l.iter()
        .map(|h| match h {
            H::HBox(b) => d20_hbox(b),
            H::VBox(b) => d20_boxes_v(&b.list),
            H::Adjust(a) => d20_boxes_v(&a.list),
            H::Insertion(i) => d20_boxes_v(&i.vbox),
            H::Discretionary(d) => d20_boxes_d(&d.pre_break) + d20_boxes_d(&d.post_break),
            _ => 0,
        })
        .sum()
}
fn d20_hbox(b: &ds::HBox) -> usize {
    boxl::d20_applies(b.glue_ratio.num.0, b.glue_ratio.den.0) as usize + d20_boxes_h(&b.list)
}
fn d20_boxes_v(l: &[V]) -> usize {
    l.iter()
        .map(|v| match v {
            V::HBox(b) => d20_hbox(b),
            V::VBox(b) => d20_boxes_v(&b.list),
            V::Insertion(i) => d20_boxes_v(&i.vbox),
            _ => 0,
        })
        .sum()
}
fn d20_boxes_d(l: &[D]) -> usize {
    l.iter()
        .map(|d| match d {
            D::HBox(b) => d20_hbox(b),
            D::VBox(b) => d20_boxes_v(&b.list),
            _ => 0,
        })
        .sum()
}

// ------------------------------------------------------------------------------------------------
// the subject, wrapped
// ------------------------------------------------------------------------------------------------

/// What a parse error looks like from outside: variant name, parameter name (IncorrectType), label
/// spans, and whether message/notes could be produced.
#[derive(Debug, Clone, PartialEq)]
struct ErrInfo {
    variant: String,
    parameter: String,
    spans: Vec<(usize, usize)>,
    /// message() and notes() could be produced (recorded, not judged: the statement asks for located errors)
    renders: bool,
}
fn err_info(e: &lang::Error) -> ErrInfo {
    let renders = std::panic::catch_unwind(std::panic::AssertUnwindSafe(|| {
        let _ = e.message();
        let _ = e.notes();
    }))
    .is_ok();
    let dbg = format!("{e:?}");
    let variant = dbg.split(|c: char| !c.is_alphanumeric()).next().unwrap_or("").to_string();
    let parameter = match e {
        lang::Error::IncorrectType { parameter_name, .. } => parameter_name.to_string(),
        _ => String::new(),
    };
    ErrInfo { variant, parameter, spans: e.labels().into_iter().map(|l| (l.span.start, l.span.end)).collect(), renders }
}
type Parsed<T> = Result<Vec<T>, Vec<ErrInfo>>;
fn parse_h(s: &str) -> Parsed<H> {
    lang::parse_horizontal_list(s).map_err(|es| es.iter().map(err_info).collect())
}
fn parse_v(s: &str) -> Parsed<V> {
    let errs: lang::ErrorAccumulator = Default::default();
    let calls = cst::parse(s, errs.clone());
    let v = ast::parse_vbox_using_cst(calls, &errs);
    match errs.check() {
        Ok(()) => Ok(v.to_boxworks()),
        Err(es) => Err(es.iter().map(err_info).collect()),
    }
}
fn format(s: &str) -> Result<String, Vec<ErrInfo>> {
    lang::format(s).map_err(|es| es.iter().map(err_info).collect())
}
fn print_h_elements(l: &[H]) -> String {
    l.iter().map(|h| h.to_string()).collect()
}
fn print_h_list(l: &Vec<H>) -> String {
    let v = l.to_box_lang();
    let mut s = String::new();
    cst::pretty_print(&mut s, ast::lower_hbox(&v)).expect("writing to a string");
    s
}
fn print_v_list(l: &Vec<V>) -> String {
    let v = l.to_box_lang();
    let mut s = String::new();
    cst::pretty_print(&mut s, ast::lower_vbox(&v)).expect("writing to a string");
    s
}

// ------------------------------------------------------------------------------------------------
// list checks
// ------------------------------------------------------------------------------------------------

/// Failure classes of the whole run (count, smallest index, its note), printed with VERIF_FAIL_CLASSES=1.
static FAIL_CLASSES: std::sync::Mutex<std::collections::BTreeMap<String, (u64, u64, String)>> = std::sync::Mutex::new(std::collections::BTreeMap::new());

/// Record a failure and its class (the note up to the first ':' or ';', plus the panic site if any).
fn fail(acc: &mut Acc, idx: u64, case: Value, expected: impl Into<String>, observed: impl Into<String>, note: impl Into<String>) {
    let (observed, note) = (observed.into(), note.into());
    let head = note.split([':', ';']).next().unwrap_or("").trim().to_string();
    let site = observed.strip_prefix("panic at ").and_then(|r| r.split(": ").next()).map(|s| format!(" [{s}]")).unwrap_or_default();
    let class = format!("FAIL {head}{site}");
    acc.class(&class);
    if let Ok(mut g) = FAIL_CLASSES.lock() {
        let e = g.entry(class).or_insert((0, u64::MAX, String::new()));
        e.0 += 1;
        if idx < e.1 || e.2.is_empty() {
            e.1 = idx;
            e.2 = format!("{} => {}", vcore::clip(&note, 260), vcore::clip(&observed, 200));
        }
    }
    acc.fail(idx, case, expected, observed, note);
}

#[derive(Clone, Copy, PartialEq)]
enum Judge {
    /// the property's domain: round trip, format idempotence, meaning preservation
    Full,
    /// outside the round-trip domain: only "the printed text does not panic the parser"
    TotalityOnly,
}

/// The round trip of one printed text. `want_eq(parsed)` compares with the original list.
#[allow(clippy::too_many_arguments)]
fn check_text<T: PartialEq + std::fmt::Debug>(idx: u64, how: &str, text: &str, d20: usize, judge: Judge, parse: &dyn Fn(&str) -> Parsed<T>, list: &[T], acc: &mut Acc, case: &dyn Fn() -> Value) -> bool {
    let parsed = match catch(|| parse(text)) {
        Ok(p) => p,
        Err(p) => {
            fail(acc, idx, case(), "the list, or located errors", p.describe(), format!("parsing the text printed {how} panicked: {}", vcore::clip(&text.replace('\n', " "), 200)));
            return false;
        }
    };
    if judge == Judge::TotalityOnly {
        acc.class(match &parsed {
            Ok(l) if l.as_slice() == list => "outside the domain: round-trips",
            Ok(_) => "outside the domain: parses to a different list",
            Err(_) => "outside the domain: printed text is rejected with errors",
        });
        return true;
    }
    match parsed {
        Err(errs) => {
            // D20: predicate on the case + adjusted expectation (one IncorrectType error for glue_ratio per offending box)
            if d20 > 0 && errs.len() == d20 && errs.iter().all(|e| e.variant == "IncorrectType" && e.parameter == "glue_ratio") {
                if !acc.known.contains_key("D20") || how.starts_with("element") || how == "as a vertical list" {
                    // one hit per list: the second printer of the same list is not counted again
                    acc.known("D20", idx, || json!({"case": case(), "printed": text, "errors": format!("{errs:?}")}));
                    acc.class("D20: glue ratio >= 16384 prints but does not parse");
                }
                return false;
            }
            fail(acc, idx, case(), format!("{list:?}"), format!("errors {errs:?}"), format!("the text printed {how} does not parse: {}", vcore::clip(&text.replace('\n', " "), 300)));
            false
        }
        Ok(back) => {
            if back.as_slice() != list {
                fail(acc, idx, case(), format!("{list:?}"), format!("{back:?}"), format!("round trip ({how}) gives a different list; text: {}", vcore::clip(&text.replace('\n', " "), 300)));
                return false;
            }
            // format: idempotent, meaning preserved
            let r = catch(|| {
                let f1 = format(text)?;
                let f2 = format(&f1);
                let p = parse(&f1);
                Ok::<_, Vec<ErrInfo>>((f1, f2, p))
            });
            match r {
                Err(p) => {
                    fail(acc, idx, case(), "formatted text", p.describe(), format!("format panicked on the text printed {how}"));
                    false
                }
                Ok(Err(errs)) => {
                    fail(acc, idx, case(), "formatted text", format!("errors {errs:?}"), format!("format rejects a text that parses ({how}): {}", vcore::clip(&text.replace('\n', " "), 300)));
                    false
                }
                Ok(Ok((f1, f2, p))) => {
                    if f2.as_ref() != Ok(&f1) {
                        fail(acc, idx, case(), f1.clone(), format!("{f2:?}"), format!("format is not idempotent ({how})"));
                        return false;
                    }
                    if p.as_ref().map(|l| l.as_slice() == list) != Ok(true) {
                        fail(acc, idx, case(), format!("{list:?}"), format!("{p:?}"), format!("format changes what the text parses to ({how}); formatted: {}", vcore::clip(&f1.replace('\n', " "), 300)));
                        return false;
                    }
                    if f1 != text {
                        acc.count("format_rewrites_printed_text");
                    }
                    true
                }
            }
        }
    }
}

fn kinds_h(l: &[H]) -> String {
    l.iter()
        .map(|h| match h {
            H::Char(_) => "char",
            H::HBox(_) => "hbox",
            H::VBox(_) => "vbox",
            H::Rule(_) => "rule",
            H::Mark(_) => "mark",
            H::Insertion(_) => "insertion",
            H::Adjust(_) => "adjust",
            H::Ligature(_) => "lig",
            H::Discretionary(_) => "disc",
            H::Whatsit(_) => "whatsit",
            H::Math(_) => "math",
            H::Glue(_) => "glue",
            H::Kern(_) => "kern",
            H::Penalty(_) => "penalty",
        })
        .collect::<Vec<_>>()
        .join("+")
}

fn check_hlist(idx: u64, list: &Vec<H>, judge: Judge, acc: &mut Acc, sel: &dyn Fn() -> Value) {
    acc.eval();
    let d20 = d20_boxes_h(list);
    let case = || json!({"kind": "hlist", "sel": sel(), "list": vcore::clip(&format!("{list:?}"), 1500)});
    if list.len() >= 2 || list.iter().any(|h| matches!(h, H::HBox(_) | H::VBox(_) | H::Discretionary(_) | H::Adjust(_) | H::Insertion(_))) {
        acc.nontrivial();
    }
    if list.windows(2).any(|w| matches!((&w[0], &w[1]), (H::Char(a), H::Char(b)) if a.font == b.font)) {
        acc.count("adjacent_chars_same_font_merge");
    }
    if list.windows(2).any(|w| matches!((&w[0], &w[1]), (H::Char(a), H::Char(b)) if a.font != b.font)) {
        acc.count("adjacent_chars_different_font");
    }
    if d20 > 0 {
        acc.count("glue_ratio_ge_16384");
    }
    // two printers
    let mut all_ok = true;
    for (how, printer) in [("element by element (Display)", &(|| print_h_elements(list)) as &dyn Fn() -> String), ("as a list (ToBoxLang + pretty_print)", &|| print_h_list(list))] {
        let text = match catch(printer) {
            Ok(t) => t,
            Err(p) => {
                if judge == Judge::Full {
                    fail(acc, idx, case(), "text", p.describe(), format!("printing {how} panicked"));
                } else {
                    acc.class("outside the domain: printing panics");
                }
                all_ok = false;
                continue;
            }
        };
        if text.contains('\\') {
            acc.count("text_has_escape");
        }
        all_ok &= check_text(idx, how, &text, d20, judge, &parse_h, list, acc, &case);
    }
    if all_ok && judge == Judge::Full {
        if list.len() <= 2 {
            acc.class(&format!("ok {}", vcore::clip(&kinds_h(list), 40)));
        } else {
            acc.class(&format!("ok {} nodes", list.len()));
        }
    }
}

fn check_vlist(idx: u64, list: &Vec<V>, acc: &mut Acc, sel: &dyn Fn() -> Value) {
    acc.eval();
    let d20 = d20_boxes_v(list);
    let case = || json!({"kind": "vlist", "sel": sel(), "list": vcore::clip(&format!("{list:?}"), 1500)});
    if list.len() >= 2 {
        acc.nontrivial();
    }
    if d20 > 0 {
        acc.count("glue_ratio_ge_16384");
    }
    let mut all_ok = true;
    for (how, printer) in [("as a vertical list", &(|| print_v_list(list)) as &dyn Fn() -> String), ("vertical, element by element (ast::Vertical Display)", &|| list.iter().map(|v| v.to_box_lang().to_string()).collect())] {
        let text = match catch(printer) {
            Ok(t) => t,
            Err(p) => {
                fail(acc, idx, case(), "text", p.describe(), format!("printing {how} panicked"));
                return;
            }
        };
        all_ok &= check_text(idx, how, &text, d20, Judge::Full, &parse_v, list, acc, &case);
    }
    // the Display of ds::VBox is a route of its own (ast::VBox Display): its text is a horizontal-mode `vbox(..)` call
    for v in list {
        if let V::VBox(b) = v {
            acc.count("vbox_display_route");
            let hl = vec![H::VBox(b.clone())];
            match catch(|| b.to_string()) {
                Ok(text) => all_ok &= check_text(idx, "with the Display of ds::VBox", &text, d20_boxes_h(&hl), Judge::Full, &parse_h, &hl, acc, &case),
                Err(p) => {
                    fail(acc, idx, case(), "text", p.describe(), "the Display of ds::VBox panicked");
                    all_ok = false;
                }
            }
        }
    }
    if all_ok {
        acc.class("ok vertical list");
    }
}

// ------------------------------------------------------------------------------------------------
// source checks
// ------------------------------------------------------------------------------------------------

fn check_errors(idx: u64, s: &str, what: &str, errs: &[ErrInfo], acc: &mut Acc, case: &dyn Fn() -> Value) -> bool {
    if errs.is_empty() {
        fail(acc, idx, case(), "at least one error", "Err(vec![])", format!("{what}: Err without any error"));
        return false;
    }
    for e in errs {
        if e.spans.is_empty() {
            fail(acc, idx, case(), "an error with a span", format!("{e:?}"), format!("{what}: error without a location"));
            return false;
        }
        for (a, b) in &e.spans {
            if !boxl::span_ok(s, *a, *b) {
                fail(acc, idx, case(), format!("a span inside 0..{} on character boundaries", s.len()), format!("{e:?}"), format!("{what}: error span is not inside the source"));
                return false;
            }
        }
    }
    true
}

fn check_source(idx: u64, s: &str, acc: &mut Acc) {
    acc.eval();
    let case = || json!({"kind": "source", "text": s});
    // horizontal parse
    let ph = match catch(|| parse_h(s)) {
        Ok(p) => p,
        Err(p) => {
            fail(acc, idx, case(), "a list or located errors", p.describe(), format!("parse_horizontal_list panicked: {}", vcore::clip(s, 120)));
            return;
        }
    };
    // vertical parse and format: totality
    let pv = match catch(|| parse_v(s)) {
        Ok(p) => p,
        Err(p) => {
            fail(acc, idx, case(), "a list or located errors", p.describe(), format!("the vertical-list parser panicked: {}", vcore::clip(s, 120)));
            return;
        }
    };
    let fm = match catch(|| format(s)) {
        Ok(f) => f,
        Err(p) => {
            fail(acc, idx, case(), "text or located errors", p.describe(), format!("format panicked: {}", vcore::clip(s, 120)));
            return;
        }
    };
    if let Err(e) = &pv {
        if !check_errors(idx, s, "vertical parse", e, acc, &case) {
            return;
        }
    }
    // the statement locates the errors of *parsing*; what format reports for a text it rejects is recorded only
    // (the same lexer/CST errors are judged through the two parsers above)
    if let Err(e) = &fm {
        if e.is_empty() || e.iter().any(|e| e.spans.is_empty() || e.spans.iter().any(|(a, b)| !boxl::span_ok(s, *a, *b))) {
            acc.class("format rejects the text with errors that are not located inside it");
        }
    }
    for e in ph.as_ref().err().into_iter().flatten().chain(pv.as_ref().err().into_iter().flatten()).chain(fm.as_ref().err().into_iter().flatten()) {
        if !e.renders {
            acc.class(&format!("message()/notes() of error {} panics", e.variant));
        }
    }
    // format is idempotent whenever it succeeds
    if let Ok(f1) = &fm {
        match catch(|| format(f1)) {
            Err(p) => {
                fail(acc, idx, case(), f1.clone(), p.describe(), "format panicked on its own output");
                return;
            }
            Ok(f2) => {
                if f2.as_ref() != Ok(f1) {
                    fail(acc, idx, case(), f1.clone(), format!("{f2:?}"), "format is not idempotent");
                    return;
                }
            }
        }
    }
    match ph {
        Err(errs) => {
            if !check_errors(idx, s, "horizontal parse", &errs, acc, &case) {
                return;
            }
            let mut vs: Vec<&str> = errs.iter().map(|e| e.variant.as_str()).collect();
            vs.sort();
            vs.dedup();
            acc.class(&format!("err {}", vcore::clip(&vs.join(","), 80)));
            if fm.is_ok() {
                acc.count("format_accepts_what_parse_rejects");
            }
        }
        Ok(list) => {
            if !list.is_empty() {
                acc.nontrivial();
            }
            let Ok(f1) = fm else {
                fail(acc, idx, case(), "formatted text", format!("{fm:?}"), "format rejects a text that parses");
                return;
            };
            match catch(|| parse_h(&f1)) {
                Err(p) => {
                    fail(acc, idx, case(), format!("{list:?}"), p.describe(), format!("parsing the formatted text panicked: {}", vcore::clip(&f1, 200)));
                    return;
                }
                Ok(p) => {
                    if p.as_ref() != Ok(&list) {
                        fail(acc, idx, case(), format!("{list:?}"), format!("{p:?}"), format!("format changes what the text parses to; formatted: {}", vcore::clip(&f1.replace('\n', " "), 300)));
                        return;
                    }
                }
            }
            if f1 != s {
                acc.count("format_changes_source");
            }
            // and the parsed list is a list like any other
            let before = acc.fail_count;
            let mut sub = Acc::default();
            check_hlist(idx, &list, Judge::Full, &mut sub, &|| json!({"from_source": s}));
            if sub.fail_count > 0 || !sub.known.is_empty() {
                for f in sub.fails {
                    fail(acc, idx, case(), f.expected, f.observed, format!("list parsed from the source does not round-trip: {}", f.note));
                }
                for (k, (_, _, w)) in sub.known {
                    acc.known(&k, idx, || w);
                }
            }
            if acc.fail_count == before {
                acc.class(&format!("ok {} node(s)", list.len().min(9)));
            }
        }
    }
}

// ------------------------------------------------------------------------------------------------
// families: index -> case
// ------------------------------------------------------------------------------------------------

struct Menus {
    /// every fifth node of the full menu plus the reduced menu: the alphabet of the triples (thorough tier)
    medium: Vec<H>,
    full: Vec<H>,
    reduced: Vec<H>,
    beyond: Vec<H>,
    vfull: Vec<V>,
    vreduced: Vec<V>,
    #[allow(dead_code)]
    dreduced: Vec<D>,
    numbers: Vec<String>,
}

/// inner lists of length 0..=maxlen over a menu of n items: count and the idx-th one (as indices)
fn lists_upto(n: u64, maxlen: u32) -> u64 {
    vcore::strings_upto(n, maxlen)
}

#[derive(Clone, Copy)]
enum Outer {
    HBox,
    VBox,
    Adjust,
    DiscPre,
    DiscPost,
    Insertion,
}
const OUTERS: [Outer; 6] = [Outer::HBox, Outer::VBox, Outer::Adjust, Outer::DiscPre, Outer::DiscPost, Outer::Insertion];

fn wrap(outer: Outer, hl: &[H]) -> Option<H> {
    // put a list into a container; items that the container's list type cannot hold make the case void
    let vl = || hl.iter().map(h_to_v).collect::<Option<Vec<V>>>();
    let dl = || hl.iter().map(h_to_d).collect::<Option<Vec<D>>>();
    Some(match outer {
        Outer::HBox => H::HBox(hbox([1, 2, 3, -4], (1, 3), GlueOrder::Fil, hl.to_vec())),
        Outer::VBox => H::VBox(vbox([1, 2, 3, -4], vl()?)),
        Outer::Adjust => H::Adjust(ds::Adjust { list: vl()? }),
        Outer::DiscPre => H::Discretionary(ds::Discretionary { pre_break: dl()?, post_break: vec![], replace_count: 1 }),
        Outer::DiscPost => H::Discretionary(ds::Discretionary { pre_break: vec![D::Char(ds::Char { char: '-', font: 0 })], post_break: dl()?, replace_count: 0 }),
        Outer::Insertion => insertion(3, [1, 2], Glue { width: Scaled(3), ..Default::default() }, 4, vl()?),
    })
}

fn nested1(m: &Menus, maxlen: u32, idx: u64) -> Option<Vec<H>> {
    let n = m.reduced.len() as u64;
    let per = lists_upto(n, maxlen);
    let outer = OUTERS[(idx / per) as usize];
    let inner: Vec<H> = vcore::nth_string(n, idx % per).into_iter().map(|i| m.reduced[i as usize].clone()).collect();
    Some(vec![wrap(outer, &inner)?])
}
fn nested1_count(m: &Menus, maxlen: u32) -> u64 {
    OUTERS.len() as u64 * lists_upto(m.reduced.len() as u64, maxlen)
}

/// depth 2: outer[ sibling? middle[inner list] sibling? ]
fn nested2(m: &Menus, maxlen: u32, idx: u64) -> Option<Vec<H>> {
    let n = m.reduced.len() as u64;
    let per = lists_upto(n, maxlen);
    let d = vcore::digits(idx, &[OUTERS.len() as u64, 2, 3, per]);
    let inner: Vec<H> = vcore::nth_string(n, d[3]).into_iter().map(|i| m.reduced[i as usize].clone()).collect();
    let middle = wrap(if d[1] == 0 { Outer::HBox } else { Outer::VBox }, &inner)?;
    let sib = kern(65536);
    let mid_list = match d[2] {
        0 => vec![middle],
        1 => vec![sib, middle],
        _ => vec![middle, sib],
    };
    Some(vec![wrap(OUTERS[d[0] as usize], &mid_list)?])
}
fn nested2_count(m: &Menus, maxlen: u32) -> u64 {
    OUTERS.len() as u64 * 2 * 3 * lists_upto(m.reduced.len() as u64, maxlen)
}

fn arg_matrix_sources() -> Vec<String> {
    let mut out = vec![];
    for (f, params) in boxl::FUNCTIONS {
        for v in boxl::ARG_VALUES {
            out.push(format!("{f}({v})"));
            for p in params {
                out.push(format!("{f}({p}={v})"));
            }
            for w in boxl::ARG_VALUES {
                out.push(format!("{f}({v}, {w})"));
            }
        }
        for p in params {
            out.push(format!("{f}({p}=1, {p}=1)"));
            out.push(format!("{f}({p}=1, 1)"));
        }
        out.push(format!("{f}(nosuch=1)"));
        out.push(format!("{f}"));
        out.push(format!("{f}({})", vec!["1"; 10].join(", ")));
        for k in 3..=6 {
            out.push(format!("{f}({})", vec!["1pt"; k].join(", ")));
            out.push(format!("{f}({})", (0..k).map(|j| format!("k{j}=1pt")).collect::<Vec<_>>().join(", ")));
        }
    }
    out
}

fn number_sources(numbers: &[String]) -> Vec<String> {
    let mut out = vec![];
    for n in numbers {
        out.push(format!("penalty({n})"));
        out.push(format!("kern({n})"));
        out.push(format!("glue(1pt, {n}, {n})"));
        out.push(format!("chars(\"a\", {n})"));
        out.push(format!("hbox(glue_ratio=\"{n}\")"));
        out.push(n.clone());
    }
    out
}

// ------------------------------------------------------------------------------------------------
// model self-validation (expectations recorded in the repository's tests)
// ------------------------------------------------------------------------------------------------

fn self_validate(ctx: &mut Ctx) {
    // lang/mod.rs doc example: the list that `chars("Box") glue(1pt, 5fil, 0.075in) chars("A") kern(-0.1pt) chars("V")` denotes.
    // The harness's constructors must build what the repository's own documentation says the text means.
    let want: Vec<H> = vec![ch('B', 0), ch('o', 0), ch('x', 0), glue(65536, 5 * 65536, GlueOrder::Fil, (7227 * reftex::arith::round_decimals(&[0, 7, 5]) / 100) as i32 /* TeX §458: 0.075in */, GlueOrder::Normal), ch('A', 0), kern(-(reftex::arith::round_decimals(&[1]) as i32)), ch('V', 0)];
    let src = "chars(\"Box\")\nglue(1pt, 5fil, 0.075in)\nchars(\"A\")\nkern(-0.1pt)\nchars(\"V\")\n";
    match catch(|| parse_h(src)) {
        Ok(Ok(got)) if got == want => {}
        other => ctx.machinery_error(format!("self-validation: the documentation example of lang/mod.rs does not parse to the list the harness builds: {other:?}")),
    }
    // D20 predicate: boundary (TeX §186 clamps at 20000; the dimension scanner stops below 16384)
    if boxl::d20_applies(16383, 1) || !boxl::d20_applies(16384, 1) || !boxl::d20_applies(-20000, 1) || boxl::d20_applies(1, 3) {
        ctx.machinery_error("self-validation: D20 predicate boundary");
    }
    if !boxl::span_ok("é", 0, 2) || boxl::span_ok("é", 0, 1) || boxl::span_ok("a", 0, 2) {
        ctx.machinery_error("self-validation: span_ok");
    }
}

// ------------------------------------------------------------------------------------------------
// main
// ------------------------------------------------------------------------------------------------

fn build_menus() -> Menus {
    let full = full_menu();
    let reduced = reduced_menu();
    let medium: Vec<H> = full.iter().step_by(5).cloned().chain(reduced.iter().cloned()).collect();
    Menus { medium, vfull: full.iter().filter_map(h_to_v).collect(), vreduced: reduced.iter().filter_map(h_to_v).collect(), dreduced: reduced.iter().filter_map(h_to_d).collect(), full, reduced, beyond: beyond_menu(), numbers: boxl::number_lexemes() }
}
// the list types hold `Rc`s, so every worker thread builds its own (identical, deterministic) menus
thread_local! {
    static MENUS: Menus = build_menus();
}
fn menus<R>(f: impl FnOnce(&Menus) -> R) -> R {
    MENUS.with(|m| f(m))
}

fn main() {
    let mut ctx = Ctx::new("C18", Level::Exploration);
    ctx.assume("round-trip domain as the property states it: characters other than the double quote; kerns of the normal kind; and, for the same reason (no syntax), glue of the normal kind, marks without content, vboxes with the default glue set, no whatsits");
    ctx.assume("scaled values in the round-trip families are legal TeX dimensions (|x| <= 2^30-1 sp) or, in rules, the running sentinel; nodes holding other i32 contents are enumerated in their own family and judged for totality only (printing may not produce a text that panics the parser)");
    ctx.assume("GlueRatio equality is the subject's own (by printed text, ds.rs): the sign of a ratio and digits beyond 2^-16 are not part of the value");
    ctx.assume("a vertical list is parsed with the public pieces cst::parse + ast::parse_vbox_using_cst + ToBoxworks (lang has no parse_vertical_list)");
    let m = build_menus();
    let quick = ctx.quick();
    if let Some((fam, case)) = ctx.replay_case() {
        let mut acc = Acc::default();
        replay(&fam, &case, &m, &mut acc);
        ctx.finish_replay(acc);
    }
    self_validate(&mut ctx);
    let nf = m.full.len() as u64;
    let nr = m.reduced.len() as u64;
    let nm = m.medium.len() as u64;
    let (n1, n2) = (nested1_count(&m, ctx.pick(2u32, 3u32)), nested2_count(&m, ctx.pick(1u32, 2u32)));
    let (nv, nvr, nb) = (m.vfull.len() as u64, m.vreduced.len(), m.beyond.len() as u64);
    let numbers = m.numbers.clone();
    drop(m);

    // ---- lists
    ctx.family("h-single", &format!("every node of the full menu ({nf} nodes: every kind x value boundaries), alone"), nf, |i, acc| {
        let l = menus(|m| vec![m.full[i as usize].clone()]);
        check_hlist(i, &l, Judge::Full, acc, &|| json!({"family": "h-single", "idx": i}));
        if i % 97 == 3 {
            acc.sample(i, || json!({"list": print_h_elements(&l)}));
        }
    });
    ctx.family("h-pairs", &format!("every ordered pair over the full menu ({nf}^2)"), nf * nf, |i, acc| {
        let l = menus(|m| vec![m.full[(i / nf) as usize].clone(), m.full[(i % nf) as usize].clone()]);
        check_hlist(i, &l, Judge::Full, acc, &|| json!({"family": "h-pairs", "idx": i}));
    });
    {
        // quick: the reduced menu; thorough: the medium menu
        let (nt, which) = if quick { (nr, "reduced") } else { (nm, "medium") };
        ctx.family("h-triples", &format!("every ordered triple over the {which} menu ({nt}^3; medium = every fifth node of the full menu + the reduced menu)"), nt * nt * nt, |i, acc| {
            let d = vcore::digits(i, &[nt, nt, nt]);
            let l: Vec<H> = menus(|m| d.iter().map(|k| if quick { m.reduced[*k as usize].clone() } else { m.medium[*k as usize].clone() }).collect());
            check_hlist(i, &l, Judge::Full, acc, &|| json!({"family": "h-triples", "idx": i, "menu": which}));
        });
    }
    let inner_len = ctx.pick(2u32, 3u32);
    ctx.family("h-nested-1", &format!("hbox / vbox / adjust / disc pre / disc post / insertion holding every list of <= {inner_len} nodes over the reduced menu ({nr} nodes; lists the container cannot hold are void)"), n1, |i, acc| {
        if let Some(l) = menus(|m| nested1(m, inner_len, i)) {
            check_hlist(i, &l, Judge::Full, acc, &|| json!({"family": "h-nested-1", "idx": i, "inner_len": inner_len}));
        }
    });
    let inner2 = ctx.pick(1u32, 2u32);
    ctx.family("h-nested-2", &format!("the same six containers holding an hbox or vbox (alone, after or before a kern) that holds every list of <= {inner2} nodes over the reduced menu"), n2, |i, acc| {
        if let Some(l) = menus(|m| nested2(m, inner2, i)) {
            check_hlist(i, &l, Judge::Full, acc, &|| json!({"family": "h-nested-2", "idx": i, "inner_len": inner2}));
        }
    });
    ctx.family("v-single-and-pairs", &format!("vertical lists: every node of the full menu that a vertical list can hold ({nv}), alone, and every ordered pair over the reduced vertical menu ({nvr})"), nv + (nvr * nvr) as u64, |i, acc| {
        let l = menus(|m| {
            if i < nv {
                vec![m.vfull[i as usize].clone()]
            } else {
                let k = (i - nv) as usize;
                vec![m.vreduced[k / nvr].clone(), m.vreduced[k % nvr].clone()]
            }
        });
        check_vlist(i, &l, acc, &|| json!({"family": "v-single-and-pairs", "idx": i}));
    });
    {
        // every single-precision glue ratio from 16383 to 20001: num/512 is exact in f32 for these
        let ranges: Vec<(u64, u64)> = if quick { vec![(16383 * 512, 16385 * 512 + 1), (19999 * 512, 20001 * 512 + 1)] } else { vec![(16383 * 512, 20001 * 512 + 1)] };
        let n: u64 = ranges.iter().map(|(a, b)| b - a).sum();
        let r = &ranges;
        ctx.family("h-glue-ratio-sweep", &format!("an hbox with glue ratio num/512 for every num in {ranges:?} (every single-precision value in those intervals; >= 16384 is the D20 class)"), n, |i, acc| {
            let mut k = i;
            let mut num = 0;
            for (a, b) in r {
                if k < b - a {
                    num = a + k;
                    break;
                }
                k -= b - a;
            }
            let l = vec![H::HBox(hbox([0, 65536, 0, 0], (num as i32, 512), GlueOrder::Fil, vec![]))];
            check_hlist(i, &l, Judge::Full, acc, &|| json!({"family": "h-glue-ratio-sweep", "num": num}));
        });
    }
    ctx.family("h-beyond-maxdimen", &format!("{nb} nodes whose scaled fields hold +-2^30, i32::MAX, i32::MIN(+1): totality of print -> parse only"), nb, |i, acc| {
        let l = menus(|m| vec![m.beyond[i as usize].clone()]);
        check_hlist(i, &l, Judge::TotalityOnly, acc, &|| json!({"family": "h-beyond-maxdimen", "idx": i}));
    });

    // ---- sources
    {
        let k = boxl::LEXEMES.len() as u64;
        let maxlen = ctx.pick(5u32, 6u32);
        ctx.family("source-lexemes", &format!("every concatenation of <= {maxlen} lexemes from {:?}", boxl::LEXEMES), vcore::strings_upto(k, maxlen), |i, acc| {
            let s: String = vcore::nth_string(k, i).into_iter().map(|j| boxl::LEXEMES[j as usize]).collect();
            check_source(i, &s, acc);
            if i % 100_003 == 17 {
                acc.sample(i, || json!({"source": s}));
            }
        });
        let k = boxl::PROGRAM_PIECES.len() as u64;
        let maxlen = ctx.pick(4u32, 5u32);
        ctx.family("source-programs", &format!("every concatenation of <= {maxlen} pieces of well-formed programs from {:?}", boxl::PROGRAM_PIECES), vcore::strings_upto(k, maxlen), |i, acc| {
            let s: String = vcore::nth_string(k, i).into_iter().map(|j| boxl::PROGRAM_PIECES[j as usize]).collect();
            check_source(i, &s, acc);
            if i % 50_021 == 33 {
                acc.sample(i, || json!({"source": s}));
            }
        });
        let k = boxl::STRING_PIECES.len() as u64;
        let maxlen = ctx.pick(4u32, 5u32);
        ctx.family("source-string-escapes", &format!("chars(\"...\") whose string body is every concatenation of <= {maxlen} pieces from {:?} (the closing quote is part of the alphabet, so unterminated strings and text after the string occur)", boxl::STRING_PIECES), vcore::strings_upto(k, maxlen), |i, acc| {
            let body: String = vcore::nth_string(k, i).into_iter().map(|j| boxl::STRING_PIECES[j as usize]).collect();
            check_source(i, &format!("chars(\"{body}\")"), acc);
        });
        // \u{..} escapes: both sides of every digit-count and scalar-value limit, in every string position
        let hexes = ["", "0", "41", "7F", "80", "FF", "100", "7FF", "800", "FFF", "1000", "D7FF", "D800", "DFFF", "E000", "FFFF", "10000", "FFFFF", "100000", "10FFFE", "10FFFF", "10ffff", "110000", "FFFFFF", "1000000", "0010FFFF", "00000041", "FFFFFFFF", "100000000", "1G", "g", " 41", "é"];
        let mut us: Vec<String> = vec![];
        for h in hexes {
            for (open, close) in [("\\u{", "}"), ("\\u{", ""), ("\\u", "}"), ("\\U{", "}")] {
                let e = format!("{open}{h}{close}");
                us.push(format!("chars(\"{e}\")"));
                us.push(format!("chars(\"a{e}b\", 1)"));
                us.push(format!("lig(\"{e}\", \"{e}{e}\")"));
                us.push(format!("chars(\"{e}"));
            }
        }
        let us = &us;
        ctx.family("source-unicode-escapes", &format!("{} hex strings (both sides of the 2/3/4/5/6/8-digit, surrogate and 10FFFF limits, invalid digits) as \\u{{..}} escape, closed / unclosed / without brace / upper-case U, in chars content, between characters, in lig char and original_chars, and in an unterminated string", hexes.len()), us.len() as u64, |i, acc| check_source(i, &us[i as usize], acc));
        // truncation at every position and a one-character fault at every position of the printed text of every node kind
        let base: Vec<String> = menus(|m| m.reduced.iter().map(|h| h.to_string()).collect());
        let faults: [&str; 11] = ["", "\"", "(", ")", "[", "]", "#", "\\", "é", "\r", "#\r"];
        let mut cuts: Vec<(usize, usize, usize)> = vec![]; // (text, char position, kind: 0 = prefix, 1.. = replace the character by faults[kind-1])
        for (t, text) in base.iter().enumerate() {
            for (pos, _) in text.char_indices() {
                for kind in 0..=faults.len() {
                    cuts.push((t, pos, kind));
                }
            }
        }
        let (base, cuts) = (&base, &cuts);
        ctx.family("source-faults", &format!("the printed text of each of the {} nodes of the reduced menu (every node kind, nested lists, escapes, multi-byte characters), cut at every character position, and with every single character deleted or replaced by one of {:?}", base.len(), &faults[1..]), cuts.len() as u64, |i, acc| {
            let (t, pos, kind) = cuts[i as usize];
            let text = &base[t];
            let clen = text[pos..].chars().next().map(|c| c.len_utf8()).unwrap_or(0);
            let s = if kind == 0 { text[..pos].to_string() } else { format!("{}{}{}", &text[..pos], faults[kind - 1], &text[pos + clen..]) };
            if kind == 0 {
                acc.count("source_truncated");
            } else if text[..pos].chars().any(|c| c.len_utf8() > 1) {
                acc.count("fault_after_multibyte_text");
            }
            check_source(i, &s, acc);
        });
        // two passes (the bracket pre-pass and the tokenizer) must agree on where a comment and a string end: every
        // delimiter of one construct inside the other, every comment ending, inside a bracketed region with more brackets after it
        let pres = ["", "a(", "hbox(content=[ ", "glue(1pt, ", "hbox(content=[chars(\"a\") ", "disc(pre_break=[kern(1pt)], post_break=[", "vbox(content=[hbox(content=["];
        let bodies = ["", " note", "(", "[", ")", "]", "\"", "([", "])", ")(", "é日𝄞(", "#", "\\", "chars(\"x\")"];
        let terms = ["\n", "\r\n", "\r", ""];
        let conts = ["", "\n", "(\n) b()", " chars(\"x\")\n ]) kern(1pt)", "1pt)\nkern(2pt)", "])\nglue()", ")\n)", "]\n]) chars(\"y\")", " [ ( \n", "\r(\r[\n]) penalty(1)", "\"\n\")"];
        let mut cs: Vec<(String, String, bool)> = vec![]; // (source, the same source with the comment removed up to the next LF, lone CR then a bracket)
        for pre in pres {
            for body in bodies {
                for term in terms {
                    for cont in conts {
                        let tail = format!("{body}{term}{cont}");
                        let reference = match tail.find('\n') {
                            Some(k) => format!("{pre}{}", &tail[k..]),
                            None => pre.to_string(),
                        };
                        // a lone CR (not followed by LF) inside the comment, and a bracket between it and the end of the comment
                        let end = tail.find('\n').unwrap_or(tail.len());
                        let lone_cr_then_bracket = tail[..end].char_indices().any(|(k, c)| c == '\r' && !tail[k + 1..].starts_with('\n') && tail[k + 1..end].contains(['(', ')', '[', ']']));
                        cs.push((format!("{pre}#{tail}"), reference, lone_cr_then_bracket));
                    }
                }
            }
        }
        // the other direction: the comment character, brackets, CR and LF inside a string
        for inner in ["#", "(", "])", "#(", "# [\n", "\r", "\r(", "a#\r]\n)", "\\\"#(", "é#日(𝄞"] {
            for (pre, post) in [("chars(\"", "\")"), ("hbox(content=[chars(\"", "\") chars(\"x\")]) kern(1pt)"), ("lig(\"a\", \"", "\")\nglue()")] {
                let src = format!("{pre}{inner}{post}");
                cs.push((src.clone(), src, false));
            }
        }
        let cs = &cs;
        ctx.family("source-comments", &format!("{} bracketed prefixes x `#` + {} comment bodies (empty, text, every bracket, quote, `#`, backslash, a call, multi-byte) x endings LF / CRLF / lone CR / none x {} continuations with further bracket pairs; and `#`, brackets, CR, LF inside strings. The parse must equal the parse of the text with the comment removed up to the next LF (lang/mod.rs: a comment runs to the end of the line)", pres.len(), bodies.len(), conts.len()), cs.len() as u64, |i, acc| {
            let (src, reference, lone) = &cs[i as usize];
            if *lone {
                acc.count("comment_contains_lone_cr_then_bracket");
            }
            if src.contains("#(") || src.contains("#[") || src.contains("#\"") {
                acc.count("comment_starts_with_bracket_or_quote");
            }
            let before = acc.fail_count;
            check_source(i, src, acc);
            if acc.fail_count > before || src == reference {
                return;
            }
            // same meaning as the text without the comment
            let case = || json!({"kind": "source", "text": src, "without_comment": reference});
            match (catch(|| parse_h(src)), catch(|| parse_h(reference))) {
                (Ok(a), Ok(b)) => {
                    let same = match (&a, &b) {
                        (Ok(x), Ok(y)) => x == y,
                        (Err(_), Err(_)) => true,
                        _ => false,
                    };
                    if !same {
                        fail(acc, i, case(), format!("{b:?}"), format!("{a:?}"), "a comment changes what the text parses to (compared with the same text without the comment)");
                    }
                }
                (_, Err(p)) | (Err(p), _) => fail(acc, i, case(), "a list or located errors", p.describe(), "parse_horizontal_list panicked: comment family"),
            }
        });
        let ns = number_sources(&numbers);
        let ns = &ns;
        ctx.family("source-numbers", &format!("{} number lexemes (sign x integer part up to 20 digits x fraction x unit) as penalty / kern / glue stretch+shrink / font / glue_ratio argument and bare", numbers.len()), ns.len() as u64, |i, acc| check_source(i, &ns[i as usize], acc));
        let am = arg_matrix_sources();
        let am = &am;
        ctx.family("source-argument-matrix", &format!("every function x every parameter (positional, keyword, two positional) x {} values of every type and near misses; duplicate, unknown, too many arguments", boxl::ARG_VALUES.len()), am.len() as u64, |i, acc| check_source(i, &am[i as usize], acc));
    }
    ctx.require("comment_contains_lone_cr_then_bracket", "a comment holds a lone CR followed by a bracket before the next LF");
    ctx.require("comment_starts_with_bracket_or_quote", "`#` immediately followed by a bracket or a quote");
    ctx.require("vbox_display_route", "a vbox printed through the Display of ds::VBox");
    ctx.require("source_truncated", "a printed text cut at an inner position");
    ctx.require("fault_after_multibyte_text", "a one-character fault placed after multi-byte text");
    ctx.require("adjacent_chars_same_font_merge", "two adjacent characters in the same font (printed as one chars call by the list printer)");
    ctx.require("adjacent_chars_different_font", "two adjacent characters in different fonts");
    ctx.require("text_has_escape", "the printed text contains an escape sequence");
    ctx.require("glue_ratio_ge_16384", "a box with a glue ratio >= 16384 (D20 class)");
    ctx.require("format_changes_source", "a source that parses and that format rewrites");
    ctx.require("format_accepts_what_parse_rejects", "a source with a type-level error only (format succeeds, parse does not)");
    if std::env::var("VERIF_FAIL_CLASSES").is_ok() {
        for (k, (n, i, w)) in FAIL_CLASSES.lock().unwrap().iter() {
            eprintln!("{n:>8} {k}\n           first #{i}: {}", w.replace('\n', " "));
        }
    }
    ctx.finish("lists: every list of the stated shapes over boundary menus, printed two ways, parsed back, formatted (non-trivial = two or more nodes, or a node that holds a list); sources: every lexeme string of the stated lengths (non-trivial = parses to a non-empty list)");
}

fn replay(fam: &str, case: &Value, m: &Menus, acc: &mut Acc) {
    if case["kind"] == "source" {
        check_source(0, case["text"].as_str().unwrap_or(""), acc);
        return;
    }
    // known-finding witnesses wrap the case
    let case = if case["case"].is_object() { &case["case"] } else { case };
    let sel = &case["sel"];
    if let Some(s) = sel["from_source"].as_str() {
        check_source(0, s, acc);
        return;
    }
    let family = sel["family"].as_str().unwrap_or(fam);
    let i = sel["idx"].as_u64().unwrap_or(0);
    let il = sel["inner_len"].as_u64().unwrap_or(1) as u32;
    let nf = m.full.len() as u64;
    let list: Option<Vec<H>> = match family {
        "h-single" => Some(vec![m.full[i as usize].clone()]),
        "h-pairs" => Some(vec![m.full[(i / nf) as usize].clone(), m.full[(i % nf) as usize].clone()]),
        "h-triples" => {
            let menu = if sel["menu"] == "reduced" { &m.reduced } else { &m.medium };
            let nt = menu.len() as u64;
            Some(vcore::digits(i, &[nt, nt, nt]).iter().map(|k| menu[*k as usize].clone()).collect())
        }
        "h-nested-1" => nested1(m, il, i),
        "h-nested-2" => nested2(m, il, i),
        "h-glue-ratio-sweep" => Some(vec![H::HBox(hbox([0, 65536, 0, 0], (sel["num"].as_i64().unwrap_or(0) as i32, 512), GlueOrder::Fil, vec![]))]),
        "h-beyond-maxdimen" => {
            check_hlist(0, &vec![m.beyond[i as usize].clone()], Judge::TotalityOnly, acc, &|| sel.clone());
            return;
        }
        "v-single-and-pairs" => {
            let nv = m.vfull.len() as u64;
            let l = if i < nv {
                vec![m.vfull[i as usize].clone()]
            } else {
                let k = (i - nv) as usize;
                vec![m.vreduced[k / m.vreduced.len()].clone(), m.vreduced[k % m.vreduced.len()].clone()]
            };
            check_vlist(0, &l, acc, &|| sel.clone());
            return;
        }
        _ => {
            eprintln!("replay: unknown family {family}");
            std::process::exit(2);
        }
    };
    match list {
        Some(l) => check_hlist(0, &l, Judge::Full, acc, &|| sel.clone()),
        None => {
            eprintln!("replay: void case");
            std::process::exit(2);
        }
    }
}
