//! C18 — not built yet.
fn main() {
    eprintln!("c18: check not built yet");
    std::process::exit(2);
}
