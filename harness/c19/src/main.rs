//! C19 — not built yet.
fn main() {
    eprintln!("c19: check not built yet");
    std::process::exit(2);
}
