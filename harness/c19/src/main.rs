//! C19 — `\input`, `\endinput` and `\read` treat files as lines standing in place.
//! Engines: BEX over file trees (real VM on an in-memory file system vs `reftex::readtoks` input
//! stack, plus a model-free inlining oracle) + XS over histories of `\openin`/`\read`/`\ifeof`/`\closein`
//! (explicit-state BFS, states merged on the drained implementation state). DESIGN.md §3 C19.

use reftex::readtoks::{self, EndInput, Eof, ReadMachine, ReadOutcome, Stop};
use reftex::scan::{self, Table, TokV};
use serde_json::{json, Value};
use std::cell::RefCell;
use std::collections::BTreeMap;
use std::rc::Rc;
use vcore::{Acc, Ctx, Level};
use vtex::Outcome;

fn model_cfg() -> scan::Config {
    // the VM's default table is CatCode::PLAIN_TEX_DEFAULTS; the characters used by this check have
    // the same codes in plain.tex (checked in self_validate)
    scan::Config { table: Table::plain(), end_line_char: Some('\r'), hex: true }
}

// ---------------------------------------------------------------- file trees

/// Line menu; `@` stands for the name of the file the line inputs.
const MENU: [&str; 18] = [
    "a",
    "a ",
    "",
    "\\input @ b",
    "\\input @",
    "x\\endinput y",
    "\\endinput",
    "{",
    "}",
    "\\iftrue",
    "\\fi",
    "%c",
    // TeX's single force_eof flag: the file opened on the rest of the \endinput line is the one that is closed
    "x\\endinput\\input @ y",
    // \endinput inside a macro body that ends on the line
    "\\def\\m{u\\endinput v}\\m w",
    // the file name is ended by an unexpandable token, which is backed up below the new file (\par is a
    // primitive for TeX and reaches main control in the crate as well)
    "\\input @\\par b",
    // further placements (used by the `placements` families only)
    "a\\input @ b",
    "a\\input @",
    "x\\endinput",
];
/// the first `MENU_CORE` lines form the menu of the big families
const MENU_CORE: usize = 15;
/// leaves of the `special-files` families: multi-byte text, CR LF line ends, blank-only files, a file ending in CR
/// (the last five: a last line of blanks only that is not terminated - still a line, it delivers \par)
const SPECIAL_LEAVES: [&str; 14] = ["é€😀 z\n", "a\r\nb\r\n", " \n \n", "\n\n", "a\r", "é\\endinput €\n😀\n", "{a} b\nc\nd\n", "{a\nb} c\nd", "{}\nb\n", "A\n   ", "   ", "A\n\t", " ", "A\n \n  "];
const LEAVES: [&str; 5] = ["k", "k\n", "", "p\nq\n", "u\\endinput v\nw\n"];

#[derive(Clone, Debug, PartialEq)]
enum Spec {
    /// menu line indices, final newline
    Lines(Vec<u8>, bool),
    Literal(&'static str),
}
impl Spec {
    fn n_in(&self) -> usize {
        match self {
            Spec::Lines(l, _) => l.iter().filter(|i| MENU[**i as usize].contains('@')).count(),
            Spec::Literal(_) => 0,
        }
    }
    /// text of the file called `name`; its k-th `\input` line names the file `name` + ('a'+k)
    fn text(&self, name: &str) -> String {
        match self {
            Spec::Literal(s) => s.to_string(),
            Spec::Lines(l, nl) => {
                let mut k = 0u8;
                let mut lines = vec![];
                for i in l {
                    let m = MENU[*i as usize];
                    if m.contains('@') {
                        lines.push(m.replace('@', &format!("{name}{}", (b'a' + k) as char)));
                        k += 1;
                    } else {
                        lines.push(m.to_string());
                    }
                }
                let mut t = lines.join("\n");
                if *nl {
                    t.push('\n');
                }
                t
            }
        }
    }
}

/// All files of exactly `n` menu lines (with and without final newline).
fn files_of(n: usize, menu: usize) -> Vec<Spec> {
    let mut v = vec![];
    let total = (menu as u64).pow(n as u32);
    for i in 0..total {
        let d = vcore::digits(i, &vec![menu as u64; n]);
        let l: Vec<u8> = d.iter().map(|x| *x as u8).collect();
        v.push(Spec::Lines(l.clone(), false));
        v.push(Spec::Lines(l, true));
    }
    v
}
fn files_upto(n: usize, menu: usize) -> Vec<Spec> {
    let mut v = vec![Spec::Literal("")];
    for k in 1..=n {
        v.extend(files_of(k, menu));
    }
    v
}
fn leaves() -> Vec<Spec> {
    LEAVES.iter().map(|s| Spec::Literal(s)).collect()
}

/// A shape: one set of candidate files per level; the last level has no `\input` line.
struct Shape {
    levels: Vec<Vec<Spec>>,
    /// per level: cumulative number of subtrees rooted at the files of that level
    cum: Vec<Vec<u64>>,
    /// per level: total number of subtrees
    total: Vec<u64>,
}
impl Shape {
    fn new(levels: Vec<Vec<Spec>>) -> Shape {
        let n = levels.len();
        let mut cum = vec![vec![]; n];
        let mut total = vec![0u64; n + 1];
        total[n] = 1;
        for l in (0..n).rev() {
            let mut c = 0u64;
            for s in &levels[l] {
                let k = s.n_in() as u32;
                assert!(l + 1 < n || k == 0, "the last level must not input anything");
                c = c.checked_add(total[l + 1].checked_pow(k).expect("tree count overflow")).expect("tree count overflow");
                cum[l].push(c);
            }
            total[l] = c;
        }
        Shape { levels, cum, total }
    }
    fn count(&self) -> u64 {
        self.total[0]
    }
    /// Decode subtree number `idx` at `level` into files; returns the root's text.
    fn build(&self, level: usize, idx: u64, name: &str, files: &mut BTreeMap<String, String>, sel: &mut Vec<(String, usize)>) -> String {
        let pos = self.cum[level].partition_point(|c| *c <= idx);
        let before = if pos == 0 { 0 } else { self.cum[level][pos - 1] };
        let spec = &self.levels[level][pos];
        sel.push((name.to_string(), pos));
        let mut rest = idx - before;
        let k = spec.n_in();
        let radix = self.total[level + 1];
        let mut child_idx = vec![0u64; k];
        for j in (0..k).rev() {
            child_idx[j] = rest % radix;
            rest /= radix;
        }
        for (j, ci) in child_idx.iter().enumerate() {
            let cname = format!("{name}{}", (b'a' + j as u8) as char);
            let text = self.build(level + 1, *ci, &cname, files, sel);
            files.insert(cname, text);
        }
        spec.text(name)
    }
}

#[derive(Clone, Debug)]
struct TreeCase {
    main: String,
    files: BTreeMap<String, String>,
}
impl TreeCase {
    fn json(&self) -> Value {
        json!({"kind": "tree", "main": self.main, "files": self.files})
    }
    fn from_json(v: &Value) -> TreeCase {
        TreeCase { main: v["main"].as_str().unwrap_or("").to_string(), files: v["files"].as_object().map(|o| o.iter().map(|(k, v)| (k.clone(), v.as_str().unwrap_or("").to_string())).collect()).unwrap_or_default() }
    }
}

fn run_tree_impl(case: &TreeCase) -> Outcome {
    vtex::run_fresh_with(&case.main, |vm| {
        let fs = vm.state.env.fs.borrow();
        for (n, c) in &case.files {
            fs.add(&format!("{n}.tex"), c);
        }
    })
}

/// How the end of a run is judged (AUDIT.md). The statement supports: a run inside the limit ends
/// without an error; beyond the documented limit of 100 there is *an* error (no particular text). What
/// the crate does at an unmatched `}`, an extra `\\fi` or a missing file is outside the statement (TeX
/// recovers from the first two): only the output up to that point is compared, whatever follows.
fn run_agrees(want: &readtoks::RunResult, got: &vtex::RunOut) -> bool {
    match &want.stop {
        Stop::EndOfInput => got.err.is_none() && got.out == want.out,
        Stop::TooManyInputs => got.err.is_some() && got.out == want.out,
        _ => got.out.starts_with(&want.out),
    }
}
fn show_model(r: &readtoks::RunResult) -> String {
    match &r.stop {
        Stop::EndOfInput => r.out.clone(),
        s => format!("{} !{:?}", r.out, s),
    }
}

fn judge_tree(idx: u64, case: &TreeCase, acc: &mut Acc, inline_oracle: bool) {
    acc.eval();
    let cfg = model_cfg();
    let want = readtoks::run_input(&case.files, &case.main, &cfg, EndInput::TexGlobalFlag);
    // rule N and collision counters, from the model
    if want.max_open_files >= 2 || want.endinput_executed > 0 {
        acc.nontrivial();
    }
    if want.input_mid_line {
        acc.count("input_mid_line");
    }
    if want.file_ended_in_group {
        acc.count("file_ended_in_group");
    }
    if want.file_ended_in_cond {
        acc.count("file_ended_in_conditional");
    }
    if want.endinput_with_rest {
        acc.count("endinput_with_rest");
    }
    if want.endinput_executed > 0 && !want.endinput_with_rest {
        acc.count("endinput_at_line_end");
    }
    if want.force_eof_closed_other_file {
        acc.count("force_eof_closed_other_file");
    }
    if want.backed_token_across_push {
        acc.count("backed_token_across_push");
    }
    if want.endinput_before_last_line {
        acc.count("endinput_before_last_line_of_its_file");
    }
    if want.max_open_files >= 3 {
        acc.count("nesting_ge_2");
    }
    let stop_name = match &want.stop {
        Stop::EndOfInput => "end",
        Stop::ExtraRightBrace => "extra-}",
        Stop::ExtraFi => "extra-fi",
        Stop::FileNotFound(_) => "missing-file",
        Stop::TooManyInputs => "too-many-inputs",
        Stop::BadDef => "bad-def",
        Stop::UnknownCs(_) => "unknown-cs",
        Stop::Budget => "budget",
    };
    if matches!(want.stop, Stop::BadDef | Stop::Budget | Stop::UnknownCs(_)) {
        // not produced by the menus; a model limitation must never be judged
        acc.skipped += 1;
        return;
    }
    acc.class(&format!("open{} endinput{} {}", want.max_open_files.min(6), want.endinput_executed.min(3), stop_name));
    let got = match run_tree_impl(case) {
        Outcome::Done(r) => r,
        Outcome::Cutoff => {
            acc.cutoffs += 1;
            return;
        }
        Outcome::Panic(p) => {
            acc.fail(idx, case.json(), show_model(&want), p.describe(), "the VM panicked");
            return;
        }
    };
    if run_agrees(&want, &got) {
        if inline_oracle {
            inline_check(idx, case, &got, acc);
        }
        return;
    }
    if want.endinput_with_rest {
        // finding D14a: applies = an \endinput is executed while the line of its file (or a token list
        // above it) still holds something TeX reads; adjusted = per-source flag, rest of the line dropped
        let adj = readtoks::run_input(&case.files, &case.main, &cfg, EndInput::PerSourceDropLine);
        if run_agrees(&adj, &got) {
            acc.known("D14a", idx, || {
                let mut j = case.json();
                j["expected_tex"] = json!(show_model(&want));
                j["observed"] = json!(got.show());
                j
            });
            return;
        }
    }
    acc.fail(idx, case.json(), show_model(&want), got.show(), "delivered characters differ from the lines-in-place model");
}

/// Model-free oracle: a line that is exactly `\input X`, with X non-empty, ending in a newline and
/// free of `\endinput`, can be replaced by the text of X.
fn inline_check(idx: u64, case: &TreeCase, got: &vtex::RunOut, acc: &mut Acc) {
    let mut changed = false;
    let mut out: Vec<String> = vec![];
    for l in scan::split_lines(&case.main) {
        let mut done = false;
        if let Some(name) = l.strip_prefix("\\input ") {
            if !name.is_empty() && name.chars().all(|c| c.is_ascii_lowercase()) {
                if let Some(text) = case.files.get(name) {
                    // the lines of the file stand in place of the line, whether or not its last line is terminated
                    if !text.is_empty() && !text.contains("\\endinput") {
                        out.extend(scan::split_lines(text));
                        changed = true;
                        done = true;
                    }
                }
            }
        }
        if !done {
            out.push(l);
        }
    }
    if !changed {
        return;
    }
    // every line terminated: the pasted program has exactly these lines
    let pasted = TreeCase { main: out.iter().map(|l| format!("{l}\n")).collect(), files: case.files.clone() };
    acc.eval();
    acc.nontrivial();
    acc.count("inlining_oracle_applied");
    match run_tree_impl(&pasted) {
        Outcome::Done(r) => {
            // same delivered characters, and an error in the one iff in the other (no particular text)
            if r.out != got.out || r.err.is_some() != got.err.is_some() {
                let mut j = case.json();
                j["kind"] = json!("inline");
                j["pasted_main"] = json!(pasted.main);
                acc.fail(idx, j, format!("same as with the file pasted in: {}", r.show()), got.show(), "\\input differs from the same program with the file's lines pasted in place");
            }
        }
        Outcome::Cutoff => acc.cutoffs += 1,
        Outcome::Panic(p) => {
            let mut j = pasted.json();
            j["kind"] = json!("tree");
            acc.fail(idx, j, got.show(), p.describe(), "the VM panicked on the pasted program");
        }
    }
}

/// `\openin 0=<name>` then `\ifeof 0`. TeX §526: every character token up to the space belongs to the name,
/// except an active one (here `~`, made \relax), which ends it; what follows it is typeset.
fn judge_openin_name(idx: u64, name: &str, files: &BTreeMap<String, String>, acc: &mut Acc) {
    acc.eval();
    acc.nontrivial();
    let (tex_name, leftover) = match name.find('~') {
        Some(p) => (name[..p].to_string(), format!("{} ", &name[p + 1..])),
        None => (name.to_string(), String::new()),
    };
    let want = format!("{leftover}{}", if files.contains_key(&tex_name) { "F" } else { "T" });
    let prog = format!("\\let~\\relax\\scrollmode \\openin 0={name} \\ifeof 0 T\\else F\\fi %");
    let case = || json!({"kind": "openin-name", "name": name, "program": prog, "files": files});
    match vtex::run_fresh_with(&prog, |vm| {
        let fs = vm.state.env.fs.borrow();
        for (n, c) in files {
            fs.add(&format!("{n}.tex"), c);
        }
    }) {
        Outcome::Done(r) => {
            if r.out != want || r.err.is_some() {
                acc.fail(idx, case(), want, r.show(), "\\openin opened another file than the name TeX scans (§526)");
            }
        }
        Outcome::Cutoff => acc.cutoffs += 1,
        Outcome::Panic(p) => acc.fail(idx, case(), want, p.describe(), "the VM panicked"),
    }
}

// ---------------------------------------------------------------- depth chain

/// The text does not end in a newline and its last line consists of spaces only.
fn ends_with_unterminated_blank_line(t: &str) -> bool {
    let last = t.rsplit('\n').next().unwrap_or("");
    !last.is_empty() && last.chars().all(|c| c == ' ')
}

/// `\read` is an assignment (§1218 prefixed_command, read_to_cs): local to the group unless \globaldefs>0 or
/// (\globaldefs=0 and a \global prefix); \globaldefs<0 makes it local whatever the prefix.
fn judge_read_scope(idx: u64, g: i64, prefix: bool, predef: bool, depth: usize, acc: &mut Acc) {
    acc.eval();
    acc.nontrivial();
    if g > 0 {
        acc.count("read_inside_group_under_positive_globaldefs");
    }
    if prefix {
        acc.count("global_prefix_on_read");
    }
    let line = |c: char| vec![TokV::Ch(c, 11), TokV::Ch(' ', 10)];
    let pre = if predef { Some(line('a')) } else { None };
    let inner = if predef { line('b') } else { line('a') };
    let is_global = g > 0 || (g == 0 && prefix);
    let after = if is_global { Some(inner) } else { pre };
    let want = match &after {
        Some(t) => readtoks::show_toks(t),
        None => "[\\x]".to_string(),
    };
    let prog = format!(
        "\\scrollmode \\openin 0=fd {}\\globaldefs={g} {}{}\\read 0 to\\x {}\\globaldefs=0 \\expandafter\\capture\\x\\END %",
        if predef { "\\read 0 to\\x " } else { "" },
        "{".repeat(depth),
        if prefix { "\\global" } else { "" },
        "}".repeat(depth)
    );
    let case = || json!({"kind": "read-scope", "globaldefs": g, "prefix": prefix, "predef": predef, "depth": depth, "program": prog});
    match vtex::run_fresh_with(&prog, |vm| {
        let fs = vm.state.env.fs.borrow();
        for (n, c) in STREAM_FILES {
            fs.add(&format!("{n}.tex"), c);
        }
    }) {
        Outcome::Done(r) => {
            if prefix {
                // a prefix on \read is in no statement (C19, C01): recorded, never judged (AUDIT.md)
                if r.out == want && r.err.is_none() {
                    acc.class("\\global\\read accepted, scope as in TeX");
                } else if r.err.is_some() {
                    acc.class("note: \\global\\read rejected (TeX 1210/1218 allows it; outside the statement)");
                } else {
                    acc.class("note: \\global\\read accepted with another scope than TeX's (outside the statement)");
                }
                return;
            }
            if r.out != want || r.err.is_some() {
                acc.fail(idx, case(), want, r.show(), "the macro defined by \\read has the wrong scope after the group (§1218: \\read is an assignment, global under \\globaldefs>0)");
            }
        }
        Outcome::Cutoff => acc.cutoffs += 1,
        Outcome::Panic(p) => acc.fail(idx, case(), want, p.describe(), "the VM panicked"),
    }
}

fn chain_case(n: usize, shape: usize) -> TreeCase {
    let mut files = BTreeMap::new();
    for k in 1..=n {
        let text = if k == n {
            "L".to_string()
        } else {
            match shape {
                0 => format!("\\input c{}", k + 1),
                1 => format!("a\\input c{} b\n", k + 1),
                _ => format!("\\input c{}\nz\n", k + 1),
            }
        };
        files.insert(format!("c{k}"), text);
    }
    TreeCase { main: "\\input c1 m".into(), files }
}

// ---------------------------------------------------------------- read streams

/// the last file ends inside a brace group: a \read of it is an error, it is kept out of the state search
/// (a drain would die on it) and covered by the flat family
/// fj..fm begin with a line that delivers no token (comment only; under \endlinechar=-1 also a line of
/// an ignored character and an empty line): a \read of such a line is an empty token list, and the
/// line end must still be reported to \read (seeded regression C19-e)
/// fn..fq have the unmatched `}` on their last line (seeded regression C19-h): the rest of the line is
/// dropped (§486) and the stream is afterwards as after any other last line
/// fr: 2-, 3- and 4-byte characters in front of an unmatched `}`; fs: blank lines only; ft: CR LF line ends
/// fu..fz: a complete brace group that is NOT at the end of the file (seeded regression C19-j): the \read
/// stops at the end of that line / of the line that closes the group, and the rest of the file remains
const STREAM_FILES: [(&str, &str); 26] = [
    ("fa", ""),
    ("fb", "a"),
    ("fc", "a\n"),
    ("fd", "a\nb"),
    ("fe", "{a\nb}"),
    ("ff", "a}b\nc"),
    ("fg", "a\n\n"),
    ("fi", " x \n%\ny"),
    ("fj", "%c\na\n"),
    ("fk", "%c\n%d\na"),
    ("fl", "\u{0}\na"),
    ("fm", "\na"),
    ("fn", "a}b"),
    ("fo", "a}b\n"),
    ("fp", "x\na}b"),
    ("fq", "}"),
    ("fr", "é€😀}z\nq"),
    ("fs", " \n \n"),
    ("ft", "a\r\nb\r\n"),
    ("fu", "{a} b\nc\nd\n"),
    ("fv", "{a\nb} c\nd\n"),
    ("fw", "{a}{b} c\nd"),
    ("fx", "{{a}}b\nc\n"),
    ("fy", "{a}\nb\n"),
    ("fz", "{}\nb"),
    ("fh", "{a"),
];
const XS_FILES: usize = 25;
const TERMINAL: [&str; 14] = ["p", "q{", "r}", "s", "t}u", "v", "w", "p", "q{", "r}", "s", "t}u", "v", "w"];

#[derive(Clone, Copy, Debug, PartialEq)]
enum Act {
    Open(i64, usize), // usize::MAX = missing file
    Read(i64),
    IfEof(i64),
    Close(i64),
}
impl Act {
    fn text(&self) -> String {
        match self {
            Act::Open(s, f) => format!("\\openin {s}={} ", if *f == usize::MAX { "zz" } else { STREAM_FILES[*f].0 }),
            Act::Read(s) => format!("\\read {s} to\\x \\expandafter\\capture\\x\\END "),
            Act::IfEof(s) => format!("\\ifeof {s} T\\else F\\fi "),
            Act::Close(s) => format!("\\closein {s} "),
        }
    }
}

impl Act {
    fn json(&self) -> Value {
        match self {
            Act::Open(s, f) => json!(["open", s, if *f == usize::MAX { -1 } else { *f as i64 }]),
            Act::Read(s) => json!(["read", s]),
            Act::IfEof(s) => json!(["ifeof", s]),
            Act::Close(s) => json!(["close", s]),
        }
    }
    fn from_json(v: &Value) -> Act {
        let s = v[1].as_i64().unwrap_or(0);
        match v[0].as_str() {
            Some("open") => Act::Open(s, v[2].as_i64().map(|f| if f < 0 { usize::MAX } else { f as usize }).unwrap_or(usize::MAX)),
            Some("read") => Act::Read(s),
            Some("ifeof") => Act::IfEof(s),
            _ => Act::Close(s),
        }
    }
}

fn actions(quick: bool, files: &[usize]) -> Vec<Act> {
    let streams: &[i64] = if quick { &[0, 15] } else { &[0, 1, 15] };
    let mut a = vec![];
    for &s in streams {
        for &f in files {
            a.push(Act::Open(s, f));
        }
        a.push(Act::Open(s, usize::MAX));
    }
    a.push(Act::Open(16, 3));
    a.push(Act::Open(-1, 1));
    for &s in streams.iter().chain([16i64, -1].iter()) {
        a.push(Act::Read(s));
        a.push(Act::IfEof(s));
        a.push(Act::Close(s));
    }
    a
}

/// What the model says a program prints, or the point where it dies.
#[derive(Clone, Debug, PartialEq)]
struct Printed {
    out: String,
    dead: Option<&'static str>,
}

struct ModelRun {
    m: ReadMachine,
    x: Option<Vec<TokV>>,
    y: Option<Vec<TokV>>,
    p: Printed,
    /// a \read delivered the empty token list (a line without tokens)
    empty_read: bool,
}
impl ModelRun {
    fn new(eof: Eof, no_elc: bool) -> ModelRun {
        let mut cfg = model_cfg();
        if no_elc {
            cfg.end_line_char = None;
        }
        ModelRun { m: ReadMachine::new(cfg, eof, &TERMINAL), x: None, y: None, p: Printed { out: String::new(), dead: None }, empty_read: false }
    }
    fn read(&mut self, s: i64, into_y: bool) {
        match self.m.read(s) {
            ReadOutcome::Toks(t) => {
                if t.is_empty() {
                    self.empty_read = true;
                }
                self.p.out.push_str(&readtoks::show_toks(&t));
                if into_y {
                    self.y = Some(t)
                } else {
                    self.x = Some(t)
                }
            }
            ReadOutcome::TerminalExhausted => self.p.dead = Some("failed to read from the terminal"),
            ReadOutcome::FileEndedInGroup => self.p.dead = Some("file has an unmatched opening brace"),
        }
    }
    fn act(&mut self, a: &Act) {
        if self.p.dead.is_some() {
            return;
        }
        match a {
            Act::Open(s, f) => self.m.openin(*s, if *f == usize::MAX { None } else { Some(STREAM_FILES[*f].1) }),
            Act::Read(s) => self.read(*s, false),
            Act::IfEof(s) => {
                let b = self.m.ifeof(*s);
                self.p.out.push(if b { 'T' } else { 'F' });
            }
            Act::Close(s) => self.m.closein(*s),
        }
    }
    /// The drain program (see `drain_text`) on the model.
    fn drain(&mut self, streams: &[i64]) {
        self.p.out.clear();
        match &self.x {
            None => self.p.out.push_str("[\\x]"),
            Some(t) => self.p.out.push_str(&readtoks::show_toks(t)),
        }
        self.p.out.push('|');
        for s in 0..16 {
            let b = self.m.ifeof(s);
            self.p.out.push(if b { 'E' } else { 'O' });
        }
        self.p.out.push('|');
        for &s in streams {
            for _ in 0..DRAIN_READS {
                if self.p.dead.is_some() {
                    return;
                }
                if self.m.ifeof(s) {
                    self.p.out.push('.');
                } else {
                    self.read(s, true);
                    if self.p.dead.is_some() {
                        return;
                    }
                    self.p.out.push(',');
                }
            }
            self.p.out.push(';');
        }
    }
}
const DRAIN_READS: usize = 5;
fn drain_text(streams: &[i64]) -> String {
    let mut t = String::from("\\expandafter\\capture\\x\\END|");
    for s in 0..16 {
        t.push_str(&format!("\\ifeof {s} E\\else O\\fi "));
    }
    t.push('|');
    for s in streams {
        for _ in 0..DRAIN_READS {
            t.push_str(&format!("\\ifeof {s} .\\else\\read {s} to\\y \\expandafter\\capture\\y\\END,\\fi "));
        }
        t.push(';');
    }
    t.push('%');
    t
}

#[derive(Clone, Debug, PartialEq, Eq, Hash)]
struct Fp {
    drain: String,
    terminal_pos: usize,
}

struct ImplRun {
    main: vtex::RunOut,
    drain: Option<vtex::RunOut>,
    terminal_pos: usize,
}

fn run_history_impl(prog: &str, drain: &str) -> Result<ImplRun, vcore::Panic> {
    vcore::catch(|| {
        let mut vm = vtex::new_vm();
        {
            let fs = vm.state.env.fs.borrow();
            for (n, c) in STREAM_FILES {
                fs.add(&format!("{n}.tex"), c);
            }
        }
        let term = Rc::new(RefCell::new(vtex::ScriptTerminal { lines: TERMINAL.iter().map(|s| s.to_string()).collect(), pos: 0 }));
        vm.state.error_mode.set_default_terminal(term.clone());
        vm.state.env.step_budget.set(20_000);
        let main = vtex::run(&mut vm, prog);
        let d = if main.err.is_none() { Some(vtex::run(&mut vm, drain)) } else { None };
        let pos = term.borrow().pos;
        ImplRun { main, drain: d, terminal_pos: pos }
    })
}

fn printed_matches(p: &Printed, r: &vtex::RunOut) -> bool {
    // an error where TeX has one (terminal exhausted, file ended inside a group): no particular text
    p.out == r.out && p.dead.is_some() == r.err.is_some()
}
fn show_printed(p: &Printed) -> String {
    match p.dead {
        None => p.out.clone(),
        Some(e) => format!("{} !{}", p.out, e),
    }
}

/// One history: returns the implementation fingerprint when everything is explained and the run is alive.
fn check_history(idx: u64, h: &[Act], obs: &[i64], with_drain: bool, no_elc: bool, acc: &mut Acc) -> Option<Fp> {
    // the whole program is one line that is already loaded when \endlinechar changes; the files, the
    // terminal lines and the drain program are loaded afterwards
    let prog: String = std::iter::once(if no_elc { "\\scrollmode \\endlinechar=-1 ".to_string() } else { "\\scrollmode ".to_string() }).chain(h.iter().map(|a| a.text())).chain(std::iter::once("%".to_string())).collect();
    let drain = drain_text(obs);
    let case = || json!({"kind": "history", "actions": h.iter().map(|a| a.json()).collect::<Vec<_>>(), "observed_streams": obs, "with_drain": with_drain, "no_endlinechar": no_elc, "program": prog,
        "legend": "output of the history: T/F = \\ifeof answers, [c/cat] = tokens stored by \\read; drain (run on the same VM afterwards) = tokens of \\x | E/O (\\ifeof true/false) for streams 0..15 | per observed stream five times: '.' if \\ifeof, else the tokens of one more \\read and ','"});
    acc.eval();
    acc.traces_validated += 1;
    let mut mt = ModelRun::new(Eof::Tex, no_elc);
    let mut ma = ModelRun::new(Eof::ClosesWithLastLine, no_elc);
    for a in h {
        mt.act(a);
        ma.act(a);
    }
    // rule N + collision counters (model facts)
    let reads = h.iter().filter(|a| matches!(a, Act::Read(_))).count();
    if reads >= 1 && h.iter().any(|a| matches!(a, Act::Open(_, f) if *f != usize::MAX)) {
        acc.nontrivial();
    }
    if mt.m.ifeof_in_d14b_window {
        acc.count("ifeof_after_last_line_before_empty_line");
    }
    if mt.m.read_appended_empty_line {
        acc.count("read_of_appended_empty_line");
    }
    if mt.m.read_spanned_lines {
        acc.count("read_spanned_lines");
    }
    if mt.m.unmatched_right_brace {
        acc.count("read_unmatched_right_brace");
    }
    if mt.m.read_from_terminal {
        acc.count("read_from_terminal");
    }
    if mt.m.range_errors > 0 {
        acc.count("stream_number_out_of_range");
    }
    if mt.empty_read {
        acc.count("read_of_line_without_tokens");
    }
    if mt.m.group_line_then_more_lines {
        acc.count("read_line_with_balanced_group_followed_by_more_lines");
    }
    if mt.m.multiline_group_then_more_lines {
        acc.count("read_multiline_group_closes_before_last_line");
    }
    if mt.m.unmatched_brace_then_more_lines {
        acc.count("read_unmatched_brace_before_last_line");
    }
    for a in h {
        if let Act::Open(_, f) = a {
            if *f != usize::MAX {
                let t = STREAM_FILES[*f].1;
                if !t.is_ascii() {
                    acc.count("stream_file_with_multibyte_text");
                }
                if t.contains('\r') {
                    acc.count("stream_file_with_crlf");
                }
                if !t.is_empty() && t.chars().all(|c| c == ' ' || c == '\n') {
                    acc.count("stream_file_blank_only");
                }
            }
        }
    }
    {
        // "the same thing again": \openin on a stream that is open
        let mut open = [false; 16];
        for a in h {
            match a {
                Act::Open(s, f) if (0..16).contains(s) => {
                    if open[*s as usize] && *f != usize::MAX {
                        acc.count("openin_on_an_open_stream");
                    }
                    open[*s as usize] = *f != usize::MAX;
                }
                Act::Close(s) if (0..16).contains(s) => open[*s as usize] = false,
                _ => {}
            }
        }
    }
    {
        let open: Vec<usize> = (0..16).filter(|s| mt.m.is_open(*s)).collect();
        if open.len() >= 2 {
            acc.count("two_streams_open");
        }
    }
    // stream numbers outside 0..15 are not in the statement ("on up to 16 streams"): TeX's answer (§435:
    // recoverable error, 0 is used; §482: the terminal) is expected, a difference is recorded, not judged
    let out_of_range = h.iter().any(|a| {
        let s = match a {
            Act::Open(s, _) | Act::Read(s) | Act::IfEof(s) | Act::Close(s) => *s,
        };
        !(0..16).contains(&s)
    });
    let got = match run_history_impl(&prog, &drain) {
        Ok(g) => g,
        Err(p) if p.cutoff => {
            acc.cutoffs += 1;
            return None;
        }
        Err(p) => {
            acc.fail(idx, case(), show_printed(&mt.p), p.describe(), "the VM panicked");
            return None;
        }
    };
    // --- the history itself
    let window_main = mt.m.ifeof_in_d14b_window || mt.m.read_appended_empty_line;
    let mut impl_is_adjusted = false;
    if printed_matches(&mt.p, &got.main) {
        acc.class("history agrees with TeX");
    } else if window_main && printed_matches(&ma.p, &got.main) {
        // finding D14b: applies = the history evaluates \ifeof n, or performs a further \read n, after the
        // last line of stream n was read (TeX: the stream is open until the appended empty line is
        // read); adjusted = the stream is closed together with its last real line
        acc.known("D14b", idx, || {
            let mut j = case();
            j["expected_tex"] = json!(show_printed(&mt.p));
            j["observed"] = json!(got.main.show());
            j
        });
        acc.class("history: D14b");
        impl_is_adjusted = true;
    } else if out_of_range {
        acc.class("stream number outside 0..15: differs from TeX §435/§482 (not judged)");
        acc.count("out_of_range_stream_number_differs_from_tex");
        return None;
    } else {
        acc.fail(idx, case(), show_printed(&mt.p), got.main.show(), "output of the history differs from TeX §482-486");
        return None;
    }
    let dead = if impl_is_adjusted { ma.p.dead } else { mt.p.dead };
    if dead.is_some() {
        acc.class("dead end (fatal error)");
        acc.count("history_ends_in_fatal_error");
        return None;
    }
    if !with_drain {
        return None;
    }
    let gd = match &got.drain {
        Some(d) => d,
        None => return None,
    };
    // --- the drain (the fingerprint), judged like a second program
    acc.eval();
    mt.m.ifeof_in_d14b_window = false;
    mt.m.read_appended_empty_line = false;
    mt.drain(obs);
    ma.drain(obs);
    let window_drain = mt.m.ifeof_in_d14b_window || mt.m.read_appended_empty_line;
    let dcase = || {
        let mut j = case();
        j["part"] = json!("drain");
        j
    };
    if !impl_is_adjusted && printed_matches(&mt.p, gd) && mt.m.terminal_pos == got.terminal_pos {
        acc.class("drain agrees with TeX");
    } else if (impl_is_adjusted || window_drain) && printed_matches(&ma.p, gd) && ma.m.terminal_pos == got.terminal_pos {
        acc.known("D14b", idx, || {
            let mut j = dcase();
            j["expected_tex"] = json!(show_printed(&mt.p));
            j["observed"] = json!(gd.show());
            j
        });
        acc.class("drain: D14b");
    } else if out_of_range {
        acc.class("stream number outside 0..15: differs from TeX §435/§482 (not judged)");
        acc.count("out_of_range_stream_number_differs_from_tex");
        return None;
    } else {
        acc.fail(idx, dcase(), format!("{} (terminal lines used {})", show_printed(&mt.p), mt.m.terminal_pos), format!("{} (terminal lines used {})", gd.show(), got.terminal_pos), "state reached by the history differs from TeX §482-486 (observed by draining every stream)");
        return None;
    }
    if gd.err.is_some() {
        return None;
    }
    Some(Fp { drain: gd.out.clone(), terminal_pos: got.terminal_pos })
}

// ---------------------------------------------------------------- model self-validation

fn self_validate(ctx: &mut Ctx) {
    // the plain.tex table of the model and the crate's table agree on every character this check uses
    let t = Table::plain();
    for c in MENU.iter().chain(LEAVES.iter()).flat_map(|s| s.chars()).chain(STREAM_FILES.iter().flat_map(|f| f.1.chars())).chain("\r0123456789=-TFEO.,;|".chars()) {
        let k = texlang::types::CatCode::PLAIN_TEX_DEFAULTS.get(c as usize).copied().unwrap_or_default() as u8;
        if c != '\n' && c != '@' && t.cat(c) != k {
            ctx.machinery_error(format!("category code of {c:?}: model {} crate {}", t.cat(c), k));
        }
    }
    let cfg = model_cfg();
    let trim = |s: &str| s.trim_end().to_string();
    // crates/texlang-stdlib/src/input.rs, tests basic_case / input_together / nested (expansion equality
    // modulo trailing blanks)
    let mut files = BTreeMap::new();
    files.insert("file1".to_string(), "content1\n".to_string());
    files.insert("file2".to_string(), "content2%\n".to_string());
    files.insert("file3".to_string(), "\\input nested/file4".to_string());
    files.insert("nested/file4".to_string(), "content4".to_string());
    for (name, main, want) in [("basic_case", "\\input file1 hello", "content1 hello"), ("input_together", "\\input file2 hello", "content2hello"), ("nested", "\\input file3", "content4")] {
        let r = readtoks::run_input(&files, main, &cfg, EndInput::TexGlobalFlag);
        if trim(&r.out) != want || r.stop != Stop::EndOfInput {
            ctx.machinery_error(format!("model self-validation failed on input.rs test {name}: want {want:?} got {:?}", show_model(&r)));
        }
    }
    // tests end_input_simple / end_input_in_second_file pin the D14a behaviour: they validate the *adjusted*
    // model; the TeX model must read the rest of the line (The TeXbook p. 214: "\endinput ... stop
    // reading from the current file after the current line")
    let mut files = BTreeMap::new();
    files.insert("file1".to_string(), "Hello\\def\\Macro{Hola\\endinput Mundo}\\Macro World\n".to_string());
    for (name, main, want_adj, want_tex) in [("end_input_simple", "Hello\\endinput World", "Hello", "HelloWorld"), ("end_input_in_second_file", "Before\\input file1 After", "BeforeHelloHolaMundoAfter", "BeforeHelloHolaMundoWorld After")] {
        let a = readtoks::run_input(&files, main, &cfg, EndInput::PerSourceDropLine);
        let t = readtoks::run_input(&files, main, &cfg, EndInput::TexGlobalFlag);
        if trim(&a.out) != want_adj || trim(&t.out) != want_tex || !t.endinput_with_rest {
            ctx.machinery_error(format!("model self-validation failed on input.rs test {name}: adjusted {:?} tex {:?}", a.out, t.out));
        }
    }
    // tests read_1 .. read_4, read_from_terminal (token lists as the crate's tests record them; the \ifeof
    // answer of read_1 is the D14b behaviour and validates the adjusted model)
    let plain = |t: &ReadOutcome| -> String {
        match t {
            ReadOutcome::Toks(t) => t.iter().map(|x| match x { TokV::Ch(c, _) => c.to_string(), TokV::Cs(n) => format!("\\{n}") }).collect(),
            o => format!("{o:?}"),
        }
    };
    for eof in [Eof::Tex, Eof::ClosesWithLastLine] {
        let mut m = ReadMachine::new(cfg.clone(), eof, &["first-line", "second-line {", "third-line }", "fourth}line"]);
        m.openin(0, Some("1\n2%\n3"));
        let r: Vec<String> = (0..3).map(|_| plain(&m.read(0))).collect();
        let closed = m.ifeof(0);
        if r != ["1 ", "2", "3 "] || closed != (eof == Eof::ClosesWithLastLine) {
            ctx.machinery_error(format!("model self-validation failed on input.rs test read_1 ({eof:?}): {r:?} closed={closed}"));
        }
        m.openin(1, Some("1{\n2\n3}"));
        let r = plain(&m.read(1));
        if r != "1{ 2 3} " {
            ctx.machinery_error(format!("model self-validation failed on input.rs test read_2 ({eof:?}): {r:?}"));
        }
        m.openin(2, Some("1}1\n2"));
        let r: Vec<String> = (0..2).map(|_| plain(&m.read(2))).collect();
        if r != ["1", "2 "] {
            ctx.machinery_error(format!("model self-validation failed on input.rs test read_3 ({eof:?}): {r:?}"));
        }
        m.openin(3, Some(""));
        let r = plain(&m.read(3));
        if r != "\\par" || !m.ifeof(3) {
            ctx.machinery_error(format!("model self-validation failed on input.rs test read_4 ({eof:?}): {r:?}"));
        }
        m.closein(0);
        let r: Vec<String> = (0..3).map(|_| plain(&m.read(0))).collect();
        if r != ["first-line ", "second-line { third-line } ", "fourth"] {
            ctx.machinery_error(format!("model self-validation failed on input.rs test read_from_terminal ({eof:?}): {r:?}"));
        }
        if m.read(0) != ReadOutcome::TerminalExhausted {
            ctx.machinery_error("model self-validation failed on input.rs test failed_to_read_from_terminal");
        }
        m.openin(4, Some("hello { world"));
        if m.read(4) != ReadOutcome::FileEndedInGroup {
            ctx.machinery_error("model self-validation failed on input.rs test file_has_unmatched_braces");
        }
    }
}

// ---------------------------------------------------------------- main

fn main() {
    let mut ctx = Ctx::new("C19", Level::ModelChecking);
    ctx.assume("a file is the sequence of its lines (pieces between '\\n'; a final '\\n' opens no further line; the empty file has no line). TeX82 §538 treats an empty \\input file as one blank line; the property is stated on lines standing in place, so the crate's convention is the reference here");
    ctx.assume("input levels: the source pushed by the driver is level 1; 'documented limit of 100' = at most 100 files open at once (main + 99 nested), the 100th nested \\input is the fatal error 'too many input levels (100)' (TeX §328 overflow)");
    ctx.assume("errors outside the property end the comparison: an unmatched }, an extra \\fi (error-stop mode), a missing file stop the run in the crate (TeX would recover); the output up to that point and the kind of the error are compared");
    ctx.assume("read-stream histories run in \\scrollmode (TeX: interaction > nonstop, terminal reads allowed, recoverable errors do not stop); stream numbers outside 0..15 are the recoverable 'bad number' error and mean 0 for \\openin/\\closein/\\ifeof (§435), the terminal for \\read (§482)");
    ctx.assume("the terminal is a script of non-empty lines owned by the harness; the process's stdin is never reachable (vtex::ScriptTerminal, stdin closed)");
    ctx.assume("a \\read that meets the end of the file inside a brace group is an error in TeX (§486, recoverable, unbalanced result) and a fatal error in the crate: judged as 'error', the history is a dead end");
    ctx.assume("\\endlinechar and the category codes do not change while streams are in use (their interaction with the scanner is C03); the read families run twice: with the initial \\endlinechar=13 and with \\endlinechar=-1 set in the prelude, on the program line that is already loaded");

    let quick = ctx.quick();
    let obs: Vec<i64> = if quick { vec![0, 15] } else { vec![0, 1, 15] };

    if let Some((_fam, case)) = ctx.replay_case() {
        let mut acc = Acc::default();
        match case["kind"].as_str() {
            Some("tree") => judge_tree(0, &TreeCase::from_json(&case), &mut acc, false),
            Some("inline") => judge_tree(0, &TreeCase::from_json(&case), &mut acc, true),
            Some("read-scope") => judge_read_scope(0, case["globaldefs"].as_i64().unwrap_or(0), case["prefix"].as_bool().unwrap_or(false), case["predef"].as_bool().unwrap_or(false), case["depth"].as_u64().unwrap_or(1) as usize, &mut acc),
            Some("openin-name") => {
                let files: BTreeMap<String, String> = case["files"].as_object().map(|o| o.iter().map(|(k, v)| (k.clone(), v.as_str().unwrap_or("").to_string())).collect()).unwrap_or_default();
                judge_openin_name(0, case["name"].as_str().unwrap_or(""), &files, &mut acc);
            }
            Some("history") => {
                let h: Vec<Act> = case["actions"].as_array().map(|a| a.iter().map(Act::from_json).collect()).unwrap_or_default();
                let obs: Vec<i64> = case["observed_streams"].as_array().map(|a| a.iter().map(|x| x.as_i64().unwrap_or(0)).collect()).unwrap_or_default();
                check_history(0, &h, &obs, case["with_drain"].as_bool().unwrap_or(true), case["no_endlinechar"].as_bool().unwrap_or(false), &mut acc);
            }
            _ => {
                eprintln!("replay: unknown case kind");
                std::process::exit(2);
            }
        }
        ctx.finish_replay(acc);
    }

    self_validate(&mut ctx);
    // every file of the read menu is opened at depth 1 on every observed stream and the drain that follows
    // reads it to its end: it must have fewer lines than the drain has reads (one more for TeX's empty line)
    for (n, t) in STREAM_FILES.iter().take(XS_FILES) {
        if scan::split_lines(t).len() + 1 > DRAIN_READS {
            ctx.machinery_error(format!("read file {n} has more lines than the drain reads"));
        }
    }

    let m = MENU_CORE;
    let m2 = MENU.len();
    // F1: main of <= 2 lines, children of 1 line, grandchildren from the leaf set
    {
        let shape = Shape::new(vec![files_upto(2, m), files_upto(1, m), leaves()]);
        ctx.family("tree-wide", &format!("main: every file of <= 2 menu lines ({} lines in the menu, with/without final newline, empty file); each \\input line: every file of <= 1 line; below: the leaf set {LEAVES:?}; fan-out <= 2, depth <= 3", m), shape.count(), |i, acc| {
            let mut files = BTreeMap::new();
            let main = shape.build(0, i, "", &mut files, &mut vec![]);
            let case = TreeCase { main, files };
            judge_tree(i, &case, acc, true);
            if i % 9973 == 77 {
                acc.sample(i, || case.json());
            }
        });
    }
    // F2: main of 1 line, child of <= 2 lines, leaves
    {
        let shape = Shape::new(vec![files_upto(1, m), files_upto(2, m), leaves()]);
        ctx.family("tree-deep-child", "main: every file of <= 1 menu line; its \\input: every file of <= 2 lines; below: the leaf set; depth <= 3", shape.count(), |i, acc| {
            let mut files = BTreeMap::new();
            let main = shape.build(0, i, "", &mut files, &mut vec![]);
            judge_tree(i, &TreeCase { main, files }, acc, true);
        });
    }
    // F2b: all placements of \\input / \\endinput in a line (extended menu), small trees
    {
        let shape = Shape::new(vec![files_upto(1, m2), files_upto(1, m2), leaves()]);
        ctx.family("placements-1", &format!("main and its child: every file of <= 1 line of the extended menu ({m2} lines: \\input / \\endinput at the start, in the middle and at the end of a line); below: the leaf set"), shape.count(), |i, acc| {
            let mut files = BTreeMap::new();
            let main = shape.build(0, i, "", &mut files, &mut vec![]);
            judge_tree(i, &TreeCase { main, files }, acc, true);
        });
        let shape = Shape::new(vec![files_upto(2, m2), leaves()]);
        ctx.family("placements-2", "main: every file of <= 2 lines of the extended menu; each \\input: the leaf set", shape.count(), |i, acc| {
            let mut files = BTreeMap::new();
            let main = shape.build(0, i, "", &mut files, &mut vec![]);
            judge_tree(i, &TreeCase { main, files }, acc, true);
        });
    }
    // F2c: special file contents (multi-byte, CR LF, blank-only) and "the same thing again"
    {
        let specials: Vec<Spec> = SPECIAL_LEAVES.iter().map(|s| Spec::Literal(s)).collect();
        let shape = Shape::new(vec![files_upto(2, m2), specials]);
        ctx.family("special-files", &format!("main: every file of <= 2 lines of the extended menu; each \\input: one of {SPECIAL_LEAVES:?}"), shape.count(), |i, acc| {
            let mut files = BTreeMap::new();
            let main = shape.build(0, i, "", &mut files, &mut vec![]);
            let case = TreeCase { main, files };
            if case.files.values().any(|t| !t.is_ascii()) {
                acc.count("input_file_with_multibyte_text");
            }
            if case.files.values().any(|t| t.contains('\r')) {
                acc.count("input_file_with_crlf");
            }
            if case.files.values().any(|t| !t.is_empty() && t.chars().all(|c| c == ' ' || c == '\n')) {
                acc.count("input_file_blank_only");
            }
            if case.files.values().any(|t| ends_with_unterminated_blank_line(t)) {
                acc.count("input_file_ends_with_spaces_only_line_without_newline");
            }
            judge_tree(i, &case, acc, true);
        });
        let specials: Vec<Spec> = SPECIAL_LEAVES.iter().map(|s| Spec::Literal(s)).collect();
        let shape = Shape::new(vec![files_upto(1, m2), files_upto(1, m2), specials]);
        ctx.family("special-files-nested", "main and its child: every file of <= 1 line of the extended menu; below: the special leaves (nested one level deeper)", shape.count(), |i, acc| {
            let mut files = BTreeMap::new();
            let main = shape.build(0, i, "", &mut files, &mut vec![]);
            let case = TreeCase { main, files };
            if case.files.values().any(|t| ends_with_unterminated_blank_line(t)) {
                acc.count("input_file_ends_with_spaces_only_line_without_newline");
            }
            judge_tree(i, &case, acc, true);
        });
        // the same file twice, a file that inputs itself, a file name of multi-byte characters
        let line_shapes = ["\\input @", "\\input @ b", "a\\input @", "a\\input @ b"];
        let contents: Vec<String> = LEAVES.iter().chain(SPECIAL_LEAVES.iter()).map(|s| s.to_string()).chain(["x\\endinput\\input zz y".to_string()]).collect();
        let names = ["a", "é€😀"];
        let nl = line_shapes.len() as u64;
        let n = nl * nl * contents.len() as u64 * names.len() as u64 + nl * 2;
        let c = &contents;
        ctx.family("input-again", &format!("the same file input twice (two lines from {line_shapes:?}, with and without final newline of the second) x file contents (leaf sets + one that inputs a missing file) x file name in {names:?}; and a file whose only line inputs itself (4 line shapes x with/without newline)"), n, |i, acc| {
            let twice = nl * nl * c.len() as u64 * names.len() as u64;
            let case = if i < twice {
                let d = vcore::digits(i, &[nl, nl, c.len() as u64, names.len() as u64]);
                let name = names[d[3] as usize];
                let main = format!("{}\n{}", line_shapes[d[0] as usize].replace('@', name), line_shapes[d[1] as usize].replace('@', name));
                let mut files = BTreeMap::new();
                files.insert(name.to_string(), c[d[2] as usize].clone());
                acc.count("same_file_input_twice");
                if !name.is_ascii() {
                    acc.count("file_name_of_multibyte_characters");
                }
                TreeCase { main, files }
            } else {
                let j = i - twice;
                let mut files = BTreeMap::new();
                files.insert("a".to_string(), format!("{}{}", line_shapes[(j / 2) as usize].replace('@', "a"), if j % 2 == 0 { "" } else { "\n" }));
                acc.count("file_inputs_itself");
                TreeCase { main: "\\input a m".into(), files }
            };
            judge_tree(i, &case, acc, false);
        });
    }
    // F2d: file names with a character token of every category (scan_file_name §526 takes every character
    // token up to a space: `if (cur_cmd>other_char) or (cur_chr>255) then begin back_input; goto done; end`; an
    // active character made unexpandable ends the name and is read again after the file)
    {
        const NAME_CHARS: [char; 10] = ['$', '&', '#', '^', '_', '~', '{', '}', '1', 'é'];
        let n = NAME_CHARS.len() as u64 * 3 * 4 * 2;
        ctx.family("file-names", &format!("\\input of a name that holds one of {NAME_CHARS:?} (categories 3 4 6 7 8, active made \\relax, 1 2, 12, non-ASCII) at its start, in its middle or at its end x a file under the full name exists or not x a file under the name cut at that character exists or not x the name is ended by a space / by the end of the line"), n, |i, acc| {
            let d = vcore::digits(i, &[NAME_CHARS.len() as u64, 3, 4, 2]);
            let x = NAME_CHARS[d[0] as usize];
            let (name, cut) = match d[1] {
                0 => (format!("{x}q"), String::new()),
                1 => (format!("q{x}r"), "q".to_string()),
                _ => (format!("q{x}"), "q".to_string()),
            };
            let mut files = BTreeMap::new();
            if d[2] & 1 == 1 {
                files.insert(name.clone(), "F\n".to_string());
            }
            if d[2] & 2 == 2 && !cut.is_empty() {
                files.insert(cut, "Q\n".to_string());
            }
            let line = if d[3] == 0 { format!("\\input {name} b") } else { format!("a\\input {name}") };
            let case = TreeCase { main: format!("\\let~\\relax\n{line}\nz\n"), files };
            if !x.is_alphanumeric() {
                acc.count("file_name_contains_char_token_of_category_other_than_11_12");
            }
            judge_tree(i, &case, acc, false);
        });
        // the same names for \openin
        ctx.family("openin-names", "\\openin 0=<the same names> followed by \\ifeof 0, same file variants", NAME_CHARS.len() as u64 * 3 * 4, |i, acc| {
            let d = vcore::digits(i, &[NAME_CHARS.len() as u64, 3, 4]);
            let x = NAME_CHARS[d[0] as usize];
            let (name, cut) = match d[1] {
                0 => (format!("{x}q"), String::new()),
                1 => (format!("q{x}r"), "q".to_string()),
                _ => (format!("q{x}"), "q".to_string()),
            };
            let mut files: BTreeMap<String, String> = BTreeMap::new();
            if d[2] & 1 == 1 {
                files.insert(name.clone(), "F\n".to_string());
            }
            if d[2] & 2 == 2 && !cut.is_empty() {
                files.insert(cut, "Q\n".to_string());
            }
            if !x.is_alphanumeric() {
                acc.count("file_name_contains_char_token_of_category_other_than_11_12");
            }
            judge_openin_name(i, &name, &files, acc);
        });
    }
    // F2e: \\input issued while tokens are pending in the issuing source, and a file that expands a long macro
    {
        let long = format!("\\def\\L{{{}}}\\L", "a".repeat(40));
        let leaves: Vec<String> = vec![format!("{long}\n"), long.clone(), "k\n".to_string(), format!("x{long} y\nz\n"), format!("\\def\\L{{{}}}\\L\n", "b".repeat(33))];
        let mains = [
            "\\def\\m{\\input a xyz}\\m w",
            "\\input a\\relax rest",
            "\\input a\\par rest",
            "\\def\\m{\\input a }\\m w",
            "\\def\\m{x\\input a\\relax y}\\m z",
            "\\def\\m{\\input a\\relax}\\def\\n{p\\m q}\\n r",
            "\\input a\nz",
            "\\def\\m{\\input a xyz}\\m w\n\\m v",
        ];
        let nl = leaves.len() as u64;
        let l = &leaves;
        ctx.family("input-pending", &format!("\\input issued from a macro body with tokens after the name, the name ended by \\relax / \\par / a space in the body, nested macro bodies, the same macro twice ({} mains) x a file that defines and expands a macro of 40 (33) tokens, with / without final newline, mid-line, or a short file ({} leaves); also one level deeper", mains.len(), leaves.len()), mains.len() as u64 * nl * 2, |i, acc| {
            let d = vcore::digits(i, &[mains.len() as u64, nl, 2]);
            let mut files = BTreeMap::new();
            let main = if d[2] == 0 {
                files.insert("a".to_string(), l[d[1] as usize].clone());
                mains[d[0] as usize].to_string()
            } else {
                // one level deeper: main inputs b, whose text is the menu line
                files.insert("a".to_string(), l[d[1] as usize].clone());
                files.insert("b".to_string(), format!("{}\n", mains[d[0] as usize]));
                "\\def\\o{\\input b\\relax t}\\o u".to_string()
            };
            let case = TreeCase { main, files };
            let want = readtoks::run_input(&case.files, &case.main, &model_cfg(), EndInput::TexGlobalFlag);
            if want.input_from_macro_body_with_rest {
                acc.count("input_issued_from_macro_body_with_tokens_pending_after_it");
            }
            if want.big_expansion_in_input_file {
                acc.count("input_file_expands_more_than_32_tokens_at_once");
            }
            judge_tree(i, &case, acc, true);
        });
    }
    // F3: chains
    {
        let depth = ctx.pick(3usize, 5usize);
        let mut levels: Vec<Vec<Spec>> = (0..depth).map(|_| files_upto(1, m)).collect();
        levels.push(leaves());
        let shape = Shape::new(levels);
        ctx.family("chain", &format!("chains: {depth} levels of files of <= 1 menu line, then the leaf set"), shape.count(), |i, acc| {
            let mut files = BTreeMap::new();
            let main = shape.build(0, i, "", &mut files, &mut vec![]);
            judge_tree(i, &TreeCase { main, files }, acc, true);
        });
    }
    if !quick {
        // F4 (thorough): two-line children under two-line mains; three-line mains
        let shape = Shape::new(vec![files_upto(2, m), files_upto(2, m), vec![Spec::Literal("p\nq\n")]]);
        ctx.family("tree-wide-2", "main and its children: every file of <= 2 menu lines; below: the two-line leaf \"p\\nq\\n\"; fan-out <= 2, depth <= 3", shape.count(), |i, acc| {
            let mut files = BTreeMap::new();
            let main = shape.build(0, i, "", &mut files, &mut vec![]);
            judge_tree(i, &TreeCase { main, files }, acc, true);
        });
        let shape = Shape::new(vec![files_upto(2, m2), files_upto(1, m2), leaves()]);
        ctx.family("placements-3", "main: every file of <= 2 lines of the extended menu; each \\input: every file of <= 1 line of it; below: the leaf set", shape.count(), |i, acc| {
            let mut files = BTreeMap::new();
            let main = shape.build(0, i, "", &mut files, &mut vec![]);
            judge_tree(i, &TreeCase { main, files }, acc, true);
        });
        let shape = Shape::new(vec![files_upto(3, m), leaves()]);
        ctx.family("main-3-lines", "main: every file of <= 3 menu lines; each \\input line: the leaf set; fan-out <= 3", shape.count(), |i, acc| {
            let mut files = BTreeMap::new();
            let main = shape.build(0, i, "", &mut files, &mut vec![]);
            judge_tree(i, &TreeCase { main, files }, acc, true);
        });
    }
    // F5: the documented depth limit
    {
        let depths = [1usize, 2, 50, 98, 99, 100, 101, 150];
        ctx.family("depth-limit", "\\input chains of depth 1, 2, 50, 98, 99, 100, 101, 150 below the main file x 3 link shapes (\\input last on an unterminated line / mid-line / first of two lines)", (depths.len() * 3) as u64, |i, acc| {
            let case = chain_case(depths[(i / 3) as usize], (i % 3) as usize);
            judge_tree(i, &case, acc, false);
            let d = depths[(i / 3) as usize];
            if d == 99 {
                acc.count("chain_at_limit");
            }
            if d == 100 {
                acc.count("chain_over_limit");
            }
        });
    }
    // F5b: the scope of the definition \\read makes
    ctx.family("read-scope", "\\read inside a group (depth 1, 2) under \\globaldefs in {-1, 0, 1}, with and without a \\global prefix, target defined before or not; the target is observed after the group has closed", 3 * 2 * 2 * 2, |i, acc| {
        let d = vcore::digits(i, &[3, 2, 2, 2]);
        judge_read_scope(i, d[0] as i64 - 1, d[1] == 1, d[2] == 1, d[3] as usize + 1, acc);
    });
    // F6: read streams, once with the initial \\endlinechar and once with \\endlinechar=-1 from the prelude on
    for (suffix, no_elc) in [("", false), ("-noelc", true)] {
        // F6a: every short history without merging, including the file that ends inside a group
        let all_files: Vec<usize> = (0..STREAM_FILES.len()).collect();
        let flat = actions(quick, &all_files);
        let k = flat.len() as u64;
        let len = ctx.pick(2u32, 3u32);
        let o = &obs;
        let f = &flat;
        let elc_text = if no_elc { "\\endlinechar=-1" } else { "\\endlinechar=13" };
        ctx.family(&format!("read-flat{suffix}"), &format!("{elc_text}; every history of length <= {len} over {k} actions (the alphabet of read-xs plus \\openin of a file that ends inside a brace group), no merging, output of the history only"), vcore::strings_upto(k, len), |i, acc| {
            let hist: Vec<Act> = vcore::nth_string(k, i).into_iter().map(|j| f[j as usize]).collect();
            check_history(i, &hist, o, false, no_elc, acc);
        });
        // F6b: explicit-state searches. Two file sets, so that the bound of the first one does not shrink when
        // files are added: (main) the 19 files fa..ft; (groups) the files fu..fz whose complete brace group is
        // not at the end of the file, plus an empty, a one-line and a two-line file for the interaction
        let main_set: Vec<usize> = (0..19).collect();
        let groups_set: Vec<usize> = (19..XS_FILES).chain([0usize, 1, 3]).collect();
        let searches: [(&str, &[usize], usize, usize); 2] = [
            ("", &main_set, if no_elc { ctx.pick(5, 7) } else { ctx.pick(6, 8) }, 0),
            ("-groups", &groups_set, if no_elc { ctx.pick(4, 5) } else { ctx.pick(5, 6) }, 1),
        ];
        for (tag, set, depth, _) in searches {
            let fam = format!("read-xs{tag}{suffix}");
            if !ctx.wants(&fam) {
                continue;
            }
            let t = std::time::Instant::now();
            let acts = actions(quick, set);
            let deadline = std::time::Instant::now() + std::time::Duration::from_secs_f64(ctx.remaining_s().min(ctx.pick(90.0, 3000.0)));
            let init = Fp { drain: "<initial>".into(), terminal_pos: 0 };
            let a = &acts;
            let (mut acc, stats) = vcore::xs::bfs(a.len(), depth, ctx.pick(400_000, 20_000_000), ctx.threads, deadline, init, |h, acc| {
                let hist: Vec<Act> = h.iter().map(|i| a[*i as usize]).collect();
                check_history(u64::MAX, &hist, o, true, no_elc, acc)
            });
            let names: Vec<&str> = set.iter().map(|f| STREAM_FILES[*f].0).collect();
            acc.sample(0, || json!({"xs": {"family": fam, "depth_completed": stats.depth_completed, "frontier_sizes": stats.frontier_sizes, "states": stats.states, "actions": a.iter().map(|x| x.text()).collect::<Vec<_>>()}}));
            ctx.extra(
                &format!("xs_read_streams{tag}{suffix}"),
                json!({"family": fam, "files": names, "depth_completed": stats.depth_completed, "depth_bound": depth, "states": stats.states, "transitions": stats.transitions, "frontier_sizes": stats.frontier_sizes, "capped": stats.capped, "actions": a.len(),
                "fingerprint": "implementation-observable state: the tokens of \\x, the \\ifeof answer of all 16 streams, and for every stream of the alphabet the full sequence of remaining \\read results obtained by draining it (\\ifeof/\\read up to 5 times) on the same VM after the history, plus the number of terminal lines consumed"}),
            );
            ctx.push_family(
                &fam,
                &format!("{elc_text}; BFS to depth {depth} over {} actions (\\openin s=f for s in {:?} and the {} files {names:?} + a missing one, \\openin 16/-1, \\read / \\ifeof / \\closein on those streams and on 16, -1), states merged on the drained implementation state", a.len(), o, set.len()),
                stats.capped.is_none(),
                stats.capped.clone(),
                t.elapsed().as_secs_f64(),
                acc,
            );
        }
    }

    ctx.require("input_mid_line", "\\input is executed while its line still has material after the file name");
    ctx.require("file_ended_in_group", "a file ends with more groups open than when it was opened");
    ctx.require("file_ended_in_conditional", "a file ends with more conditionals open than when it was opened");
    ctx.require("endinput_with_rest", "\\endinput is executed with material still to be read on its line (domain of finding D14a)");
    ctx.require("endinput_at_line_end", "\\endinput is executed as the last thing of its line");
    ctx.require("force_eof_closed_other_file", "TeX's global force_eof closes a file other than the one that executed \\endinput");
    ctx.require("backed_token_across_push", "a token backed up by the file-name scanner waits below the new file");
    ctx.require("nesting_ge_2", "three files are open at once");
    ctx.require("inlining_oracle_applied", "the model-free inlining oracle was applicable");
    ctx.require("chain_at_limit", "a chain of exactly the documented depth was run");
    ctx.require("chain_over_limit", "a chain one deeper than the documented depth was run");
    ctx.require("ifeof_after_last_line_before_empty_line", "\\ifeof is evaluated after the last line of a stream was read and before the appended empty line (domain of finding D14b)");
    ctx.require("read_of_appended_empty_line", "a \\read delivers the empty line TeX appends to a file");
    ctx.require("read_spanned_lines", "one \\read consumed several lines (brace group)");
    ctx.require("read_unmatched_right_brace", "a \\read line was aborted by an unmatched }");
    ctx.require("read_from_terminal", "a \\read went to the terminal");
    ctx.require("stream_number_out_of_range", "a stream number outside 0..15 was used");
    ctx.require("two_streams_open", "two streams are open at the same time");
    ctx.require("read_inside_group_under_positive_globaldefs", "a \\read is executed inside a group while \\globaldefs > 0");
    ctx.require("input_file_ends_with_spaces_only_line_without_newline", "an input file ends with an unterminated line of spaces only");
    ctx.require("input_issued_from_macro_body_with_tokens_pending_after_it", "\\input is executed while a macro body still has tokens after the file name");
    ctx.require("input_file_expands_more_than_32_tokens_at_once", "an input file expands a macro body of more than 32 tokens");
    ctx.require("file_name_contains_char_token_of_category_other_than_11_12", "a file name holds a character token whose category is neither letter nor other");
    for (c, m) in [
        ("read_line_with_balanced_group_followed_by_more_lines", "a \\read stops after a line that holds a complete group while the file has further lines"),
        ("read_multiline_group_closes_before_last_line", "a \\read spans several lines and the group closes before the last line of the file"),
        ("read_unmatched_brace_before_last_line", "an unmatched } aborts a line that is not the last one"),
        ("endinput_before_last_line_of_its_file", "\\endinput is executed in a file that still has further lines"),
        ("stream_file_with_multibyte_text", "a read stream is opened on a file with 2-, 3- and 4-byte characters"),
        ("stream_file_with_crlf", "a read stream is opened on a file with CR LF line ends"),
        ("stream_file_blank_only", "a read stream is opened on a file of blank lines only"),
        ("openin_on_an_open_stream", "\\openin on a stream that is already open"),
        ("input_file_with_multibyte_text", "\\input of a file with multi-byte characters"),
        ("input_file_with_crlf", "\\input of a file with CR LF line ends"),
        ("input_file_blank_only", "\\input of a file of blank lines only"),
        ("same_file_input_twice", "the same file is input twice"),
        ("file_name_of_multibyte_characters", "the name of an input file consists of multi-byte characters"),
        ("file_inputs_itself", "a file inputs itself (runs into the documented limit)"),
    ] {
        ctx.require(c, m);
    }
    ctx.require("read_of_line_without_tokens", "a \\read meets a line that delivers no token (comment-only line; empty or ignored-only line without end-line character) and stores the empty list");
    ctx.require("history_ends_in_fatal_error", "a history dies (terminal exhausted or file ended inside a group)");
    ctx.finish("file trees: every tree of the stated shapes (non-trivial = a file is opened or an \\endinput executed); read streams: every history of the action alphabet up to the depth bound, states merged on the drained implementation state (non-trivial = opens an existing file and reads); both compared with reftex::readtoks after every history");
}
