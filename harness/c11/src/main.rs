//! C11 — not built yet.
fn main() {
    eprintln!("c11: check not built yet");
    std::process::exit(2);
}
