//! C11 — TFM<->PL conversion is an idempotent normalisation that preserves the font.
//! Engine: BEX. DESIGN.md §3 C11. Oracles: byte fixed point, the independent reader reftex::tfmraw,
//! and reftex::ligkern (TeX's main loop) on the raw instruction words of both files for every pair.

#[path = "../../c05/src/gen.rs"]
mod gen;
use gen::*;

use reftex::ligkern::{self as lk, Font, Node};
use reftex::tfmraw::{self, store_scaled, Raw};
use serde_json::{json, Value};
use std::fmt::Write as _;
use tfm::ligkern::{CompiledProgram, RunItem, RunOptions};
use vcore::{catch, Acc, Ctx, Level};

const RUN_BUDGET: usize = 100_000;

// ------------------------------------------------------------------ the two conversions

struct Conv {
    pl: Result<String, String>,
    messages: Vec<String>,
}

fn tftopl(b: &[u8]) -> Result<Conv, vcore::Panic> {
    catch(|| {
        let o = tfm::algorithms::tfm_to_pl(b, 3, &|_| tfm::pl::CharDisplayFormat::Default).expect("formatting into a String cannot fail");
        Conv { pl: o.pl_data.map_err(|e| format!("{e:?}")), messages: o.error_messages.iter().map(|m| m.tftopl_message()).collect() }
    })
}
fn pltotf(pl: &str) -> Result<(Vec<u8>, Vec<String>), vcore::Panic> {
    catch(|| {
        let (b, w) = tfm::algorithms::pl_to_tfm(pl);
        (b, w.iter().map(|x| format!("{:?}", x.kind)).collect())
    })
}

// ------------------------------------------------------------------ "the same font" through tfmraw

#[derive(Debug, PartialEq, Eq, Default)]
struct Hdr {
    checksum: u32,
    design_size: i32,
    scheme: Option<Vec<u8>>,
    family: Option<Vec<u8>>,
    seven_bit_safe: Option<bool>,
    face: Option<u8>,
    extra: Vec<[u8; 4]>,
}
fn hdr(r: &Raw) -> Hdr {
    let bytes: Vec<u8> = r.header.iter().flatten().copied().collect();
    let bcpl = |off: usize, size: usize| -> Vec<u8> {
        let len = (bytes[off] as usize).min(size - 1);
        bytes[off + 1..off + 1 + len].to_vec()
    };
    Hdr {
        checksum: r.checksum(),
        design_size: r.design_size(),
        scheme: if r.lh >= 12 { Some(bcpl(8, 40)) } else { None },
        family: if r.lh >= 17 { Some(bcpl(48, 20)) } else { None },
        seven_bit_safe: if r.lh >= 18 { Some(bytes[68] > 127) } else { None },
        face: if r.lh >= 18 { Some(bytes[71]) } else { None },
        extra: r.header.iter().skip(18).copied().collect(),
    }
}

/// PLtoTF §110-§113 `seven_unsafe`, computed on the TFM arrays. PLtoTF sets it only while checking a
/// character c < 128 (`if (c<128) and ...`): the left-boundary program (c = 256) and the programs of
/// characters >= 128 are never walked for it. Unsafe = a seven-bit character whose lig/kern
/// program inserts an eight-bit character next to a seven-bit one, whose NEXTLARGER is an eight-bit
/// character, or whose extensible recipe has an eight-bit piece.
fn seven_bit_safe(r: &Raw) -> bool {
    let f = lig_font(r);
    for c in r.chars() {
        if c >= 128 {
            continue;
        }
        let Some(m) = r.metrics(c as usize) else { continue };
        match m.tag {
            1 => {
                for (_, w) in lk::chain(&f, c as i32) {
                    if w[0] <= 128 && w[1] < 128 && w[2] < 128 && w[3] >= 128 {
                        return false;
                    }
                }
            }
            2 if m.remainder >= 128 => return false,
            3 => {
                if let Some(e) = r.exten.get(m.remainder as usize) {
                    if e.iter().any(|x| *x >= 128) {
                        return false;
                    }
                }
            }
            _ => {}
        }
    }
    true
}

fn lig_font(r: &Raw) -> Font {
    Font::from_tfm(r.lig_kern.clone(), &r.lig_starts())
}

/// Nodes with kerns replaced by their fix_word value (kern tables may be reordered).
#[derive(Debug, PartialEq, Eq, Clone)]
enum VNode {
    Char(u8),
    Lig(u8, Vec<u8>, bool, bool),
    Kern(Option<i32>),
}
fn vnodes(r: &Raw, nodes: &[Node]) -> Vec<VNode> {
    nodes
        .iter()
        .map(|n| match n {
            Node::Char(c) => VNode::Char(*c),
            Node::Lig { c, orig, left, right } => VNode::Lig(*c, orig.clone(), *left, *right),
            Node::Kern(k) => VNode::Kern(r.kern.get(*k).copied()),
        })
        .collect()
}

/// The words that exercise every (left in chars ∪ boundary, right in chars ∪ boundary) pair.
fn pair_words(chars: &[u8]) -> Vec<(Vec<u8>, bool)> {
    let mut out = vec![];
    for l in chars {
        out.push((vec![*l], false)); // (l, right boundary)
        out.push((vec![*l], true)); // (left boundary, l) [and whatever follows]
    }
    for l in chars {
        for r in chars {
            out.push((vec![*l, *r], false));
        }
    }
    out
}

fn show_word(w: &[u8], lb: bool) -> String {
    format!("{}{:?}", if lb { "|" } else { "" }, w.iter().map(|c| if c.is_ascii_graphic() { (*c as char).to_string() } else { format!("\\{c:o}") }).collect::<String>())
}

struct Diff(String, String, String); // (what, expected/original, observed/canonical)

/// Compare original and canonical file; returns the first difference.
fn same_font(r0: &Raw, r1: &Raw, acc: &mut Acc) -> Option<Diff> {
    let (c0, c1) = (r0.chars(), r1.chars());
    if c0 != c1 {
        return Some(Diff("character sets differ".into(), format!("{c0:?}"), format!("{c1:?}")));
    }
    for c in &c0 {
        let (m0, m1) = (r0.metrics(*c as usize), r1.metrics(*c as usize));
        let (Some(m0), Some(m1)) = (m0.clone(), m1.clone()) else {
            return Some(Diff(format!("character {c}: a dimension index leaves its table"), format!("{m0:?}"), format!("{m1:?}")));
        };
        if m0.italic < 0 {
            acc.count("negative_italic_original_vs_canonical");
        }
        if m0.depth < 0 {
            acc.count("negative_depth_original_vs_canonical");
        }
        if (m0.width, m0.height, m0.depth, m0.italic, m0.tag) != (m1.width, m1.height, m1.depth, m1.italic, m1.tag) {
            return Some(Diff(format!("character {c}: width/height/depth/italic/tag differ"), format!("{m0:?}"), format!("{m1:?}")));
        }
        match m0.tag {
            2 if m0.remainder != m1.remainder => return Some(Diff(format!("character {c}: next larger character differs"), m0.remainder.to_string(), m1.remainder.to_string())),
            3 => {
                let (e0, e1) = (r0.exten.get(m0.remainder as usize), r1.exten.get(m1.remainder as usize));
                if e0 != e1 {
                    return Some(Diff(format!("character {c}: extensible recipe differs"), format!("{e0:?}"), format!("{e1:?}")));
                }
                acc.count("char_with_extensible_recipe");
            }
            _ => {}
        }
        if m0.tag == 2 {
            acc.count("char_with_next_larger");
        }
    }
    // parameters (a property list cannot carry more than 254, PLtoTF §11 max_param_words)
    if r0.np <= 254 {
        if r0.param != r1.param {
            return Some(Diff("font parameters differ".into(), format!("{:?}", r0.param), format!("{:?}", r1.param)));
        }
    } else {
        acc.count("info_more_than_254_parameters_not_compared");
    }
    // header: every field the original has. BCPL strings modulo ASCII case (TFtoPL §35 writes lower
    // case letters as upper case, silently). The seven-bit-safe flag of the canonical file is
    // *computed* by PLtoTF (recorded by Knuth's own programs in the corpus: ctan/rashii2-1.tfm has
    // the flag off, rashii2-4.plst has it on): it must equal the independent computation on the
    // original, and may not go from on to off.
    let (h0, h1) = (hdr(r0), hdr(r1));
    let up = |s: &Option<Vec<u8>>| s.as_ref().map(|v| v.to_ascii_uppercase());
    let mut same = h0.checksum == h1.checksum && h0.design_size == h1.design_size;
    same &= h0.scheme.is_none() || up(&h0.scheme) == up(&h1.scheme);
    same &= h0.family.is_none() || up(&h0.family) == up(&h1.family);
    same &= h0.face.is_none() || h0.face == h1.face;
    same &= h0.extra == h1.extra;
    if !same {
        return Some(Diff("header differs".into(), format!("{h0:?}"), format!("{h1:?}")));
    }
    if h0.scheme != h1.scheme || h0.family != h1.family {
        acc.count("info_header_string_case_normalised");
    }
    let safe = seven_bit_safe(r0);
    if !safe {
        acc.count("seven_bit_unsafe_fonts");
    }
    // "the same header": the flag of the canonical file must be the original's flag, or the one PLtoTF
    // computes (Knuth's own conversions turn it on); only a value that is neither is a difference.
    if h0.seven_bit_safe.is_some() && h1.seven_bit_safe != h0.seven_bit_safe && h1.seven_bit_safe != Some(safe) {
        return Some(Diff("seven-bit-safe flag of the canonical file is neither the original's nor the computed one".into(), format!("flag {:?}, font is seven-bit safe: {safe}", h0.seven_bit_safe), format!("flag {:?}", h1.seven_bit_safe)));
    }
    if r0.lh < 18 {
        acc.count("info_original_header_shorter_than_18_words");
    }
    if r0.lh > 18 && h0.extra.last() == Some(&[0, 0, 0, 0]) {
        acc.count("trailing_zero_header_word_original_vs_canonical");
    }
    // boundary character
    if r0.boundary_char() != r1.boundary_char() {
        // only observable if some program tests for it; the pair comparison below decides
        acc.count("info_boundarychar_word_differs");
    }
    // lig/kern behaviour on every pair
    let (f0, f1) = (lig_font(r0), lig_font(r1));
    if r0.nl == 0 && r1.nl == 0 {
        return None;
    }
    let mut any = false;
    for (w, lb) in pair_words(&c0) {
        let a = lk::run(&f0, &w, lb, f0.bchar, RUN_BUDGET);
        let b = lk::run(&f1, &w, lb, f1.bchar, RUN_BUDGET);
        let (Some(a), Some(b)) = (a, b) else {
            // loop detection is C05's statement; here the pair cannot be compared
            acc.count("info_reference_interpreter_did_not_terminate");
            continue;
        };
        any |= !a.fired.is_empty();
        if a.fired.iter().any(|f| f.k > 255) || b.fired.iter().any(|f| f.k > 255) {
            acc.count("instruction_beyond_255_fired");
        }
        if a.fired.iter().any(|f| f.left_boundary) {
            acc.count("left_boundary_rule_fired");
        }
        if a.fired.iter().any(|f| f.right_boundary) {
            acc.count("right_boundary_rule_fired");
        }
        let (va, vb) = (vnodes(r0, &a.nodes), vnodes(r1, &b.nodes));
        if va != vb {
            return Some(Diff(format!("lig/kern behaviour differs on word {}", show_word(&w, lb)), format!("{va:?}"), format!("{vb:?}")));
        }
    }
    if any {
        acc.count("fonts_with_firing_ligkern_program");
    }
    None
}

// ------------------------------------------------------------------ CompiledProgram::compile_from_tfm_file on all pairs

#[derive(Clone, Debug, PartialEq)]
enum Out {
    G(u8),
    K(i64),
}

/// Every pair word run through the compiled program of one file: (word, items as text).
fn compiled_runs(b: &[u8], r: &Raw) -> Result<Vec<(String, Vec<String>)>, vcore::Panic> {
    let chars = r.chars();
    catch(|| {
        let mut file = tfm::File::deserialize(b).0.expect("already converted once");
        let (cp, errs) = CompiledProgram::compile_from_tfm_file(&mut file);
        let mut out = vec![("<loops>".to_string(), vec![format!("{}", !errs.is_empty())])];
        for (w, lb) in pair_words(&chars) {
            let opts = RunOptions { disable_left_boundary: !lb, right_boundary_override: None };
            out.push((show_word(&w, lb), cp.run_with_options(w.iter().map(|c| *c as char), opts).take(100_000).map(|i| format!("{i:?}")).collect()));
        }
        out
    })
}

fn compiled_vs_model(b: &[u8], r: &Raw, phantom: bool) -> Option<Diff> {
    if r.nl == 0 {
        return None;
    }
    let mut font = lig_font(r);
    font.exec_stop_words = phantom;
    let chars = r.chars();
    let z = (r.design_size() / 16) as i64;
    let res = catch(|| {
        let mut file = tfm::File::deserialize(b).0.expect("already converted once");
        let (cp, errs) = CompiledProgram::compile_from_tfm_file(&mut file);
        let mut diff = None;
        if !errs.is_empty() {
            return Some(Diff("compile_from_tfm_file reports an infinite loop in a font TFtoPL accepted without message".into(), "no loop".into(), format!("{errs:?}")));
        }
        for (w, lb) in pair_words(&chars) {
            let Some(m) = lk::run(&font, &w, lb, font.bchar, RUN_BUDGET) else { continue };
            let want: Option<Vec<Out>> = m
                .nodes
                .iter()
                .map(|n| match n {
                    Node::Char(c) => Some(Out::G(*c)),
                    Node::Lig { c, .. } => Some(Out::G(*c)),
                    Node::Kern(k) => r.kern.get(*k).and_then(|v| store_scaled(*v, z)).map(Out::K),
                })
                .collect();
            let Some(want) = want else { continue };
            let mut got = vec![];
            let mut spelled = vec![];
            let opts = RunOptions { disable_left_boundary: !lb, right_boundary_override: None };
            for it in cp.run_with_options(w.iter().map(|c| *c as char), opts).take(100_000) {
                match it {
                    RunItem::Char(c) => {
                        got.push(Out::G(c as u8));
                        spelled.push(c as u8);
                    }
                    RunItem::Kern(k) => got.push(Out::K(k.0 as i64)),
                    RunItem::Ligature(l) => {
                        got.push(Out::G(l.c as u8));
                        spelled.extend(l.original.chars().map(|c| c as u8));
                    }
                }
            }
            if got != want {
                diff = Some(Diff(format!("compiled program differs from the reference interpreter on word {}", show_word(&w, lb)), format!("{want:?}"), format!("{got:?}")));
                break;
            }
            if spelled != w {
                diff = Some(Diff(format!("compiled program: recorded characters do not spell word {}", show_word(&w, lb)), format!("{w:?}"), format!("{spelled:?}")));
                break;
            }
        }
        diff
    });
    match res {
        Ok(d) => d,
        Err(p) => Some(Diff("compile_from_tfm_file / run panicked".into(), "returns".into(), p.describe())),
    }
}

// ------------------------------------------------------------------ the check of one original file

fn hex(b: &[u8]) -> String {
    b.iter().map(|x| format!("{x:02x}")).collect()
}
fn unhex(s: &str) -> Vec<u8> {
    (0..s.len() / 2).map(|i| u8::from_str_radix(&s[2 * i..2 * i + 2], 16).unwrap_or(0)).collect()
}

/// `origin` describes how b0 was obtained (replay rebuilds from `hex`/`pl`). `expect_clean`: the
/// generator claims the file is warning-free, so a message is a generator problem worth a class.
fn check_tfm(idx: u64, b0: &[u8], origin: &dyn Fn() -> Value, acc: &mut Acc) {
    acc.eval();
    let case = || {
        let mut v = origin();
        if v.get("pl").is_none() && v.get("file").is_none() {
            v["hex"] = json!(hex(b0));
        }
        v
    };
    macro_rules! fail {
        ($exp:expr, $obs:expr, $note:expr) => {{
            acc.fail(idx, case(), $exp, $obs, $note);
            acc.class(&format!("FAIL {}", $note));
            return;
        }};
    }
    let o1 = match tftopl(b0) {
        Ok(o) => o,
        Err(p) => fail!("returns", p.describe(), "tfm_to_pl panicked on the original"),
    };
    let p1 = match o1.pl {
        Ok(p) => p,
        Err(e) => {
            acc.skipped += 1;
            acc.class(&format!("skipped: unreadable ({})", e.split('(').next().unwrap_or("")));
            return;
        }
    };
    if !o1.messages.is_empty() {
        acc.skipped += 1;
        acc.class("skipped: TFtoPL has messages");
        return;
    }
    acc.nontrivial();
    if std::env::var("VERIF_C11_DUMP").is_ok() {
        eprintln!("---- p1 ----\n{p1}");
    }
    let (b1, w1) = match pltotf(&p1) {
        Ok(x) => x,
        Err(p) => fail!("returns", p.describe(), "pl_to_tfm panicked on the PL of a warning-free TFM"),
    };
    if !w1.is_empty() {
        acc.count("info_first_pltotf_has_warnings");
    }
    // the other two character display formats of tfm_to_pl (and another indent) are the same property
    // list in another spelling: they must lead to the same canonical file
    for (fmt, indent, name) in [(tfm::pl::CharDisplayFormat::Ascii, 0usize, "Ascii, indent 0"), (tfm::pl::CharDisplayFormat::Octal, 7, "Octal, indent 7")] {
        let alt = catch(|| {
            let f = fmt;
            let o = tfm::algorithms::tfm_to_pl(b0, indent, &move |_| match f {
                tfm::pl::CharDisplayFormat::Ascii => tfm::pl::CharDisplayFormat::Ascii,
                tfm::pl::CharDisplayFormat::Octal => tfm::pl::CharDisplayFormat::Octal,
                _ => tfm::pl::CharDisplayFormat::Default,
            })
            .expect("formatting into a String cannot fail");
            let pl = o.pl_data.expect("converted once already");
            tfm::algorithms::pl_to_tfm(&pl).0
        });
        match alt {
            Err(p) => fail!("returns", p.describe(), format!("tfm_to_pl / pl_to_tfm panicked with display format {name}")),
            Ok(b) => {
                if b != b1 {
                    fail!(format!("the canonical file ({} bytes)", b1.len()), format!("{} bytes: {}", b.len(), vcore::clip(&hex(&b), 400)), format!("the round trip through the property list in display format {name} gives a different TFM"));
                }
                acc.count("display_format_route_compared");
            }
        }
    }
    let o2 = match tftopl(&b1) {
        Ok(o) => o,
        Err(p) => fail!("returns", p.describe(), "tfm_to_pl panicked on the canonical file"),
    };
    let p2 = match o2.pl {
        Ok(p) => p,
        Err(e) => fail!("the canonical file is readable", e, "canonical file rejected by the TFM reader"),
    };
    if !o2.messages.is_empty() {
        fail!("no message on the second round trip", format!("{:?}", o2.messages), "TFtoPL has messages on the canonical file");
    }
    let (b2, w2) = match pltotf(&p2) {
        Ok(x) => x,
        Err(p) => fail!("returns", p.describe(), "pl_to_tfm panicked on the second trip"),
    };
    if !w2.is_empty() {
        fail!("no warning on the second round trip", format!("{w2:?}"), "PLtoTF warns on the second trip");
    }
    if b2 != b1 {
        let pos = b1.iter().zip(b2.iter()).position(|(a, b)| a != b).unwrap_or(b1.len().min(b2.len()));
        fail!(format!("b2 == b1 ({} bytes)", b1.len()), format!("{} bytes, first difference at byte {pos}; b1={} b2={}", b2.len(), vcore::clip(&hex(&b1), 400), vcore::clip(&hex(&b2), 400)), "canonical file is not a fixed point of the round trip");
    }
    if b1 == b0 {
        acc.count("original_already_canonical");
    } else {
        acc.count("original_not_canonical");
    }
    if p2 != p1 {
        acc.count("info_pl_texts_differ");
    }
    // the same font, through the independent reader. If the harness's own reader cannot read a file
    // the crate read without message, the comparison cannot be made: recorded, not a violation.
    let (r0, r1) = match (tfmraw::parse(b0), tfmraw::parse(&b1)) {
        (Ok(a), Ok(b)) => (a, b),
        (a, b) => {
            acc.count("info_tfmraw_cannot_read_a_file_the_crate_read");
            acc.class(&format!("not compared: tfmraw rejects original={:?} canonical={:?}", a.err(), b.err()));
            return;
        }
    };
    if let Some(Diff(what, a, b)) = same_font(&r0, &r1, acc) {
        fail!(format!("original: {a}"), format!("canonical: {b}"), format!("canonical file is not the same font: {what}"));
    }
    // observe_at: CompiledProgram::compile_from_tfm_file on both files, queried on all pairs: the two
    // compiled programs must answer alike. (Whether they answer like TeX is C05's statement: recorded
    // as an outcome class only.)
    if r0.nl > 0 || r1.nl > 0 {
        match (compiled_runs(b0, &r0), compiled_runs(&b1, &r1)) {
            (Ok(x), Ok(y)) => {
                if let Some(k) = (0..x.len().max(y.len())).find(|k| x.get(*k) != y.get(*k)) {
                    fail!(format!("original: {:?}", x.get(k)), format!("canonical: {:?}", y.get(k)), "compiled lig/kern programs of original and canonical file answer differently");
                }
            }
            (Err(p), _) | (_, Err(p)) => fail!("returns", p.describe(), "compile_from_tfm_file / run panicked"),
        }
        for (b, r) in [(b0, &r0), (b1.as_slice(), &r1)] {
            if compiled_vs_model(b, r, false).is_some() {
                acc.count("info_compiled_program_differs_from_tex_model");
            }
        }
    }
    if r0.nl > 255 || r1.nl > 255 {
        acc.count("more_than_255_ligkern_words");
    }
    if r0.boundary_char().is_some() {
        acc.count("font_with_boundarychar");
    }
    acc.class(&format!("ok chars={} nl={} canonical={}", (r0.chars().len()).min(300) / 32 * 32, r1.nl.min(1024) / 64 * 64, b1 == b0));
}

/// A generated property list: must be warning-free, its TFM is the original.
/// `abstract_font`: the lig/kern program the generator meant (raw words before PLtoTF packs them).
/// (character, [width, height, depth, italic] as fix_words) the generator wrote into the property list.
type Intended = Vec<(u8, [i32; 4])>;

fn check_pl(idx: u64, pl: &str, origin: &dyn Fn() -> Value, abstract_font: Option<(&Font, &[i32], &[u8])>, acc: &mut Acc) {
    check_pl_with(idx, pl, origin, abstract_font, None, acc)
}

fn check_pl_with(idx: u64, pl: &str, origin: &dyn Fn() -> Value, abstract_font: Option<(&Font, &[i32], &[u8])>, intended: Option<&Intended>, acc: &mut Acc) {
    let case = || {
        let mut v = origin();
        v["pl"] = json!(pl);
        v
    };
    let (b0, w0) = match pltotf(pl) {
        Ok(x) => x,
        Err(p) => {
            acc.eval();
            acc.fail(idx, case(), "returns", p.describe(), "pl_to_tfm panicked on a generated property list");
            return;
        }
    };
    if !w0.is_empty() {
        // e.g. an infinite ligature loop, a NEXTLARGER cycle: not a warning-free font
        acc.eval();
        acc.skipped += 1;
        acc.class(&format!("skipped: generated PL draws {}", vcore::clip(&w0[0], 40)));
        return;
    }
    if let Some(want) = intended {
        // the TFM must give every character the four dimensions written in the property list
        // (no table is large enough here for PLtoTF's lossy compression to start)
        match tfmraw::parse(&b0) {
            Err(e) => {
                // the harness's reader cannot read what the crate wrote: nothing to compare with
                acc.count("info_tfmraw_cannot_read_a_file_the_crate_read");
                acc.class(&format!("not compared with the generator: tfmraw rejects pl_to_tfm output: {e:?}"));
            }
            Ok(r) => {
                for (c, dims) in want {
                    let got = r.metrics(*c as usize).map(|m| [m.width, m.height, m.depth, m.italic]);
                    if got != Some(*dims) {
                        acc.eval();
                        acc.fail(idx, case(), format!("character {}: width/height/depth/italic {:?} (fix_words, as written in the property list)", *c as char, dims), format!("{got:?}"), "the TFM does not give a character the dimensions of the property list");
                        acc.class("FAIL TFM differs from CHARACTER dimensions");
                        return;
                    }
                    for (k, name) in ["negative_width_compared", "negative_height_compared", "negative_depth_compared", "negative_italic_compared"].iter().enumerate() {
                        if dims[k] < 0 {
                            acc.count(name);
                        }
                    }
                }
                acc.count("dimensions_checked_against_generator");
            }
        }
    }
    if let Some((af, kerns, letters)) = abstract_font {
        // the TFM must behave like the program written in the property list
        match tfmraw::parse(&b0) {
            Err(e) => {
                // the harness's reader cannot read what the crate wrote: nothing to compare with
                acc.count("info_tfmraw_cannot_read_a_file_the_crate_read");
                acc.class(&format!("not compared with the generator: tfmraw rejects pl_to_tfm output: {e:?}"));
            }
            Ok(r) => {
                let f = lig_font(&r);
                for (w, lb) in pair_words(letters) {
                    let a = lk::run(af, &w, lb, af.bchar, RUN_BUDGET);
                    let b = lk::run(&f, &w, lb, f.bchar, RUN_BUDGET);
                    let va = a.as_ref().map(|a| a.nodes.iter().map(|n| match n {
                        Node::Kern(k) => VNode::Kern(kerns.get(*k).copied()),
                        Node::Char(c) => VNode::Char(*c),
                        Node::Lig { c, orig, left, right } => VNode::Lig(*c, orig.clone(), *left, *right),
                    }).collect::<Vec<_>>());
                    let vb = b.as_ref().map(|b| vnodes(&r, &b.nodes));
                    if va != vb {
                        acc.eval();
                        acc.fail(idx, case(), format!("{va:?}"), format!("{vb:?}"), format!("the TFM does not behave like the LIGTABLE of the property list on word {}", show_word(&w, lb)));
                        acc.class("FAIL TFM differs from LIGTABLE");
                        return;
                    }
                }
                acc.count("ligtable_checked_against_generator");
            }
        }
    }
    // the TFM of a warning-free property list must convert back without a message: such a property list is
    // the image p1 of a warning-free TFM, so a message here is a message on a second round trip
    if let Ok(Conv { pl: Ok(_), messages }) = tftopl(&b0) {
        if !messages.is_empty() {
            acc.eval();
            acc.fail(idx, case(), "no TFtoPL message on the TFM of a warning-free property list", format!("{messages:?}"), "the TFM that pl_to_tfm wrote for a warning-free property list draws TFtoPL messages");
            acc.class("FAIL TFM of a warning-free PL draws messages");
            return;
        }
    }
    // the TFM of a warning-free property list must itself have a round trip: if the crate's reader
    // refuses it there is no canonical form at all
    if let Ok(Conv { pl: Err(e), .. }) = tftopl(&b0) {
        acc.eval();
        acc.fail(idx, case(), "tfm_to_pl reads the TFM that pl_to_tfm wrote for a warning-free property list", e, "the TFM of a warning-free property list cannot be converted back: no round trip exists");
        acc.class("FAIL TFM of a warning-free PL is unreadable");
        return;
    }
    check_tfm(idx, &b0, &case, acc);
}

// ------------------------------------------------------------------ generators: property lists

const DIMS: [&str; 4] = ["0.0", "1.0", "1.5", "-0.5"];

/// F-dimensions: A has every (wd,ht,dp,ic) of the lattice, B a 16-element sub-lattice, C present or not.
fn gen_dimensions(i: u64) -> (String, Intended) {
    let d = vcore::digits(i, &[4, 4, 4, 4, 2, 2, 2, 2, 2]);
    let fix = |t: &str| -> i32 {
        match t {
            "0.0" => 0,
            "1.0" => 1 << 20,
            "1.5" => 3 << 19,
            "-0.5" => -(1 << 19),
            _ => unreachable!("lattice value"),
        }
    };
    let mut intended: Intended = vec![];
    let mut s = String::from("(DESIGNSIZE R 10.0)\n");
    let a = [DIMS[d[0] as usize], DIMS[d[1] as usize], DIMS[d[2] as usize], DIMS[d[3] as usize]];
    writeln!(s, "(CHARACTER C A (CHARWD R {}) (CHARHT R {}) (CHARDP R {}) (CHARIC R {}))", a[0], a[1], a[2], a[3]).unwrap();
    intended.push((b'A', [fix(a[0]), fix(a[1]), fix(a[2]), fix(a[3])]));
    let b = [["1.0", "1.5"][d[4] as usize], ["0.0", "1.5"][d[5] as usize], ["0.0", "-0.5"][d[6] as usize], ["0.0", "1.0"][d[7] as usize]];
    writeln!(s, "(CHARACTER C B (CHARWD R {}) (CHARHT R {}) (CHARDP R {}) (CHARIC R {}))", b[0], b[1], b[2], b[3]).unwrap();
    intended.push((b'B', [fix(b[0]), fix(b[1]), fix(b[2]), fix(b[3])]));
    if d[8] == 1 {
        s.push_str("(CHARACTER C C (CHARWD R 0.0) (CHARHT R -0.5) (CHARIC R -0.5))\n");
        intended.push((b'C', [0, -(1 << 19), 0, -(1 << 19)]));
    }
    (s, intended)
}
const N_DIMENSIONS: u64 = 256 * 16 * 2;

/// F-tags: NEXTLARGER graphs on {A,B,C,D} (every partial function, cycles included) x a VARCHAR on E.
fn gen_tags(i: u64) -> String {
    let d = vcore::digits(i, &[5, 5, 5, 5, 3, 3, 3, 2]);
    let names = ['A', 'B', 'C', 'D'];
    let mut s = String::from("(DESIGNSIZE R 10.0)\n");
    for k in 0..4 {
        write!(s, "(CHARACTER C {} (CHARWD R 1.{k})", names[k]).unwrap();
        if d[k] > 0 {
            write!(s, " (NEXTLARGER C {})", names[(d[k] - 1) as usize]).unwrap();
        }
        s.push_str(")\n");
    }
    let piece = |x: u64, name: &str| -> String {
        match x {
            0 => String::new(),
            1 => format!(" ({name} C A)"),
            _ => format!(" ({name} C D)"),
        }
    };
    writeln!(s, "(CHARACTER C E (CHARWD R 2.0) (VARCHAR{}{}{} (REP C {})))", piece(d[4], "TOP"), piece(d[5], "MID"), piece(d[6], "BOT"), ['A', 'B'][d[7] as usize]).unwrap();
    s
}
const N_TAGS: u64 = 625 * 27 * 2;

/// F-header: header fields and parameters.
fn gen_header(i: u64) -> String {
    let d = vcore::digits(i, &[4, 3, 4, 3, 3, 6, 9]);
    let mut s = String::new();
    match d[0] {
        1 => s.push_str("(CODINGSCHEME TEX TEXT)\n"),
        2 => s.push_str("(CODINGSCHEME ABCDEFGHIJKLMNOPQRSTUVWXYZ0123456789ABC)\n"), // 39 characters
        3 => s.push_str("(CODINGSCHEME X)\n"),
        _ => {}
    }
    match d[1] {
        1 => s.push_str("(FAMILY CMR)\n"),
        2 => s.push_str("(FAMILY ABCDEFGHIJKLMNOPQRS)\n"), // 19 characters
        _ => {}
    }
    match d[2] {
        1 => s.push_str("(FACE O 0)\n"),
        2 => s.push_str("(FACE O 352)\n"),
        3 => s.push_str("(FACE F BIE)\n"),
        _ => {}
    }
    match d[3] {
        1 => s.push_str("(SEVENBITSAFEFLAG TRUE)\n"),
        2 => s.push_str("(SEVENBITSAFEFLAG FALSE)\n"),
        _ => {}
    }
    match d[4] {
        1 => s.push_str("(CHECKSUM O 0)\n"),
        2 => s.push_str("(CHECKSUM O 37777777777)\n"),
        _ => {}
    }
    s.push_str(["(DESIGNSIZE R 10.0)\n", "(DESIGNSIZE R 1.0)\n", "(DESIGNSIZE R 2047.999999)\n", "(DESIGNSIZE R 1.05)\n", "(DESIGNSIZE R 1.0625)\n", "(DESIGNSIZE R 1.000001)\n"][d[5] as usize]);
    match d[6] {
        1 => s.push_str("(FONTDIMEN (SLANT R 0.25))\n"),
        2 => s.push_str("(FONTDIMEN (SLANT R -20.5) (SPACE R 0.333333) (STRETCH R 0.0))\n"),
        3 => s.push_str("(FONTDIMEN (PARAMETER D 3 R 1.0))\n"),
        4 => s.push_str("(FONTDIMEN (QUAD R 1.0) (PARAMETER D 8 R -15.999999))\n"),
        5 => s.push_str("(HEADER D 18 O 1234567)\n(HEADER D 20 O 7)\n"),
        6 => s.push_str("(HEADER D 18 O 5)\n(HEADER D 19 O 0)\n(HEADER D 20 O 0)\n"), // trailing zero words
        7 => s.push_str("(HEADER D 18 O 0)\n"),                                         // one word, zero
        8 => s.push_str("(HEADER D 19 O 5)\n(HEADER D 21 O 0)\n"),                      // zero-filled gap, zero at the end
        _ => {}
    }
    s.push_str("(CHARACTER C A (CHARWD R 1.0))\n");
    s
}
/// The header words after word 17 that `gen_header(i)` asks for.
fn gen_header_extra(i: u64) -> Vec<u32> {
    match i % 9 {
        5 => vec![0o1234567, 0, 7],
        6 => vec![5, 0, 0],
        7 => vec![0],
        8 => vec![0, 5, 0, 0],
        _ => vec![],
    }
}
const N_HEADER: u64 = 4 * 3 * 4 * 3 * 3 * 6 * 9;

/// F-entry: labelled one-instruction chains placed at every index around 255, behind P unreachable
/// instructions, so that `entry point + number of restart words` hits 255, 256 and 257 exactly.
const ENTRY_LETTERS: &[u8; 6] = b"abcdef";
const N_ENTRY: u64 = 30 * 6 * 3;
fn gen_entry_boundary(i: u64) -> (Prog, String) {
    let d = vcore::digits(i, &[30, 6, 3]);
    let (pad, k, mode) = (236 + d[0] as usize, 1 + d[1] as usize, d[2]);
    let mut words: Vec<lk::Word> = vec![];
    for j in 0..pad {
        words.push([0, ENTRY_LETTERS[j % 6], 0, b'f']); // unreachable: LIG f
    }
    let mut starts = vec![];
    for c in 0..k {
        starts.push((ENTRY_LETTERS[c], words.len()));
        let next = ENTRY_LETTERS[(c + 1) % 6];
        words.push(if c % 2 == 0 { [128, next, 128, (c / 2 % 2) as u8] } else { [128, next, FORMS[c % 8], ENTRY_LETTERS[(c + 2) % 6]] });
    }
    let (rbc, lb_start) = match mode {
        0 => (None, None),
        1 => {
            words.push([128, b'a', 128, 1]);
            (Some(b'f'), Some(words.len() - 1))
        }
        _ => (Some(b'f'), None),
    };
    let p = Prog { words, starts, lb_start, rbc };
    let mut pl = String::from("(DESIGNSIZE R 10.0)\n");
    pl.push_str(&pl_ligtable(&p));
    for c in ENTRY_LETTERS {
        writeln!(pl, "(CHARACTER C {} (CHARWD R 1.0))", *c as char).unwrap();
    }
    (p, pl)
}

/// F-sizes: table-size boundaries (DESIGN (iii)). Returns (description, PL).
fn gen_sizes() -> Vec<(String, String)> {
    let cs: Vec<char> = ('A'..='Z').chain('a'..='z').chain('0'..='9').collect();
    let mut cases = vec![];
    for n in (248..=262).chain([300, 509, 510, 511, 512, 513, 514, 600, 1000]) {
        for per in [1usize, 3, 7, 40] {
            for boundary in [false, true] {
                let mut pl = String::from("(DESIGNSIZE R 10.0)\n");
                if boundary {
                    pl.push_str("(BOUNDARYCHAR C z)\n");
                }
                for c in &cs {
                    writeln!(pl, "(CHARACTER C {c} (CHARWD R 1.0))").unwrap();
                }
                pl.push_str("(LIGTABLE\n");
                let (mut made, mut ci) = (0usize, 0usize);
                if boundary {
                    pl.push_str(" (LABEL BOUNDARYCHAR)\n (KRN C A R 0.5)\n (STOP)\n");
                    made += 1;
                }
                while made < n {
                    let c = cs[ci % cs.len()];
                    ci += 1;
                    if ci > cs.len() {
                        break;
                    }
                    writeln!(pl, " (LABEL C {c})").unwrap();
                    let k = per.min(n - made);
                    for j in 0..k {
                        let r = cs[(ci + j * 5) % cs.len()];
                        if j % 4 == 3 {
                            writeln!(pl, " (LIG C {r} C {})", cs[(ci + j) % 26]).unwrap();
                        } else if j % 4 == 1 && boundary {
                            writeln!(pl, " (KRN C z R -0.{})", 1 + (j % 9)).unwrap();
                        } else {
                            writeln!(pl, " (KRN C {r} R 0.{})", 1 + (j % 9)).unwrap();
                        }
                    }
                    made += k;
                    pl.push_str(" (STOP)\n");
                }
                pl.push_str(" )\n");
                cases.push((format!("ligtable n={n} per={per} boundary={boundary}"), pl));
            }
        }
    }
    for (prop, lims) in [("CHARHT", vec![14usize, 15, 16, 17, 40]), ("CHARDP", vec![14, 15, 16, 17]), ("CHARIC", vec![62, 63, 64, 65])] {
        for k in lims {
            let mut pl = String::from("(DESIGNSIZE R 10.0)\n");
            for (i, c) in cs.iter().enumerate() {
                writeln!(pl, "(CHARACTER C {c} (CHARWD R 1.0) ({prop} R {}.{}))", (i % k) / 10, (i % k) % 10 + 1).unwrap();
            }
            cases.push((format!("{prop} with {k} distinct values"), pl));
        }
    }
    // 254..257 distinct widths, 255/256 characters
    for k in [254usize, 255, 256] {
        let mut pl = String::from("(DESIGNSIZE R 10.0)\n");
        for i in 0..k {
            writeln!(pl, "(CHARACTER O {:o} (CHARWD R {}.{:03}))", i + (256 - k), 1 + i / 1000, i % 1000).unwrap();
        }
        cases.push((format!("{k} characters with {k} distinct widths"), pl));
    }
    for k in [255usize, 256] {
        let mut pl = String::from("(DESIGNSIZE R 10.0)\n");
        for i in 0..k {
            writeln!(pl, "(CHARACTER O {:o} (CHARWD R 1.{}))", i + (256 - k), i % 7).unwrap();
        }
        cases.push((format!("{k} characters, 7 widths"), pl));
    }
    // 255 / 256 characters with a VARCHAR each: 255 / 256 distinct extensible recipes (the index is a byte)
    for n in [254usize, 255, 256] {
        let mut s = String::from("(DESIGNSIZE R 10.0)\n");
        for c in 0..256usize {
            if c < n {
                writeln!(s, "(CHARACTER O {c:o} (CHARWD R 1.0) (VARCHAR (TOP O {:o}) (REP O {c:o})))", (c + 1) % 256).unwrap();
            } else {
                writeln!(s, "(CHARACTER O {c:o} (CHARWD R 1.0))").unwrap();
            }
        }
        cases.push((format!("{n} characters with {n} distinct VARCHAR recipes"), s));
    }
    for n in [253usize, 254] {
        let mut s = String::from("(DESIGNSIZE R 10.0)\n(FONTDIMEN\n");
        for i in 1..=n {
            writeln!(s, " (PARAMETER D {i} R 0.{:03})", i).unwrap();
        }
        s.push_str(" )\n(CHARACTER C A (CHARWD R 1.0))\n");
        cases.push((format!("{n} font parameters"), s));
    }
    // 255 / 256 / 257 distinct kern amounts: the kern index needs the second byte (op byte 129) from 256 on
    for n in [255usize, 256, 257, 600] {
        let mut s = String::from("(DESIGNSIZE R 10.0)\n(CHARACTER C A (CHARWD R 1.0))\n(CHARACTER C B (CHARWD R 1.0))\n(LIGTABLE (LABEL C A)\n");
        for i in 0..n {
            writeln!(s, " (KRN O {:o} R {}.{:03})", i % 256, i / 1000, i % 1000 + 1).unwrap();
        }
        s.push_str(" (STOP))\n");
        for c in 0..256usize {
            if c != 65 && c != 66 {
                writeln!(s, "(CHARACTER O {c:o} (CHARWD R 1.0))").unwrap();
            }
        }
        cases.push((format!("{n} kern instructions with {n} distinct amounts"), s));
    }
    // dimension values at the ends of the legal range
    {
        let mut s = String::from("(DESIGNSIZE R 10.0)\n");
        for (c, v) in ['A', 'B', 'C', 'D', 'E', 'F'].iter().zip(["15.999999", "-15.999999", "0.000001", "-0.000001", "0.999999", "7.5"]) {
            writeln!(s, "(CHARACTER C {c} (CHARWD R {v}) (CHARHT R {v}) (CHARDP R {v}) (CHARIC R {v}))").unwrap();
        }
        s.push_str("(CHARACTER O 0 (CHARWD R 1.0))\n(CHARACTER O 177 (CHARWD R 1.0))\n(CHARACTER O 200 (CHARWD R 1.0))\n(CHARACTER O 377 (CHARWD R 1.0))\n");
        cases.push(("dimensions +-15.999999, +-0.000001, 0.999999; characters 0, 127, 128, 255".into(), s));
    }
    // up to 256 characters (+ the boundary) each labelling its own chain: up to 257 entry points,
    // all of which need a restart word when enough unlabelled instructions precede them
    for nchars in [254usize, 255, 256] {
        for pad in [0usize, 1, 2, 255, 300] {
            for boundary in [false, true] {
                let mut s = String::from("(DESIGNSIZE R 10.0)\n");
                if boundary {
                    s.push_str("(BOUNDARYCHAR O 0)\n");
                }
                s.push_str("(LIGTABLE\n");
                for _ in 0..pad {
                    s.push_str(" (KRN O 1 R 0.1)\n");
                }
                if boundary {
                    s.push_str(" (LABEL BOUNDARYCHAR)\n (KRN O 2 R 0.3)\n (STOP)\n");
                }
                for c in 0..nchars {
                    writeln!(s, " (LABEL O {:o})\n (KRN O {:o} R 0.{})\n (STOP)", c, (c + 1) % nchars, 1 + c % 5).unwrap();
                }
                s.push_str(" )\n");
                for c in 0..nchars {
                    writeln!(s, "(CHARACTER O {c:o} (CHARWD R 1.0))").unwrap();
                }
                cases.push((format!("{nchars} characters each labelling its own chain behind {pad} unlabelled instructions, boundary label {boundary}"), s));
            }
        }
    }
    cases
}

// ------------------------------------------------------------------ generator: non-canonical TFM bytes

/// Write a TFM for the alphabet a,b,c (+ d as next-larger target) with the lig/kern program `p`,
/// in a form PLtoTF would never write, selected by the bits of `sw`:
///   1 dimension tables in descending order with a duplicate and an unused entry
///   2 bc lowered by two and ec raised by one (nonexistent characters at both ends)
///   4 an orphan instruction in front of the lig/kern array
///   8 every entry point goes through a restart word although it is below 256
///  16 kern table reversed, with a duplicate in front
///  32 two extra header words (lh = 20) and seven-bit-safe byte 255
///  64 `a` has an extensible recipe... no: c gets NEXTLARGER d
fn write_tfm(p: &Prog, sw: u32) -> Vec<u8> {
    write_tfm_with(p, sw, None, None)
}

/// `extra`: the header words after word 17 (overrides switch 32's two words). `raw_lk`: a lig/kern array
/// and the (character, remainder) entry bytes to use verbatim instead of laying out `p`.
fn write_tfm_with(p: &Prog, sw: u32, extra: Option<&[u32]>, raw_lk: Option<(&[[u8; 4]], &[(u8, u8)])>) -> Vec<u8> {
    let has = |b: u32| sw & b != 0;
    // characters: a b c d
    let wd: [i32; 4] = [1 << 20, 3 << 19, 1 << 19, 2 << 20];
    let ht: [i32; 4] = [0, 1 << 20, 1 << 20, 3 << 19];
    let (mut width, mut height): (Vec<i32>, Vec<i32>) = (vec![0], vec![0]);
    if has(1) {
        let mut w: Vec<i32> = wd.to_vec();
        w.sort();
        w.reverse();
        width.extend(&w);
        width.push(w[0]); // duplicate
        width.push(7 << 20); // unused
        height.extend([3 << 19, 5 << 20, 1 << 20]); // descending-ish, 5.0 unused
    } else {
        let mut w: Vec<i32> = wd.to_vec();
        w.sort();
        w.dedup();
        width.extend(&w);
        height.extend([1 << 20, 3 << 19]);
    }
    let widx = |v: i32| width.iter().position(|x| *x == v).unwrap() as u8;
    let hidx = |v: i32| height.iter().position(|x| *x == v).unwrap() as u8;
    // depths and italic corrections of a b c d: positive, zero and negative
    let dp: [i32; 4] = [0, -(1 << 18), 1 << 18, -(1 << 18)];
    let ic: [i32; 4] = [-(1 << 17), 0, 1 << 17, -(3 << 16)];
    let (depth, italic): (Vec<i32>, Vec<i32>) = if has(1) { (vec![0, 1 << 18, -(1 << 18), 1 << 18], vec![0, 1 << 17, -(3 << 16), -(1 << 17), 9 << 16]) } else { (vec![0, -(1 << 18), 1 << 18], vec![0, -(3 << 16), -(1 << 17), 1 << 17]) };
    let didx = |v: i32| depth.iter().position(|x| *x == v).unwrap() as u8;
    let iidx = |v: i32| italic.iter().position(|x| *x == v).unwrap() as u8;
    // lig/kern array
    let mut words: Vec<[u8; 4]> = vec![];
    let mut kern: Vec<i32> = KERNS.to_vec();
    let mut kmap: Vec<u8> = vec![0, 1, 2, 3];
    if has(16) {
        kern = vec![KERNS[1], KERNS[1], KERNS[0], 0];
        kmap = vec![2, 1, 3, 3];
    }
    let n_restart = if has(8) { p.starts.len() } else { 0 };
    let front = (p.rbc.is_some() as usize).max(0);
    // layout: [boundary carrier?] [restart words] [orphan?] program [left boundary word?]
    let carrier_in_restart = has(8) && p.rbc.is_some() && n_restart > 0;
    let n_front = if carrier_in_restart { n_restart } else { front + n_restart };
    let orphan = has(4) as usize;
    let base = n_front + orphan;
    let mut start_of = std::collections::BTreeMap::new();
    if p.words.is_empty() && p.rbc.is_none() {
        // nothing
    } else {
        if p.rbc.is_some() && !carrier_in_restart {
            words.push([255, p.rbc.unwrap(), 0, 0]);
        }
        for (i, (c, st)) in p.starts.iter().enumerate() {
            if has(8) {
                let t = base + st;
                // the first restart word doubles as boundary carrier (skip byte 255)
                let skip = if i == 0 && p.rbc.is_some() { 255 } else { 254 };
                start_of.insert(*c, words.len() as u8);
                words.push([skip, p.rbc.unwrap_or(0), (t >> 8) as u8, t as u8]);
            } else {
                start_of.insert(*c, (base + st) as u8);
            }
        }
        if has(4) {
            words.push([128, b'a', 128, 0]); // unreachable kern
        }
        for w in &p.words {
            let [skip, next, op, rem] = *w;
            words.push(if op >= 128 { [skip, next, 128, kmap[rem as usize]] } else { [skip, next, op, rem] });
        }
        if let Some(l) = p.lb_start {
            let t = base + l;
            words.push([255, 0, (t >> 8) as u8, t as u8]);
        }
    }
    if let Some((raw, entries)) = raw_lk {
        words = raw.to_vec();
        start_of.clear();
        for (c, r) in entries {
            start_of.insert(*c, *r);
        }
        kern = vec![1 << 16, 2 << 16, 3 << 16, 4 << 16, 5 << 16, 6 << 16];
    }
    // char_info
    let (bc, ec) = if has(2) { (b'a' - 2, b'd' + 1) } else { (b'a', b'd') };
    let mut char_info: Vec<[u8; 4]> = vec![];
    for c in bc..=ec {
        if !(b'a'..=b'd').contains(&c) {
            char_info.push([0; 4]);
            continue;
        }
        let k = (c - b'a') as usize;
        let (mut tag, mut rem) = (0u8, 0u8);
        if let Some(s) = start_of.get(&c) {
            tag = 1;
            rem = *s;
        } else if c == b'c' && has(64) {
            tag = 2;
            rem = b'd';
        }
        char_info.push([widx(wd[k]), (hidx(ht[k]) << 4) | didx(dp[k]), (iidx(ic[k]) << 2) | tag, rem]);
    }
    // header
    let mut header: Vec<[u8; 4]> = vec![[0x12, 0x34, 0x56, 0x78], (10i32 << 20).to_be_bytes()];
    let mut hb = vec![0u8; 64];
    hb[0] = 4;
    hb[1..5].copy_from_slice(b"TEST");
    hb[40] = 3;
    hb[41..44].copy_from_slice(b"ABC");
    hb[60] = if has(32) { 255 } else { 0 };
    hb[63] = 0o352;
    for ch in hb.chunks(4) {
        header.push([ch[0], ch[1], ch[2], ch[3]]);
    }
    match extra {
        Some(x) => header.extend(x.iter().map(|v| v.to_be_bytes())),
        None => {
            if has(32) {
                header.push([0, 0, 0, 9]);
                header.push([1, 2, 3, 4]);
            }
        }
    }
    let param: Vec<i32> = vec![1 << 18, 1 << 19];
    let sizes: [usize; 12] = [0, header.len(), bc as usize, ec as usize, width.len(), height.len(), depth.len(), italic.len(), words.len(), if words.is_empty() { 0 } else { kern.len() }, 0, param.len()];
    let mut out: Vec<u8> = vec![];
    let lf = 6 + sizes[1] + (ec - bc + 1) as usize + sizes[4] + sizes[5] + sizes[6] + sizes[7] + sizes[8] + sizes[9] + sizes[11];
    for (i, v) in sizes.iter().enumerate() {
        out.extend(((if i == 0 { lf } else { *v }) as u16).to_be_bytes());
    }
    for w in header.iter().chain(char_info.iter()) {
        out.extend(w);
    }
    for t in [&width, &height, &depth, &italic] {
        for v in t.iter() {
            out.extend(v.to_be_bytes());
        }
    }
    for w in &words {
        out.extend(w);
    }
    if !words.is_empty() {
        for v in &kern {
            out.extend(v.to_be_bytes());
        }
    }
    for v in &param {
        out.extend(v.to_be_bytes());
    }
    out
}

/// A minimal hand-written TFM: characters (code, tag, remainder) of width 1.0, a lig/kern array, extensible
/// recipes and the seven-bit-safe byte given verbatim.
fn simple_tfm(chars: &[(u8, u8, u8)], lk: &[[u8; 4]], exten: &[[u8; 4]], sbs: u8) -> Vec<u8> {
    simple_tfm_face(chars, lk, exten, sbs, 0, 2)
}

thread_local! {
    /// design size (fix_word) written by `simple_tfm_face`; 10pt unless a family sets it
    static DESIGN: std::cell::Cell<i32> = const { std::cell::Cell::new(10 << 20) };
}

/// The same with the face byte and the number of parameters given.
fn simple_tfm_face(chars: &[(u8, u8, u8)], lk: &[[u8; 4]], exten: &[[u8; 4]], sbs: u8, face: u8, np: usize) -> Vec<u8> {
    let bc = chars.iter().map(|c| c.0).min().unwrap_or(1) as usize;
    let ec = chars.iter().map(|c| c.0).max().unwrap_or(0) as usize;
    let nk = if lk.is_empty() { 0 } else { 1 };
    let lf = 6 + 18 + (ec + 1 - bc) + 2 + 1 + 1 + 1 + lk.len() + nk + exten.len() + np;
    let mut out: Vec<u8> = vec![];
    for v in [lf, 18, bc, ec, 2, 1, 1, 1, lk.len(), nk, exten.len(), np] {
        out.extend((v as u16).to_be_bytes());
    }
    let mut hb = vec![0u8; 72];
    hb[0..4].copy_from_slice(&[0x0a, 0x0b, 0x0c, 0x0d]);
    hb[4..8].copy_from_slice(&DESIGN.with(|d| d.get()).to_be_bytes());
    hb[8] = 4;
    hb[9..13].copy_from_slice(b"TEST");
    hb[48] = 3;
    hb[49..52].copy_from_slice(b"ABC");
    hb[68] = sbs;
    hb[71] = face;
    out.extend(&hb);
    for c in bc..=ec {
        match chars.iter().find(|x| x.0 as usize == c) {
            Some((_, tag, rem)) => out.extend([1, 0, *tag, *rem]),
            None => out.extend([0; 4]),
        }
    }
    out.extend([0, 0, 0, 0, 0, 0x10, 0, 0]); // widths 0, 1.0
    out.extend([0u8; 12]); // height, depth, italic
    for w in lk {
        out.extend(w);
    }
    if nk == 1 {
        out.extend([0, 1, 0, 0]);
    }
    for e in exten {
        out.extend(e);
    }
    for k in 0..np {
        out.extend((((k % 7 + 1) as i32) << 18).to_be_bytes()); // parameters 0.25 .. 1.75
    }
    out
}

/// A hand-written font with all 256 characters whose tables have exactly the given sizes (zero entry
/// included for the four dimension tables), every entry in use: character c points at entry
/// 1 + c mod (n-1) of the dimension tables and, if ne > 0, has the extensible recipe c mod ne.
fn table_limit_tfm(nw: usize, nh: usize, nd: usize, ni: usize, ne: usize, np: usize) -> Vec<u8> {
    let lf = 6 + 18 + 256 + nw + nh + nd + ni + ne + np;
    let mut out: Vec<u8> = vec![];
    for v in [lf, 18, 0, 255, nw, nh, nd, ni, 0, 0, ne, np] {
        out.extend((v as u16).to_be_bytes());
    }
    let mut hb = vec![0u8; 72];
    hb[0..4].copy_from_slice(&[1, 2, 3, 4]);
    hb[4..8].copy_from_slice(&(10i32 << 20).to_be_bytes());
    out.extend(&hb);
    let idx = |c: usize, n: usize| -> u8 { if n <= 1 { 0 } else { (1 + c % (n - 1)) as u8 } };
    for c in 0..256usize {
        let (tag, rem) = if ne > 0 { (3u8, (c % ne) as u8) } else { (0, 0) };
        out.extend([idx(c, nw).max(1), (idx(c, nh) << 4) | idx(c, nd), (idx(c, ni) << 2) | tag, rem]);
    }
    for n in [nw, nh, nd, ni] {
        for i in 0..n {
            out.extend(((i as i32) << 12).to_be_bytes()); // 0, then distinct positive values
        }
    }
    for k in 0..ne {
        out.extend([0, 0, ((k + 1) % 256) as u8, k as u8]); // distinct recipes: BOT k+1, REP k
    }
    for k in 0..np {
        out.extend((((k % 200 + 1) as i32) << 12).to_be_bytes());
    }
    out
}

// ------------------------------------------------------------------ corpus

fn corpus() -> Vec<(String, Vec<u8>)> {
    let root = std::env::var("VERIF_REPO").unwrap_or("/repo".into());
    let mut out = vec![];
    for dir in ["originals", "computer-modern", "ctan", "fuzz"] {
        let Ok(rd) = std::fs::read_dir(format!("{root}/crates/tfm/corpus/{dir}")) else { continue };
        for e in rd.flatten() {
            let p = e.path();
            if p.extension().and_then(|x| x.to_str()) == Some("tfm") {
                if let Ok(b) = std::fs::read(&p) {
                    out.push((format!("{dir}/{}", p.file_name().unwrap().to_string_lossy()), b));
                }
            }
        }
    }
    out.sort();
    out
}

// ------------------------------------------------------------------ model self-validation

/// tfmraw + ligkern against what the repository records about cmr10 (TeX's own font):
/// crates/tfm/corpus/computer-modern/cmr10.plst (written by Knuth's TFtoPL): 128 characters,
/// 7 parameters, checksum O 11374260171, design size 10, `f i` -> O 14, `f f i` -> O 16 via O 13,
/// kern A V etc.; boxworks-text tests use the same ligatures.
fn self_validate(ctx: &mut Ctx, files: &[(String, Vec<u8>)]) {
    let Some((_, b)) = files.iter().find(|(n, _)| n == "computer-modern/cmr10.tfm") else {
        ctx.machinery_error("self-validation: corpus file computer-modern/cmr10.tfm not found");
        return;
    };
    let r = match tfmraw::parse(b) {
        Ok(r) => r,
        Err(e) => {
            ctx.machinery_error(format!("self-validation: tfmraw rejects cmr10.tfm: {e:?}"));
            return;
        }
    };
    let mut bad = vec![];
    if r.chars().len() != 128 || r.np != 7 || r.checksum() != 0o11374260171 || r.design_size() != 10 << 20 {
        bad.push(format!("cmr10 header/size facts: chars={} np={} checksum={:o} ds={}", r.chars().len(), r.np, r.checksum(), r.design_size()));
    }
    if !r.tex_load_errors().is_empty() {
        bad.push(format!("cmr10 would not load in TeX according to tfmraw: {:?}", r.tex_load_errors()));
    }
    // (SPACE R 0.333334) = 349526, (QUAD R 1.000003) = 1048579
    if r.param.get(1) != Some(&349526) || r.param.get(5) != Some(&1048579) {
        bad.push(format!("cmr10 params {:?}", r.param));
    }
    let f = lig_font(&r);
    let run = |w: &[u8]| lk::run(&f, w, true, f.bchar, 1000).map(|x| vnodes(&r, &x.nodes));
    // cmr10.plst: (LABEL C f)(LIG C i O 14)(LIG C f O 13)...; (LABEL O 13)(LIG C i O 16)
    if run(b"fi") != Some(vec![VNode::Lig(0o14, b"fi".to_vec(), false, false)]) {
        bad.push(format!("cmr10 fi -> {:?}", run(b"fi")));
    }
    if run(b"ffi") != Some(vec![VNode::Lig(0o16, b"ffi".to_vec(), false, false)]) {
        bad.push(format!("cmr10 ffi -> {:?}", run(b"ffi")));
    }
    // (LABEL C A) ... (KRN C V R -0.111112) = -116509
    if run(b"AV") != Some(vec![VNode::Char(b'A'), VNode::Kern(Some(-116509)), VNode::Char(b'V')]) {
        bad.push(format!("cmr10 AV -> {:?}", run(b"AV")));
    }
    // `` -> O 134 (open quotes), --- -> O 174 through O 173
    if run(b"---") != Some(vec![VNode::Lig(0o174, b"---".to_vec(), false, false)]) {
        bad.push(format!("cmr10 --- -> {:?}", run(b"---")));
    }
    for m in bad {
        ctx.machinery_error(format!("model self-validation: {m}"));
    }
}

// ------------------------------------------------------------------ main

fn main() {
    let mut ctx = Ctx::new("C11", Level::Exploration);
    ctx.assume("quantified over TFM files for which tfm_to_pl returns a property list and no message; other files are skipped and counted");
    ctx.assume("fonts with more than 254 parameters are outside what a property list can express (PLtoTF max_param_words): their parameters are not compared");
    ctx.assume("the two property list texts may differ (unreachable instructions and unused table entries of the original are only visible in the first); the requirement is on the TFM bytes");
    ctx.assume("header fields are compared as far as the original has them (lh < 18: PLtoTF fills the rest with its defaults); BCPL strings by content modulo ASCII case (TFtoPL writes lower case letters as upper case without a message; a property list cannot carry them); the seven-bit-safe flag of the canonical file is the one PLtoTF computes (Knuth's recorded corpus conversions turn it on for ctan/rashii2), so it is compared with an independent computation on the original instead of the original's byte; dimension, kern and extensible tables by value, not by index");
    ctx.assume("lig/kern behaviour = list built by TeX's main loop (reftex::ligkern) for every word of one or two existing characters, with and without left boundary, followed by the right boundary");
    let files = corpus();
    self_validate(&mut ctx, &files);
    let space2 = Space::new(2);
    let space1 = Space::new(1);
    let sizes = gen_sizes();
    let rbcs = [None, Some(b'c'), Some(b'a')];
    let pl_layouts = [Layout::Consecutive, Layout::Padded, Layout::SkipForeign, Layout::FallThrough, Layout::SharedTail];

    if let Some((_fam, case)) = ctx.replay_case() {
        let mut acc = Acc::default();
        let c2 = case.clone();
        let origin = move || {
            let mut v = c2.clone();
            if let Some(o) = v.as_object_mut() {
                o.remove("pl");
                o.remove("hex");
            }
            v
        };
        if case["kind"] == "tfm-redirect-tables" {
            let words: Vec<[u8; 4]> = case["words"].as_array().map(|a| a.iter().map(|w| [w[0].as_u64().unwrap_or(0) as u8, w[1].as_u64().unwrap_or(0) as u8, w[2].as_u64().unwrap_or(0) as u8, w[3].as_u64().unwrap_or(0) as u8]).collect()).unwrap_or_default();
            let entries: Vec<(u8, u8)> = case["entries"].as_array().map(|a| a.iter().map(|e| (e[0].as_u64().unwrap_or(0) as u8, e[1].as_u64().unwrap_or(0) as u8)).collect()).unwrap_or_default();
            let f = Font::from_tfm(words.clone(), &entries);
            let p = Prog { words: vec![], starts: vec![], lb_start: None, rbc: None };
            let b = write_tfm_with(&p, 0, None, Some((&words, &entries)));
            check_tfm(0, &b, &origin, &mut acc);
            if acc.fail_count > 0 && entries.iter().any(|(c, _)| lk::chain(&f, *c as i32).iter().any(|(_, w)| w[0] > 128)) {
                acc.fails.clear();
                acc.fail_count = 0;
                acc.known("D41", 0, || case.clone());
            }
        } else if case["kind"] == "pl-dimensions" {
            let (pl, intended) = gen_dimensions(case["i"].as_u64().unwrap_or(0));
            check_pl_with(0, &pl, &origin, None, Some(&intended), &mut acc);
        } else if case["kind"] == "pl-entrypoint-boundary" {
            let (p, pl) = gen_entry_boundary(case["i"].as_u64().unwrap_or(0));
            let af = Font::new(p.words.clone(), &p.starts, p.rbc, p.lb_start);
            check_pl(0, &pl, &origin, Some((&af, &KERNS[..], &ENTRY_LETTERS[..])), &mut acc);
        } else if let Some(pl) = case["pl"].as_str() {
            // the abstract program is rebuilt when the case names one
            let af = case.get("rules").and_then(|r| r.as_array()).map(|a| {
                let rules: Vec<Rule> = a.iter().map(|r| Rule { left: r[0].as_u64().unwrap() as u8, right: r[1].as_u64().unwrap() as u8, op: r[2].as_u64().unwrap() as u8 }).collect();
                let p = build(&rules, case["rbc"].as_u64().map(|c| c as u8), LAYOUTS[case["layout"].as_u64().unwrap_or(0) as usize]).expect("replayable program");
                Font::new(p.words.clone(), &p.starts, p.rbc, p.lb_start)
            });
            check_pl(0, pl, &origin, af.as_ref().map(|f| (f, &KERNS[..], &b"abcdef"[..])), &mut acc);
        } else if let Some(f) = case["file"].as_str() {
            match files.iter().find(|(n, _)| n == f) {
                Some((_, b)) => check_tfm(0, b, &origin, &mut acc),
                None => {
                    eprintln!("replay: corpus file {f} not found");
                    std::process::exit(2)
                }
            }
        } else {
            check_tfm(0, &unhex(case["hex"].as_str().unwrap_or("")), &origin, &mut acc);
        }
        ctx.finish_replay(acc);
    }

    // (i) corpus
    {
        let fs = &files;
        ctx.family("corpus", &format!("every .tfm under crates/tfm/corpus ({} files)", files.len()), files.len() as u64, |i, acc| {
            let (name, b) = &fs[i as usize];
            check_tfm(i, b, &|| json!({"kind": "corpus", "file": name}), acc);
            acc.sample(i, || json!({"file": name, "bytes": b.len()}));
        });
    }
    // (ii) generated property lists
    ctx.family("pl-dimensions", "characters A (every width/height/depth/italic of {0,1,1.5,-0.5}^4: each field positive, zero and negative), B (16-point sub-lattice), C (zero width, negative height and italic) present or absent; the TFM is also compared per character with the values written in the property list", N_DIMENSIONS, |i, acc| {
        let (pl, intended) = gen_dimensions(i);
        check_pl_with(i, &pl, &|| json!({"kind": "pl-dimensions", "i": i}), None, Some(&intended), acc);
    });
    ctx.family("pl-tags", "every NEXTLARGER partial function on {A,B,C,D} (cycles included) x VARCHAR on E with TOP/MID/BOT in {absent,A,D} and REP in {A,B}", N_TAGS, |i, acc| {
        check_pl(i, &gen_tags(i), &|| json!({"kind": "pl-tags", "i": i}), None, acc);
    });
    ctx.family("pl-header", "coding scheme (absent, short, 39 characters) x family x face x seven-bit-safe flag x checksum (absent/0/max) x design size x font parameters / extra header words (with gaps, all-zero and trailing-zero patterns; lh and the words are also compared with the property list)", N_HEADER, |i, acc| {
        let pl = gen_header(i);
        // lh and every extra header word of the TFM must be what the property list says
        let want = gen_header_extra(i);
        if let Ok((b0, _)) = pltotf(&pl) {
            if let Ok(r) = tfmraw::parse(&b0) {
                let got: Vec<u32> = r.header.iter().skip(18).map(|w| u32::from_be_bytes(*w)).collect();
                if got != want || r.lh != 18 + want.len() {
                    acc.eval();
                    acc.fail(i, json!({"kind": "pl-header", "i": i, "pl": pl}), format!("lh = {}, extra header words {want:?}", 18 + want.len()), format!("lh = {}, extra header words {got:?}", r.lh), "the TFM does not have the header words of the property list");
                    return;
                }
                if want.last() == Some(&0) {
                    acc.count("trailing_zero_header_word_compared");
                }
            }
        }
        check_pl(i, &pl, &|| json!({"kind": "pl-header", "i": i}), None, acc);
    });
    {
        let max_rules = ctx.pick(2usize, 3usize);
        let sp3;
        let sp: &Space = if max_rules == 2 {
            &space2
        } else {
            sp3 = Space::new(3);
            &sp3
        };
        // thorough: 3 rules only in the consecutive layout (the other layouts with <= 2 rules)
        let nl = pl_layouts.len() as u64;
        let n = sp.len() * 3 * nl;
        let s2len = space2.len();
        ctx.family(
            "pl-ligtables",
            &format!("LIGTABLEs written from the C05 program space: every set of <= {max_rules} rules (<= 2 outside the consecutive and fall-through layouts) x boundarychar in {{none,c,a}} x 5 label layouts (separate chains; 300 unreachable instructions in front = entry points beyond 255; SKIP over a foreign instruction; chains without STOP between them = several labels per chain; c labelling the last instruction of a chain); the TFM is also compared with the program as written"),
            n,
            |i, acc| {
                let d = vcore::digits(i, &[sp.len(), 3, nl]);
                let layout = pl_layouts[d[2] as usize];
                if d[0] >= s2len && !(layout == Layout::Consecutive || layout == Layout::FallThrough) {
                    return; // not enumerated (see bounds text)
                }
                let rules = sp.rules(d[0]);
                let Some(p) = build(&rules, rbcs[d[1] as usize], layout) else {
                    return;
                };
                let af = Font::new(p.words.clone(), &p.starts, p.rbc, p.lb_start);
                let pl = pl_abc(&pl_ligtable(&p));
                if !rules.is_empty() && d[2] == 0 {
                    acc.count("ligtable_fonts");
                }
                check_pl(i, &pl, &|| json!({"kind": "pl-ligtables", "rules": rules.iter().map(|r| vec![r.left, r.right, r.op]).collect::<Vec<_>>(), "rbc": p.rbc, "layout": LAYOUTS.iter().position(|l| *l == layout), "text": describe_rules(&rules, p.rbc)}), Some((&af, &KERNS[..], &LETTERS[..])), acc);
            },
        );
    }
    // (iii) entry points around 255
    ctx.family("pl-entrypoint-boundary", "236..265 unreachable instructions followed by 1..6 labelled one-instruction chains (kerns and ligatures) x {no boundary, BOUNDARYCHAR with a boundary label, BOUNDARYCHAR without}: every alignment of entry point + restart words around 255/256; the TFM is also compared with the program as written", N_ENTRY, |i, acc| {
        let (p, pl) = gen_entry_boundary(i);
        let af = Font::new(p.words.clone(), &p.starts, p.rbc, p.lb_start);
        acc.count("entrypoint_boundary_fonts");
        check_pl(i, &pl, &|| json!({"kind": "pl-entrypoint-boundary", "i": i}), Some((&af, &KERNS[..], &ENTRY_LETTERS[..])), acc);
    });
    // (iii) size boundaries
    {
        let sz = &sizes;
        ctx.family("pl-size-boundaries", "lig tables of 248..262, 300, 509..514, 600, 1000 instructions in chains of 1/3/7/40 with and without boundary label and boundary kerns; 14..17/40 heights, 14..17 depths, 62..65 italics; 254..256 characters with as many widths; 254..256 characters each labelling its own chain behind 0/1/2/255/300 unlabelled instructions (up to 257 entry points needing a restart word)", sizes.len() as u64, |i, acc| {
            let (name, pl) = &sz[i as usize];
            check_pl(i, pl, &|| json!({"kind": "pl-size-boundaries", "name": name}), None, acc);
        });
    }
    // (iv) TFM files PLtoTF would never write
    {
        let quick = ctx.quick();
        let sp: &Space = if quick { &space1 } else { &space2 };
        // every combination of the seven switches for <= 1 rule; for 2 rules (thorough) twelve of them
        let variants: Vec<u32> = (0..128).collect();
        let few: [u32; 12] = [0, 1, 2, 4, 8, 16, 32, 64, 127, 8 + 4, 8 + 16, 1 + 2 + 64];
        let nv = variants.len() as u64;
        let n = sp.len() * 3 * 3 * nv;
        let tfm_layouts = [Layout::Consecutive, Layout::FallThrough, Layout::SkipForeign];
        let vs = &variants;
        ctx.family(
            "tfm-noncanonical",
            &format!("hand-written TFM files for the characters a,b,c,d with the lig/kern program of every set of <= {} rules x boundarychar x 3 chain layouts, in {} non-canonical forms (all 2^7 switch combinations for <= 1 rule, 12 of them for 2 rules: unsorted tables with duplicates and unused entries; nonexistent characters at both ends of bc..ec; orphan instruction; restart words for small entry points, the first doubling as boundary-character carrier; permuted kern table; lh=20; NEXTLARGER on c)", sp.max_rules, nv),
            n,
            |i, acc| {
                let d = vcore::digits(i, &[sp.len(), 3, 3, nv]);
                let rules = sp.rules(d[0]);
                let Some(p) = build(&rules, rbcs[d[1] as usize], tfm_layouts[d[2] as usize]) else {
                    return;
                };
                let sw = vs[d[3] as usize];
                if rules.len() >= 2 && !few.contains(&sw) {
                    return; // not enumerated (see bounds text)
                }
                let b = write_tfm(&p, sw);
                let before = acc.nontrivial;
                check_tfm(i, &b, &|| json!({"kind": "tfm-noncanonical", "text": describe_rules(&rules, p.rbc), "layout": format!("{:?}", tfm_layouts[d[2] as usize]), "switches": sw}), acc);
                if acc.nontrivial > before {
                    // which non-canonical forms were really checked (not skipped for a TFtoPL message)
                    for (bit, name) in [(1u32, "noncanonical_unsorted_tables"), (2, "noncanonical_nonexistent_chars_in_range"), (4, "noncanonical_orphan_instruction"), (8, "noncanonical_restart_words"), (16, "noncanonical_permuted_kerns"), (32, "noncanonical_long_header"), (64, "noncanonical_next_larger")] {
                        if sw & bit != 0 {
                            acc.count(name);
                        }
                    }
                }
            },
        );
    }
    // (v) hand-written TFMs: extra header words of length 1..4 over {0, 5}
    {
        let pats: Vec<Vec<u32>> = (1..=4u32).flat_map(|l| (0..(1u32 << l)).map(move |m| (0..l).map(|k| if (m >> k) & 1 == 1 { 5 } else { 0 }).collect())).collect();
        let bases: Vec<Vec<Rule>> = vec![vec![], vec![Rule { left: 1, right: 0, op: 0 }]];
        let sws = [0u32, 1 | 2 | 4 | 8 | 16 | 64];
        let n = (pats.len() * bases.len() * sws.len()) as u64;
        let (pt, bs) = (&pats, &bases);
        ctx.family("tfm-header-extra", "hand-written TFM files with 1..4 extra header words, every pattern over {0, 5} (all-zero and trailing-zero included) x {no lig/kern program, one kern} x {canonical form, all non-canonical switches}: lh and every extra word are compared between original and canonical file", n, |i, acc| {
            let d = vcore::digits(i, &[pt.len() as u64, bs.len() as u64, sws.len() as u64]);
            let Some(p) = build(&bs[d[1] as usize], None, Layout::Consecutive) else { return };
            let b = write_tfm_with(&p, sws[d[2] as usize], Some(&pt[d[0] as usize]), None);
            check_tfm(i, &b, &|| json!({"kind": "tfm-header-extra", "extra": pt[d[0] as usize], "switches": sws[d[2] as usize]}), acc);
        });
    }
    // (vi) hand-written TFMs: small lig/kern arrays with restart (entry-point redirect) words at every position
    {
        let nslots = 4u64;
        let with_c = !ctx.quick();
        let radices: Vec<u64> = vec![10, 10, 10, 10, 4, 5, if with_c { 5 } else { 1 }];
        let n = vcore::product(&radices);
        let rd = &radices;
        ctx.family(
            "tfm-redirect-tables",
            &format!("every lig/kern array of 4 words, each word a kern instruction (skip byte 0, 1 or 128; right character a or b; its own kern amount) or a restart word [254,0,0,t] with t in 0..4, x entry byte of a in 0..4 x entry byte of b in {{none,0..4}}{}: restart words inside SKIP windows, as first word of a chain, inside chains, shared tails across restarts, with and without unreachable instructions", if with_c { " x entry byte of c in {none,0..4}" } else { "" }),
            n,
            |i, acc| {
                let d = vcore::digits(i, rd);
                let mut words: Vec<[u8; 4]> = vec![];
                let mut n_restart = 0;
                for (k, o) in d[..nslots as usize].iter().enumerate() {
                    if *o < 6 {
                        words.push([[0u8, 1, 128][(*o % 3) as usize], [b'a', b'b'][(*o / 3) as usize], 128, k as u8]);
                    } else {
                        words.push([254, 0, 0, (*o - 6) as u8]);
                        n_restart += 1;
                    }
                }
                let mut entries: Vec<(u8, u8)> = vec![(b'a', d[4] as u8)];
                if d[5] > 0 {
                    entries.push((b'b', (d[5] - 1) as u8));
                }
                if d[6] > 0 {
                    entries.push((b'c', (d[6] - 1) as u8));
                }
                // Domain: TeX applies the restart indirection once (§1039). An entry byte that names a
                // restart word whose target is again a word with skip byte > 128 gives the character
                // an *empty* program; a property list cannot say that (a LABEL needs an instruction
                // after it), so such a font has no PL normal form. Counted, not judged.
                if entries.iter().any(|(_, r)| words.get(*r as usize).map(|w| w[0] > 128 && words.get(w[3] as usize).map(|t| t[0] > 128).unwrap_or(true)).unwrap_or(true)) {
                    acc.skipped += 1;
                    acc.count("info_entry_restart_word_points_at_stop_word_not_judged");
                    return;
                }
                // counters from the case: a restart word that lies inside the window of a SKIP
                let in_skip_window = words.iter().enumerate().any(|(k, w)| w[0] > 0 && w[0] < 128 && (k + 1..=k + w[0] as usize).any(|j| words.get(j).map(|x| x[0] > 128).unwrap_or(false)));
                let before = acc.nontrivial;
                let p = Prog { words: vec![], starts: vec![], lb_start: None, rbc: None };
                let b = write_tfm_with(&p, 0, None, Some((&words, &entries)));
                // Finding class D41 (predicate on the case): the chain TeX walks for some character ends
                // in a word with skip byte > 128 (an unconditional stop met *inside* a chain, by falling
                // through or by a SKIP landing on it). A property list has no such command; TFtoPL writes
                // nothing for it, so the canonical file continues with whatever instruction follows.
                let f = Font::from_tfm(words.clone(), &entries);
                let stop_word_in_chain = entries.iter().any(|(c, _)| lk::chain(&f, *c as i32).iter().any(|(_, w)| w[0] > 128));
                if stop_word_in_chain {
                    let mut tmp = Acc::default();
                    check_tfm(i, &b, &|| json!({"kind": "tfm-redirect-tables", "words": words, "entries": entries}), &mut tmp);
                    if tmp.fail_count > 0 {
                        let first = tmp.fails[0].clone();
                        tmp.fails.clear();
                        tmp.fail_count = 0;
                        tmp.classes.clear();
                        tmp.class("unconditional-stop word inside a chain is lost in the property list (D41)");
                        acc.merge(tmp);
                        acc.known("D41", i, || {
                            let mut v = first.case.clone();
                            v["note"] = json!(first.note);
                            v["expected"] = json!(first.expected);
                            v["observed"] = json!(first.observed);
                            v
                        });
                    } else {
                        acc.merge(tmp);
                    }
                    return;
                }
                check_tfm(i, &b, &|| json!({"kind": "tfm-redirect-tables", "words": words, "entries": entries}), acc);
                if acc.nontrivial > before {
                    if n_restart > 0 {
                        acc.count("redirect_table_with_restart_word_checked");
                    }
                    if in_skip_window {
                        acc.count("restart_word_inside_skip_window_checked");
                    }
                }
            },
        );
    }
    // (vii) hand-written TFMs: extensible recipes with absent pieces; seven-bit-safe flag x 8-bit insertions
    ctx.family(
        "tfm-varchar-sevenbit",
        "hand-written TFM files: a VARCHAR recipe with every subset of {TOP, MID, BOT} absent x character sets with and without character 0 (16 fonts); seven-bit-safe byte 0/128 x left-boundary program inserting an 8-bit glyph from a 7-bit right character yes/no x program of the 7-bit character A doing the same yes/no x program of the 8-bit character doing so yes/no (16 fonts)",
        32,
        |i, acc| {
            let before = acc.nontrivial;
            let b = if i < 16 {
                let with0 = i & 8 != 0;
                let piece = |bit: u64| if i & bit != 0 { 65u8 } else { 0u8 };
                let mut chars = vec![(65u8, 0u8, 0u8), (66, 0, 0), (67, 3, 0)];
                if with0 {
                    chars.push((0, 0, 0));
                }
                simple_tfm(&chars, &[], &[[piece(1), piece(2), piece(4), 66]], 0)
            } else {
                let j = i - 16;
                let (flag, lb_prog, a_prog, hi_prog) = (j & 1 != 0, j & 2 != 0, j & 4 != 0, j & 8 != 0);
                let mut lk: Vec<[u8; 4]> = vec![];
                let mut chars = vec![(65u8, 0u8, 0u8), (66, 0, 0), (0xC6, 0, 0), (0xC7, 0, 0)];
                if a_prog {
                    chars[0] = (65, 1, lk.len() as u8);
                    lk.push([128, 66, 0, 0xC6]); // A B -> LIG 0xC6
                }
                if hi_prog {
                    chars[2] = (0xC6, 1, lk.len() as u8);
                    lk.push([128, 66, 0, 0xC7]); // 0xC6 B -> LIG 0xC7 (an 8-bit left character: never unsafe)
                }
                if lb_prog {
                    let at = lk.len() as u8;
                    lk.push([128, 65, 0, 0xC6]); // boundary A -> LIG 0xC6
                    lk.push([255, 0, 0, at]);
                }
                simple_tfm(&chars, &lk, &[], if flag { 128 } else { 0 })
            };
            check_tfm(i, &b, &|| json!({"kind": "tfm-varchar-sevenbit", "i": i}), acc);
            if acc.nontrivial > before {
                if i < 16 && i & 7 != 7 && i & 8 == 0 {
                    acc.count("varchar_absent_piece_without_character_0_checked");
                }
                if i >= 16 && (i - 16) & 2 != 0 && (i - 16) & 4 == 0 {
                    acc.count("boundary_program_inserts_8bit_glyph_in_otherwise_safe_font_checked");
                }
            }
        },
    );
    // (viii) every face byte, TFM side and PL side
    ctx.family("tfm-face", "hand-written TFM files with every face byte 0..=255 x {characters A,B / characters 0,127,128,255} x {2, 254 parameters}; two characters sharing one extensible recipe and two with different recipes", 256 * 4 + 1, |i, acc| {
        let b = if i < 1024 {
            let face = (i % 256) as u8;
            let chars: Vec<(u8, u8, u8)> = if (i / 256) % 2 == 0 { vec![(65, 0, 0), (66, 0, 0)] } else { vec![(0, 0, 0), (127, 0, 0), (128, 0, 0), (255, 0, 0)] };
            if (17..=19).contains(&face) || face == 255 || face == 0 {
                acc.count("face_byte_at_coded_numbered_boundary");
            }
            simple_tfm_face(&chars, &[], &[], 0, face, if i / 512 == 0 { 2 } else { 254 })
        } else {
            simple_tfm_face(&[(65, 3, 0), (66, 3, 0), (67, 3, 1), (68, 0, 0)], &[], &[[0, 0, 0, 68], [68, 0, 68, 68]], 0, 0, 2)
        };
        check_tfm(i, &b, &|| json!({"kind": "tfm-face", "i": i}), acc);
    });
    {
        let mut faces: Vec<(String, u8)> = vec![];
        for (e, ec) in ["R", "C", "E"].iter().enumerate() {
            for (w, wc) in ["M", "B", "L"].iter().enumerate() {
                for (sl, sc) in ["R", "I"].iter().enumerate() {
                    faces.push((format!("F {wc}{sc}{ec}"), (6 * e + 2 * w + sl) as u8));
                }
            }
        }
        for v in 0..=24u32 {
            faces.push((format!("O {v:o}"), v as u8));
        }
        faces.push(("O 377".into(), 255));
        faces.push(("D 255".into(), 255));
        faces.push(("D 18".into(), 18));
        faces.push(("H 12".into(), 18));
        let fs = &faces;
        ctx.family("pl-face", "property lists with FACE F <all 18 coded faces>, FACE O 0..30 (octal), O 377, D 255, D 18, H 12: the face byte of the TFM is compared with the code, then the round trip", faces.len() as u64, |i, acc| {
            let (txt, code) = &fs[i as usize];
            let pl = format!("(FACE {txt})\n(DESIGNSIZE R 10.0)\n(CHARACTER C A (CHARWD R 1.0))\n");
            if let Ok((b0, w0)) = pltotf(&pl) {
                if w0.is_empty() {
                    if let Ok(r) = tfmraw::parse(&b0) {
                        let got = r.header.get(17).map(|w| w[3]);
                        if got != Some(*code) {
                            acc.eval();
                            acc.fail(i, json!({"kind": "pl-face", "pl": pl}), format!("face byte {code}"), format!("{got:?}"), "the TFM does not have the face of the property list");
                            return;
                        }
                        acc.count("pl_face_code_compared");
                    }
                }
            }
            check_pl(i, &pl, &|| json!({"kind": "pl-face", "face": txt}), None, acc);
        });
    }
    // (ix) every table at its maximum size and one below, hand-written, all entries in use
    {
        let base = (3usize, 2usize, 2usize, 2usize, 0usize, 2usize);
        let mut specs: Vec<(&'static str, (usize, usize, usize, usize, usize, usize))> = vec![];
        for (name, f) in [("nw", 0usize), ("nh", 1), ("nd", 2), ("ni", 3), ("ne", 4), ("np", 5)] {
            let (below, max) = [(255usize, 256usize), (15, 16), (15, 16), (63, 64), (255, 256), (253, 254)][f];
            for v in [below, max] {
                let mut t = [base.0, base.1, base.2, base.3, base.4, base.5];
                t[f] = v;
                specs.push((name, (t[0], t[1], t[2], t[3], t[4], t[5])));
            }
        }
        specs.push(("all", (256, 16, 16, 64, 256, 254)));
        specs.push(("np255", (3, 2, 2, 2, 0, 255)));
        let sp = &specs;
        ctx.family("tfm-table-limits", "hand-written fonts with all 256 characters and one table at its maximum size or one below, every entry in use: nw 255/256, nh 15/16, nd 15/16, ni 63/64, ne 255/256, np 253/254 (255: not comparable), and all tables at their maximum together; a font the independent reader accepts but tfm_to_pl refuses is a failure (no round trip exists)", specs.len() as u64, |i, acc| {
            let (name, (nw, nh, nd, ni, ne, np)) = sp[i as usize];
            let b = table_limit_tfm(nw, nh, nd, ni, ne, np);
            let before = acc.nontrivial;
            if let (Ok(_), Ok(Conv { pl: Err(e), .. })) = (tfmraw::parse(&b), tftopl(&b)) {
                acc.eval();
                acc.fail(i, json!({"kind": "tfm-table-limits", "table": name, "sizes": [nw, nh, nd, ni, ne, np], "hex": hex(&b)}), "tfm_to_pl reads a font whose table sizes are legal (TFtoPL §20-21, TeX §565-566)", e, "a legal font at a table-size limit cannot be converted: no round trip exists");
                return;
            }
            check_tfm(i, &b, &|| json!({"kind": "tfm-table-limits", "table": name, "sizes": [nw, nh, nd, ni, ne, np]}), acc);
            if acc.nontrivial > before {
                if ne == 256 {
                    acc.count("font_with_exactly_256_extensible_recipes");
                }
                if (nw, nh, nd, ni) == (256, 16, 16, 64) || nw == 256 || nh == 16 || nd == 16 || ni == 64 || ne == 256 || np == 254 {
                    acc.count("font_with_table_at_its_maximum_size");
                }
                for (hit, c) in [(nw == 256, "table_at_maximum_nw"), (nh == 16, "table_at_maximum_nh"), (nd == 16, "table_at_maximum_nd"), (ni == 64, "table_at_maximum_ni"), (ne == 256, "table_at_maximum_ne"), (np == 254, "table_at_maximum_np")] {
                    if hit {
                        acc.count(c);
                    }
                }
            }
        });
    }
    // (x) pairs of extensible recipes over the four slots
    {
        let mut recipes: Vec<[u8; 4]> = vec![];
        for t in [0u8, b'a', b'r'] {
            for m in [0u8, b'a', b'r'] {
                for b in [0u8, b'a', b'r'] {
                    for r in [b'a', b'r'] {
                        recipes.push([t, m, b, r]);
                    }
                }
            }
        }
        let nr = recipes.len() as u64;
        let rc = &recipes;
        ctx.family("tfm-recipe-pairs", "hand-written fonts with characters a, r and two characters X, Y that have extensible recipes: every ordered pair of recipes over TOP/MID/BOT in {absent, a, r} and REP in {a, r} (identical recipes, recipes with the same pieces in different slots, recipes differing in one absent slot); each character's recipe is compared slot by slot between original and canonical file", nr * nr, |i, acc| {
            let (r1, r2) = (rc[(i / nr) as usize], rc[(i % nr) as usize]);
            let b = simple_tfm(&[(b'a', 0, 0), (b'r', 0, 0), (b'X', 3, 0), (b'Y', 3, 1)], &[], &[r1, r2], 0);
            let pieces = |r: [u8; 4]| -> Vec<u8> { r.iter().enumerate().filter(|(k, x)| *k == 3 || **x != 0).map(|(_, x)| *x).collect() };
            let before = acc.nontrivial;
            check_tfm(i, &b, &|| json!({"kind": "tfm-recipe-pairs", "recipes": [r1, r2]}), acc);
            if acc.nontrivial > before {
                if r1 != r2 && pieces(r1) == pieces(r2) {
                    acc.count("two_recipes_same_pieces_different_slots");
                }
                if r1 == r2 {
                    acc.count("two_identical_recipes");
                }
            }
        });
    }
    // (xi) seven-bit-safe flag x NEXTLARGER chains among 7-bit and 8-bit characters
    ctx.family("tfm-nextlarger-sevenbit", "hand-written fonts with characters A, B, '372, '373, '374: seven-bit-safe byte 0/128 x every subset of the NEXTLARGER chains {A->B (7->7), '372->'373->'374 (8->8 only), B->'372 (7->8: really unsafe), '374->A (8->7)}", 32, |i, acc| {
        let (flag, s77, s88, s78, s87) = (i & 1 != 0, i & 2 != 0, i & 4 != 0, i & 8 != 0, i & 16 != 0);
        let mut chars = vec![(65u8, 0u8, 0u8), (66, 0, 0), (0xFA, 0, 0), (0xFB, 0, 0), (0xFC, 0, 0)];
        if s77 {
            chars[0] = (65, 2, 66);
        }
        if s78 {
            chars[1] = (66, 2, 0xFA);
        }
        if s88 {
            chars[2] = (0xFA, 2, 0xFB);
            chars[3] = (0xFB, 2, 0xFC);
        }
        if s87 {
            chars[4] = (0xFC, 2, 65);
        }
        let b = simple_tfm(&chars, &[], &[], if flag { 128 } else { 0 });
        let before = acc.nontrivial;
        check_tfm(i, &b, &|| json!({"kind": "tfm-nextlarger-sevenbit", "i": i}), acc);
        if acc.nontrivial > before && flag && s88 && !s78 {
            acc.count("sevenbit_flag_with_8bit_only_nextlarger_chain");
        }
    });
    // (xii) design sizes on both sides of the header limits
    {
        let sizes: [(&str, i32, bool); 9] = [("0.999999", (1 << 20) - 1, false), ("1.0", 1 << 20, true), ("1.000001", (1 << 20) + 1, true), ("1.05", 1101005, true), ("1.0624", 1113993, true), ("1.0625", 1114112, true), ("16.0", 16 << 20, true), ("2047.999999", i32::MAX, true), ("-1.0", -(1 << 20), false)];
        let sz = &sizes;
        ctx.family("tfm-design-sizes", "hand-written fonts with design size 0.999999, 1.0, 1.000001, 1.05, 1.0624, 1.0625, 16.0, 2047.999999, -1.0 pt: a design size of at least 1pt must convert without message (TFtoPL §51: `Design size too small` only below 1.0) and survive the round trip", 9, |i, acc| {
            let (name, ds, legal) = sz[i as usize];
            DESIGN.with(|d| d.set(ds));
            let b = simple_tfm(&[(65, 0, 0), (66, 0, 0)], &[], &[], 0);
            DESIGN.with(|d| d.set(10 << 20));
            if legal {
                if let Ok(Conv { messages, .. }) = tftopl(&b) {
                    if !messages.is_empty() {
                        acc.eval();
                        acc.fail(i, json!({"kind": "tfm-design-sizes", "design_size": name, "hex": hex(&b)}), "no message: the design size is at least 1pt", format!("{messages:?}"), "a font with a legal design size draws a TFtoPL message");
                        return;
                    }
                }
            }
            let before = acc.nontrivial;
            check_tfm(i, &b, &|| json!({"kind": "tfm-design-sizes", "design_size": name}), acc);
            if acc.nontrivial > before && ds >= 1 << 20 && ds < 1114112 {
                acc.count("design_size_in_1_to_1_0625pt");
            }
        });
    }
    // (xiii) a SKIP that lands on nl-2, on the final boundary-entrypoint word (nl-1), or beyond (nl)
    ctx.family("tfm-skip-final-word", "hand-written fonts whose lig/kern array (4, 5 or 6 words) ends with the boundary entrypoint word [255,0,0,1]; word 0 (entry of a) is a kern step whose SKIP lands on word nl-2, on the final word nl-1, or on nl (too far: genuinely bad) x right character a/b: the first two are legal (TFtoPL §70 complains only if i+skip+1 >= nl) and must convert without message", 18, |i, acc| {
        let d = vcore::digits(i, &[3, 3, 2]);
        let nl = 4 + d[0] as usize;
        let target = [nl - 2, nl - 1, nl][d[1] as usize];
        let mut words: Vec<[u8; 4]> = vec![[(target - 1) as u8, [b'a', b'b'][d[2] as usize], 128, 0]];
        for k in 1..nl - 1 {
            words.push([128, [b'b', b'a'][k % 2], 128, k as u8]);
        }
        words.push([255, 0, 0, 1]);
        let entries = vec![(b'a', 0u8)];
        let p = Prog { words: vec![], starts: vec![], lb_start: None, rbc: None };
        let b = write_tfm_with(&p, 0, None, Some((&words, &entries)));
        let case = || json!({"kind": "tfm-skip-final-word", "words": words, "skip_lands_on": target, "nl": nl});
        if target < nl {
            if let Ok(Conv { messages, .. }) = tftopl(&b) {
                if !messages.is_empty() {
                    acc.eval();
                    acc.fail(i, case(), "no message: the SKIP stays inside the array", format!("{messages:?}"), "a legal SKIP (landing inside the lig/kern array) draws a TFtoPL message");
                    return;
                }
            }
        }
        let before = acc.nontrivial;
        let mut tmp = Acc::default();
        check_tfm(i, &b, &case, &mut tmp);
        // landing on the final word = an unconditional stop met inside a chain: class D41 if the round trip fails
        if target == nl - 1 && tmp.fail_count > 0 {
            let first = tmp.fails[0].clone();
            tmp.fails.clear();
            tmp.fail_count = 0;
            acc.merge(tmp);
            acc.known("D41", i, || {
                let mut v = first.case.clone();
                v["note"] = json!(first.note);
                v["observed"] = json!(first.observed);
                v
            });
        } else {
            acc.merge(tmp);
        }
        if acc.nontrivial > before && target == nl - 1 {
            acc.count("skip_lands_exactly_on_final_boundary_entrypoint_word");
        }
    });
    ctx.require("skip_lands_exactly_on_final_boundary_entrypoint_word", "a warning-free hand-written font in which a SKIP lands exactly on the final boundary-entrypoint word");
    ctx.require("sevenbit_flag_with_8bit_only_nextlarger_chain", "a seven-bit-safe-flagged hand-written font with a NEXTLARGER chain among 8-bit characters only");
    ctx.require("design_size_in_1_to_1_0625pt", "a hand-written font with a design size in [1.0, 1.0625) pt went through the round trip");
    ctx.require("font_with_exactly_256_extensible_recipes", "a warning-free hand-written font with exactly 256 extensible recipes went through the whole round trip");
    ctx.require("font_with_table_at_its_maximum_size", "a warning-free hand-written font with a table at its maximum size went through the whole round trip");
    for c in ["table_at_maximum_nw", "table_at_maximum_nh", "table_at_maximum_nd", "table_at_maximum_ni", "table_at_maximum_ne", "table_at_maximum_np"] {
        ctx.require(c, "this table at its maximum size in a warning-free hand-written font");
    }
    ctx.require("two_recipes_same_pieces_different_slots", "two characters whose extensible recipes have the same pieces in different slots");
    ctx.require("two_identical_recipes", "two characters with identical extensible recipes");
    ctx.require("face_byte_at_coded_numbered_boundary", "hand-written TFM files with face byte 0, 17, 18, 19 or 255");
    ctx.require("pl_face_code_compared", "property lists whose FACE was compared with the face byte of the TFM");
    ctx.require("display_format_route_compared", "warning-free originals whose Ascii / Octal property lists were converted too");
    ctx.require("varchar_absent_piece_without_character_0_checked", "a warning-free hand-written TFM with an extensible recipe that lacks a piece, in a font without character 0");
    ctx.require("boundary_program_inserts_8bit_glyph_in_otherwise_safe_font_checked", "a warning-free hand-written TFM whose left-boundary program inserts an 8-bit glyph while no 7-bit character does");
    ctx.require("restart_word_inside_skip_window_checked", "a warning-free hand-written TFM in which a SKIP jumps over a restart word");
    ctx.require("redirect_table_with_restart_word_checked", "a warning-free hand-written TFM with restart words in a small lig/kern array");
    ctx.require("trailing_zero_header_word_original_vs_canonical", "an original TFM whose last extra header word is zero compared with its canonical file");
    ctx.require("trailing_zero_header_word_compared", "a generated property list whose last HEADER word is zero compared with its TFM");
    ctx.require("original_not_canonical", "files whose canonical form differs from the original bytes");
    ctx.require("original_already_canonical", "files that are their own canonical form");
    ctx.require("instruction_beyond_255_fired", "a lig/kern instruction at an index above 255 fired (entry-point redirection in use)");
    ctx.require("left_boundary_rule_fired", "a left boundary rule fired");
    ctx.require("right_boundary_rule_fired", "a rule fired against the right boundary character");
    ctx.require("more_than_255_ligkern_words", "fonts with more than 255 lig/kern words");
    ctx.require("char_with_next_larger", "characters with a NEXTLARGER tag compared");
    ctx.require("char_with_extensible_recipe", "characters with a VARCHAR recipe compared");
    for n in ["noncanonical_unsorted_tables", "noncanonical_nonexistent_chars_in_range", "noncanonical_orphan_instruction", "noncanonical_restart_words", "noncanonical_permuted_kerns", "noncanonical_long_header", "noncanonical_next_larger"] {
        ctx.require(n, "hand-written TFM files of this non-canonical form that TFtoPL read without message");
    }
    for n in ["negative_width_compared", "negative_height_compared", "negative_depth_compared", "negative_italic_compared"] {
        ctx.require(n, "a character with a negative value in this field was compared between the property list as written and the TFM");
    }
    ctx.require("negative_italic_original_vs_canonical", "a character with a negative italic correction in an original TFM (not written by pl_to_tfm) compared with the canonical file");
    ctx.require("negative_depth_original_vs_canonical", "a character with a negative depth in an original TFM compared with the canonical file");
    ctx.require("seven_bit_unsafe_fonts", "fonts that are not seven-bit safe");
    ctx.require("ligtable_checked_against_generator", "generated LIGTABLEs whose TFM was compared with the program as written");
    ctx.finish("one evaluation per original TFM file (corpus file, TFM of a generated property list, or hand-written TFM); non-trivial = TFtoPL converts it without any message, so the whole requirement is checked; the rest is skipped and counted by reason");
}
