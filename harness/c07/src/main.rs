//! C07 — not built yet.
fn main() {
    eprintln!("c07: check not built yet");
    std::process::exit(2);
}
