//! C07 — conditionals deliver only the selected branch; `\expandafter` acts on one token; `\noexpand`.
//! DESIGN.md §3 C07. Engine: BEX on a minimal-state VM (shared with C02, `../c02/src/mini.rs`).
//!
//! Oracles (reftex::cond): O1 the token list of a conditional tree *by construction* (letters of the
//! selected branches) cross-checked on every tree against the reference expander; O2 the reference
//! expander (tex.web §358, §366-369, §494-510 transliterated) with the don't-expand marker as a switch.
//! Three-way comparison for `\expandafter`: VM with `get_expandafter_simple`, VM with
//! `get_expandafter_optimized`, reference expander.

#[path = "../../c02/src/mini.rs"]
mod mini;

use mini::*;
use reftex::cond::{self, Cond, Env, FormItem, Head, Item, Meaning, Shape, Stop, Variant};
use reftex::macros::{self as mm, Tok};
use serde_json::{json, Value};
use std::sync::atomic::{AtomicU64, Ordering};
use std::sync::Mutex;
use vcore::{Acc, Ctx, Level};

const END: Tok = Tok::Cs("END");
const LP: Tok = Tok::Ch('(', 12);
const RP: Tok = Tok::Ch(')', 12);

// ---------------------------------------------------------------- model bookkeeping

static MODEL_DISAGREE: AtomicU64 = AtomicU64::new(0);
static MODEL_DISAGREE_MSG: Mutex<Vec<String>> = Mutex::new(Vec::new());
fn model_disagreement(msg: String) {
    if MODEL_DISAGREE.fetch_add(1, Ordering::Relaxed) < 5 {
        MODEL_DISAGREE_MSG.lock().unwrap().push(msg);
    }
}
fn after_family(ctx: &mut Ctx) {
    let n = MODEL_DISAGREE.swap(0, Ordering::Relaxed);
    if n > 0 {
        let msgs = std::mem::take(&mut *MODEL_DISAGREE_MSG.lock().unwrap());
        ctx.machinery_error(format!("the tree oracle (by construction) and the reference expander disagree on {n} case(s); first: {}", msgs.join(" || ")));
    }
}

// ---------------------------------------------------------------- conditional trees

/// operands written with sign strings (§441: signs and blanks before the digits)
const SIGNED: [&str; 8] = ["--3", "-+-3", "+-3", "- 3", "- -3", "-0", "+2", "-- -1"];
const TREE_PREAMBLE: &str = "\\let\\myif=\\iftrue\\let\\myfi=\\fi\\let\\myelse=\\else\\def\\hidfi{\\fi}\\def\\sp{ }\\def\\e{}";
/// `~` is \let to \iftrue or to \fi, depending on what the tree uses it for (never both in one tree).
fn tree_env(f: &cond::TreeFacts) -> (Env, &'static str) {
    let (mut e, _) = (tree_env_base(), ());
    assert!(!(f.active_if && f.active_fi), "a tree uses ~ both as \\iftrue and as \\fi");
    if f.active_if {
        e.insert("~", Meaning::IfTrue);
        (e, "\\let~=\\iftrue")
    } else if f.active_fi {
        e.insert("~", Meaning::Fi);
        (e, "\\let~=\\fi")
    } else {
        (e, "")
    }
}
fn tree_env_base() -> Env {
    let mut e = cond::primitives();
    e.insert("myif", Meaning::IfTrue);
    e.insert("myfi", Meaning::Fi);
    e.insert("myelse", Meaning::Else);
    e.insert("hidfi", Meaning::Macro(vec![Tok::Cs("fi")]));
    e.insert("sp", Meaning::Macro(vec![cond::SPACE]));
    e.insert("e", Meaning::Macro(vec![]));
    e
}

fn variant_json(v: &Variant) -> Value {
    let head = match v.head {
        Head::IfTrue => json!("iftrue"),
        Head::IfFalse => json!("iffalse"),
        Head::AliasTrue => json!("alias-true"),
        Head::IfNum(a, r, b) => json!({"ifnum": [a, r.to_string(), b]}),
        Head::IfOdd(n) => json!({"ifodd": n}),
        Head::IfCase(n) => json!({"ifcase": n}),
        Head::IfOddText(t) => json!({"ifodd_text": t}),
        Head::IfCaseText(t) => json!({"ifcase_text": t}),
        Head::IfNumSpaced(a, r, b, k1, k2, st) => json!({"ifnum_spaced": [a, r.to_string(), b, k1, k2, st]}),
        Head::IfEof(n) => json!({"ifeof": n}),
        Head::IfHarness(b) => json!({"ifharness": b}),
        Head::ActiveTrue => json!("active-true"),
        Head::TrueActiveFi => json!("true-active-fi"),
        Head::FalseActiveFi => json!("false-active-fi"),
    };
    json!({"head": head, "ors": v.ors, "else": v.has_else})
}
fn variant_parse(v: &Value) -> Variant {
    let h = &v["head"];
    let head = if h == "iftrue" {
        Head::IfTrue
    } else if h == "iffalse" {
        Head::IfFalse
    } else if h == "alias-true" {
        Head::AliasTrue
    } else if h == "active-true" {
        Head::ActiveTrue
    } else if h == "true-active-fi" {
        Head::TrueActiveFi
    } else if h == "false-active-fi" {
        Head::FalseActiveFi
    } else if let Some(a) = h["ifnum"].as_array() {
        Head::IfNum(a[0].as_i64().unwrap(), a[1].as_str().unwrap().chars().next().unwrap(), a[2].as_i64().unwrap())
    } else if let Some(t) = h["ifodd_text"].as_str() {
        Head::IfOddText(SIGNED.iter().copied().find(|x| *x == t).expect("known operand text"))
    } else if let Some(t) = h["ifcase_text"].as_str() {
        Head::IfCaseText(SIGNED.iter().copied().find(|x| *x == t).expect("known operand text"))
    } else if let Some(a) = h["ifnum_spaced"].as_array() {
        Head::IfNumSpaced(a[0].as_i64().unwrap(), a[1].as_str().unwrap().chars().next().unwrap(), a[2].as_i64().unwrap(), a[3].as_u64().unwrap() as u8, a[4].as_u64().unwrap() as u8, a[5].as_u64().unwrap() as u8)
    } else if let Some(n) = h["ifeof"].as_i64() {
        Head::IfEof(n)
    } else if let Some(b) = h["ifharness"].as_bool() {
        Head::IfHarness(b)
    } else if let Some(n) = h["ifodd"].as_i64() {
        Head::IfOdd(n)
    } else {
        Head::IfCase(h["ifcase"].as_i64().unwrap())
    };
    Variant::new(head, v["ors"].as_u64().unwrap_or(0) as usize, v["else"].as_bool().unwrap_or(false))
}
fn cond_json(c: &Cond) -> Value {
    json!({"v": variant_json(&c.v), "bodies": c.bodies.iter().map(|b| b.iter().map(|it| match it {
        Item::Letter => json!("L"),
        Item::Junk(t) => json!({"junk": tok_json(*t)}),
        Item::Lit(t) => json!({"lit": tok_json(*t)}),
        Item::Cond(c) => cond_json(c),
    }).collect::<Vec<_>>()).collect::<Vec<_>>()})
}
fn cond_parse(v: &Value) -> Cond {
    Cond {
        v: variant_parse(&v["v"]),
        bodies: v["bodies"]
            .as_array()
            .unwrap()
            .iter()
            .map(|b| {
                b.as_array()
                    .unwrap()
                    .iter()
                    .map(|it| {
                        if it == "L" {
                            Item::Letter
                        } else if let Some(j) = it["junk"].as_str() {
                            Item::Junk(tok_parse(j))
                        } else if let Some(j) = it["lit"].as_str() {
                            Item::Lit(tok_parse(j))
                        } else {
                            Item::Cond(cond_parse(it))
                        }
                    })
                    .collect()
            })
            .collect(),
    }
}

fn text_of(tokens: &[Tok]) -> String {
    render(tokens, false).expect("the token strings of this check can all be written as source text")
}

/// One tree: run, compare with the expectation by construction; the reference expander must agree with
/// the construction as well.
/// `distinct`: count the case among the distinct non-trivial ones (false for re-runs and for trees that
/// another family also enumerates).
fn check_tree(idx: u64, c: &Cond, full_state: bool, distinct: bool, acc: &mut Acc) {
    check_tree_how(idx, c, full_state, distinct, false, false, acc)
}
/// `via_macro`: the tree is the replacement text of a macro `\\t` and is read back from its expansion instead of
/// from the file (only for trees without unbalanced braces); `at_end`: nothing follows the tree in the input.
fn check_tree_how(idx: u64, c: &Cond, full_state: bool, distinct: bool, via_macro: bool, at_end: bool, acc: &mut Acc) {
    acc.eval();
    let r = c.render();
    let mut tokens = vec![LP];
    tokens.extend_from_slice(&r.tokens);
    let mut want = vec![LP];
    want.extend_from_slice(&r.expected);
    if at_end {
        // the end of the line supplies a space token unless the scanner is skipping blanks (after a control word)
        if !via_macro && r.tokens.last() == Some(&cond::ACTIVE) {
            tokens.push(cond::SPACE);
            want.push(cond::SPACE);
        }
        acc.count("tree_is_the_last_thing_in_the_input");
    } else {
        tokens.push(RP);
        tokens.push(END);
        want.push(RP);
        want.push(END);
    }
    if via_macro {
        acc.count("tree_read_back_from_a_macro_expansion");
    }
    // second oracle
    let (env, active_preamble) = tree_env(&r.facts);
    let (x, ev) = cond::expand_all(&env, &tokens, true);
    if x.as_ref() != Ok(&want) {
        model_disagreement(format!("{}: by construction {} / expander {:?}", mm::show(&tokens), mm::show(&want), x));
    }
    let src = if via_macro {
        let tail: &[Tok] = if at_end { &[] } else { &[RP, END] };
        format!("{TREE_PREAMBLE}{active_preamble}\\def\\t{{{}}}(\\t{}", text_of(&r.tokens), render(tail, true).unwrap())
    } else {
        // the space token that the end of the line supplies is not written
        let written = if at_end && tokens.last() == Some(&cond::SPACE) && r.tokens.last() == Some(&cond::ACTIVE) { &tokens[..tokens.len() - 1] } else { &tokens[..] };
        format!("{TREE_PREAMBLE}{active_preamble}{}", text_of(written))
    };
    let out = if full_state { run_full(&src, &[], false) } else { run_m(&src, &[], false) };
    let f = &r.facts;
    if f.some_branch_skipped && f.some_branch_delivered {
        acc.count("trees_with_a_skipped_and_a_delivered_branch");
        if distinct {
            acc.nontrivial();
        }
    }
    for (name, on) in [
        ("aliased_conditional_in_skipped_text", f.aliased_conditional_in_skipped_text),
        ("or_at_depth_gt0_in_skipped_text", f.or_at_depth_gt0_in_skipped_text),
        ("else_at_depth_gt0_in_skipped_text", f.else_at_depth_gt0_in_skipped_text),
        ("ifcase_out_of_range", f.ifcase_out_of_range),
        ("ifcase_negative", f.ifcase_negative),
        ("ifodd_negative_odd_evaluated", f.negative_odd_live),
        ("brace_in_skipped_text", f.brace_in_skipped_text),
        ("live_case_branch_ended_by_or", f.live_branch_ended_by_or),
        ("active_character_conditional_alias_live", f.active_alias_live),
        ("active_character_conditional_alias_in_skipped_text", f.active_alias_in_skipped_text),
        ("skipped_text_contains_ifeof", f.skipped_ifeof),
        ("skipped_text_contains_condition_without_doc", f.skipped_harness_condition),
        ("ifeof_or_harness_condition_evaluated", f.live_ifeof_or_harness_condition),
        ("depth_ge_4", f.depth >= 4),
        ("depth_6", f.depth >= 6),
    ] {
        if on {
            acc.count(name);
        }
    }
    if ev.blanks_before_relation >= 2 {
        acc.count("ifnum_relation_preceded_by_two_or_more_space_tokens");
    }
    let ok = matches!(&out, Outcome::Done(o) if o.err.is_none() && o.toks == want);
    if ok {
        acc.class(&format!("tree ok nodes={} depth={} delivered={}", f.nodes, f.depth, r.expected.len().min(9)));
        return;
    }
    if let Outcome::Cutoff = out {
        acc.cutoffs += 1;
        return;
    }
    acc.count(if f.negative_odd_live { "diag_failing_tree_evaluates_ifodd_on_a_negative_odd_number" } else { "diag_failing_tree_of_any_other_kind" });
    let class = if f.negative_odd_live { "tree DIFFERS (a live \\ifodd on a negative odd number)" } else { "tree DIFFERS (other)" };
    acc.class(&format!("{class} impl={}", out.class()));
    acc.fail(idx, json!({"kind": "tree", "tree": cond_json(c), "full_state": full_state, "via_macro": via_macro, "at_end": at_end, "program": src}), mm::show(&want), out.show(), class);
}

fn wide_variants() -> Vec<Variant> {
    let mut v = vec![];
    for e in [false, true] {
        v.push(Variant::new(Head::IfTrue, 0, e));
        v.push(Variant::new(Head::IfFalse, 0, e));
        v.push(Variant::new(Head::AliasTrue, 0, e));
        for (n, m) in [(0, 0), (1, 0), (0, 1), (1, 1), (2, 1), (-1, 1), (1, 2), (2, 2)] {
            v.push(Variant::new(Head::IfCase(n), m, e));
        }
    }
    v
}
fn deep_variants() -> Vec<Variant> {
    vec![Variant::new(Head::IfTrue, 0, false), Variant::new(Head::IfTrue, 0, true), Variant::new(Head::IfFalse, 0, false), Variant::new(Head::IfFalse, 0, true), Variant::new(Head::IfCase(1), 1, false)]
}
fn forms(with_empty: bool) -> Vec<Vec<FormItem>> {
    use FormItem::*;
    let mut f = vec![vec![L], vec![C], vec![L, C], vec![C, L], vec![C, C]];
    if with_empty {
        f.insert(0, vec![]);
    }
    f
}

/// All decorated versions of a skeleton: the skeleton itself, every single junk insertion and (if
/// `pairs`) every pair of insertions.
fn for_each_decoration(skel: &Cond, pairs: bool, mut f: impl FnMut(&Cond)) {
    f(skel);
    let slots = skel.junk_slots();
    let mut singles: Vec<(usize, usize, Tok)> = vec![];
    for (b, p, c) in &slots {
        for j in cond::junk_menu(*c) {
            singles.push((*b, *p, j));
        }
    }
    for (b, p, j) in &singles {
        let mut t = skel.clone();
        t.insert_junk(*b, *p, *j);
        f(&t);
    }
    if pairs {
        // insert the later slot first so that the earlier position stays valid; same slot: both orders arise
        for (i, a) in singles.iter().enumerate() {
            for b in singles.iter().skip(i) {
                let mut t = skel.clone();
                t.insert_junk(b.0, b.1, b.2);
                t.insert_junk(a.0, a.1, a.2);
                f(&t);
            }
        }
    }
}

/// The full menu of conditions of DESIGN C07 A1.
fn all_conditions() -> Vec<Variant> {
    let mut v = vec![];
    for e in [false, true] {
        v.push(Variant::new(Head::IfTrue, 0, e));
        v.push(Variant::new(Head::IfFalse, 0, e));
        v.push(Variant::new(Head::AliasTrue, 0, e));
        v.push(Variant::new(Head::ActiveTrue, 0, e));
        for (a, b) in [(1i64, 2i64), (2, 2), (2, 1)] {
            for r in ['<', '=', '>'] {
                for k1 in 0..=4u8 {
                    for k2 in 0..=2u8 {
                        for st in 0..=1u8 {
                            v.push(Variant::new(Head::IfNumSpaced(a, r, b, k1, k2, st), 0, e));
                        }
                    }
                }
            }
        }
        v.push(Variant::new(Head::IfEof(0), 0, e));
        v.push(Variant::new(Head::IfEof(15), 0, e));
        v.push(Variant::new(Head::IfHarness(true), 0, e));
        v.push(Variant::new(Head::IfHarness(false), 0, e));
        v.push(Variant::new(Head::TrueActiveFi, 0, e));
        v.push(Variant::new(Head::FalseActiveFi, 0, e));
        let ops = [-2147483647i64, -3, -1, 0, 1, 2, 2147483646, 2147483647];
        for a in ops {
            for r in ['<', '=', '>'] {
                for b in ops {
                    v.push(Variant::new(Head::IfNum(a, r, b), 0, e));
                }
            }
        }
        for n in [3i64, -3, 2, -2, 1, -1, 0, 2147483647, -2147483647, 2147483646, -2147483646] {
            v.push(Variant::new(Head::IfOdd(n), 0, e));
        }
        for t in SIGNED {
            v.push(Variant::new(Head::IfOddText(t), 0, e));
            v.push(Variant::new(Head::IfCaseText(t), 2, e));
        }
        for n in [-2147483647i64, -1, 0, 1, 2, 3, 4, 7, 2147483647] {
            for m in 0..=3 {
                v.push(Variant::new(Head::IfCase(n), m, e));
            }
        }
    }
    v
}

/// Contexts in which a probe conditional is placed (index, description).
const N_CONTEXTS: u64 = 11;
fn in_context(k: u64, p: Cond) -> Cond {
    let l = || Item::Letter;
    let t = |e: bool| Variant::new(Head::IfTrue, 0, e);
    let f = |e: bool| Variant::new(Head::IfFalse, 0, e);
    let case = |n: i64, m: usize, e: bool| Variant::new(Head::IfCase(n), m, e);
    match k {
        0 => p,
        1 => Cond { v: t(false), bodies: vec![vec![l(), Item::Cond(p), l()]] },
        2 => Cond { v: f(true), bodies: vec![vec![l()], vec![Item::Cond(p), l()]] },
        3 => Cond { v: f(false), bodies: vec![vec![l(), Item::Cond(p), l()]] },
        4 => Cond { v: t(true), bodies: vec![vec![l()], vec![Item::Cond(p)]] },
        5 => Cond { v: case(1, 1, false), bodies: vec![vec![l(), Item::Cond(p)], vec![l()]] },
        6 => Cond { v: case(1, 2, false), bodies: vec![vec![l()], vec![Item::Cond(p), l()], vec![l()]] },
        7 => Cond { v: case(5, 1, true), bodies: vec![vec![l()], vec![l()], vec![Item::Cond(p)]] },
        8 => Cond { v: case(0, 0, true), bodies: vec![vec![l()], vec![Item::Cond(p)]] },
        // in a case after the selected one (skipped by the \\or that ends the selected case)
        10 => Cond { v: case(0, 2, false), bodies: vec![vec![l()], vec![Item::Cond(p), l()], vec![l()]] },
        _ => Cond { v: f(false), bodies: vec![vec![Item::Cond(Cond { v: t(false), bodies: vec![vec![Item::Cond(p)]] })]] },
    }
}
fn probe_bodies(v: &Variant, pattern: u64) -> Vec<Vec<Item>> {
    (0..v.branches())
        .map(|_| match pattern {
            0 => vec![Item::Letter],
            1 => vec![Item::Letter, Item::Cond(Cond { v: Variant::new(Head::IfFalse, 0, true), bodies: vec![vec![Item::Letter], vec![Item::Letter]] })],
            // 2-, 3- and 4-byte characters, live and skipped
            3 => vec![Item::Lit(Tok::Ch('\u{e9}', 12)), Item::Letter, Item::Lit(Tok::Ch('\u{20ac}', 12)), Item::Lit(Tok::Ch('\u{1d4b3}', 12))],
            _ => vec![],
        })
        .collect()
}

/// A straight nest of conditionals: level i is variant `levels[i].0`, the next level sits in its body
/// number `levels[i].1` between two letters; all other bodies are one letter.
fn chain(levels: &[(Variant, usize)]) -> Cond {
    let mut inner: Option<Cond> = None;
    for (v, host) in levels.iter().rev() {
        let bodies = (0..v.branches())
            .map(|b| {
                if b == *host {
                    match inner.take() {
                        Some(c) => vec![Item::Letter, Item::Cond(c), Item::Letter],
                        None => vec![Item::Letter],
                    }
                } else {
                    vec![Item::Letter]
                }
            })
            .collect();
        inner = Some(Cond { v: v.clone(), bodies });
    }
    inner.unwrap()
}

// ---------------------------------------------------------------- \expandafter / \noexpand strings

struct XEnv {
    name: &'static str,
    preamble: &'static str,
    env: Env,
    alphabet: Vec<Tok>,
}
fn x_envs() -> Vec<XEnv> {
    let cs = Tok::Cs;
    let base = vec![cs("xa"), cs("noexpand"), cs("a"), cs("b"), cs("c"), cs("relax"), Tok::Ch('x', 11), cs("iftrue"), cs("iffalse"), cs("else"), cs("fi")];
    let mk = |a: Vec<Tok>, c: Vec<Tok>, xb: bool| {
        let mut e = cond::primitives();
        e.insert("a", Meaning::Macro(a));
        e.insert("b", Meaning::Macro(vec![Tok::Ch('y', 11)]));
        e.insert("c", Meaning::Macro(c));
        if xb {
            e.insert("xb", Meaning::ExpandAfter);
        }
        e
    };
    let with_active = |mut e: Env, m: Meaning| {
        e.insert("~", m);
        e
    };
    let with_tilde = |b: &Vec<Tok>| {
        let mut v = b.clone();
        v.push(cond::ACTIVE);
        v
    };
    let with_aliases = |mut e: Env| {
        e.insert("nx", Meaning::NoExpand);
        e.insert("q", Meaning::Unexpandable);
        e
    };
    let with_alias_symbols = |b: &Vec<Tok>| {
        let mut v = b.clone();
        v.push(cs("nx"));
        v.push(cs("q"));
        v
    };
    let mut with_xb = base.clone();
    with_xb.push(cs("xb"));
    vec![
        XEnv { name: "chain", preamble: "\\def\\a{\\b}\\def\\b{y}\\def\\c{}", env: mk(vec![cs("b")], vec![], false), alphabet: base.clone() },
        XEnv { name: "xa-in-body", preamble: "\\def\\a{\\xa\\b\\c}\\def\\b{y}\\def\\c{}", env: mk(vec![cs("xa"), cs("b"), cs("c")], vec![], false), alphabet: base.clone() },
        XEnv { name: "two-names", preamble: "\\let\\xb=\\xa\\def\\a{\\b}\\def\\b{y}\\def\\c{}", env: mk(vec![cs("b")], vec![], true), alphabet: with_xb },
        XEnv { name: "body-boundary", preamble: "\\def\\a{\\xa\\b}\\def\\b{y}\\def\\c{\\noexpand}", env: mk(vec![cs("xa"), cs("b")], vec![cs("noexpand")], false), alphabet: base.clone() },
        // the active character ~ as a macro / as a conditional: a command reference that is not a control sequence
        XEnv { name: "active-macro", preamble: "\\def~{\\b}\\def\\a{\\b}\\def\\b{y}\\def\\c{}", env: with_active(mk(vec![cs("b")], vec![], false), Meaning::Macro(vec![cs("b")])), alphabet: with_tilde(&base) },
        XEnv { name: "active-iffalse", preamble: "\\let~=\\iffalse\\def\\a{\\b}\\def\\b{y}\\def\\c{}", env: with_active(mk(vec![cs("b")], vec![], false), Meaning::IfFalse), alphabet: with_tilde(&base) },
        // for the structured programs: both names of the primitive and the active macro
        XEnv { name: "two-names-and-active-macro", preamble: "\\let\\xb=\\xa\\def~{\\b}\\def\\a{\\b}\\def\\b{y}\\def\\c{}", env: with_active(mk(vec![cs("b")], vec![], true), Meaning::Macro(vec![cs("b")])), alphabet: with_tilde(&base) },
        // \\noexpand under a second name, and an unexpandable command that is not a primitive: \\q \\let to the letter x
        XEnv { name: "aliases", preamble: "\\let\\nx=\\noexpand\\let\\q=x\\def\\a{\\b}\\def\\b{y}\\def\\c{}", env: with_aliases(mk(vec![cs("b")], vec![], false)), alphabet: with_alias_symbols(&base) },
    ]
}

#[derive(PartialEq, Debug, Clone)]
enum Verdict {
    Tokens(Vec<Tok>),
    Fails(String),
}
fn verdict_of_vm(o: &Outcome) -> Option<Verdict> {
    match o {
        Outcome::Done(r) => Some(match &r.err {
            None => Verdict::Tokens(r.toks.clone()),
            Some(e) => Verdict::Fails(e.clone()),
        }),
        Outcome::Panic(_) => None,
        Outcome::Cutoff => None,
    }
}
fn same(a: &Verdict, b: &Verdict) -> bool {
    match (a, b) {
        (Verdict::Tokens(x), Verdict::Tokens(y)) => x == y,
        (Verdict::Fails(_), Verdict::Fails(_)) => true,
        _ => false,
    }
}
fn show_verdict(v: &Verdict) -> String {
    match v {
        Verdict::Tokens(t) => format!("delivers [{}]", mm::show(t)),
        Verdict::Fails(e) => format!("fails ({e})"),
    }
}

fn check_string(idx: u64, xe: &XEnv, env_no: usize, toks: &[Tok], full_state: bool, distinct: bool, acc: &mut Acc) {
    acc.eval();
    let mut tokens = toks.to_vec();
    tokens.push(END);
    let (tex, ev) = cond::expand_all(&xe.env, &tokens, true);
    // \q is \let to the letter x: what the implementation's handlers see of it is that letter
    let delivered = |t: Vec<Tok>| -> Vec<Tok> { t.into_iter().map(|x| if x == Tok::Cs("q") { Tok::Ch('x', 11) } else { x }).collect() };
    let tex = match tex {
        Ok(t) => Verdict::Tokens(delivered(t)),
        Err(Stop::Budget) => {
            acc.cutoffs += 1;
            return;
        }
        Err(Stop::OutsideDomain(_)) | Err(Stop::Undefined(_)) => {
            acc.skipped += 1;
            return;
        }
        Err(s) => Verdict::Fails(format!("{s:?}")),
    };
    let src = format!("{}{}", xe.preamble, text_of(&tokens));
    let case = || json!({"kind": "string", "env": env_no, "env_name": xe.name, "tokens": toks_json(toks), "full_state": full_state, "program": src});
    let run = |opt: bool| if full_state { run_full(&src, &[], opt) } else { run_m(&src, &[], opt) };
    let (s, o) = (run(false), run(true));
    // counters from the case / the model
    let is_xa = |t: &Tok| *t == Tok::Cs("xa") || *t == Tok::Cs("xb");
    if ev.xa_chain >= 3 {
        acc.count("expandafter_chain_ge_3");
    }
    if toks.windows(2).any(|w| is_xa(&w[0]) && w[1] == Tok::Cs("noexpand")) {
        acc.count("noexpand_directly_after_expandafter");
    }
    if ev.xa_on_noexpand_expandable {
        acc.count("expandafter_step_on_noexpand_expandable");
    }
    if ev.marker_dropped_by_backup {
        acc.count("marker_dropped_by_back_input");
    }
    if toks.contains(&Tok::Cs("nx")) && ev.expansions > 0 {
        acc.count("noexpand_under_a_second_name");
    }
    if toks.windows(3).any(|w| is_xa(&w[0]) && w[2] == Tok::Cs("q")) {
        acc.count("expandafter_target_is_a_let_character_alias");
    }
    if ev.xa_expands_active_char {
        acc.count("expandafter_expands_an_active_character");
    }
    if toks.contains(&cond::ACTIVE) && ev.expansions > 0 {
        acc.count("active_character_in_expandafter_program");
    }
    if ev.marked_token_skipped {
        acc.count("marked_token_inside_skipped_text");
    }
    if toks.windows(3).any(|w| is_xa(&w[0]) && is_xa(&w[2]) && w[0] != w[2]) {
        acc.count("chain_mixing_two_names_of_expandafter");
    }
    let expanded_something = ev.expansions > 0;
    if expanded_something && toks.iter().any(is_xa) && matches!(tex, Verdict::Tokens(_)) {
        acc.count("strings_where_expandafter_acts_and_tex_delivers");
        if distinct {
            acc.nontrivial();
        }
    }
    for (which, out) in [("simple", &s), ("optimized", &o)] {
        match out {
            Outcome::Panic(p) => {
                acc.fail(idx, case(), show_verdict(&tex), p.describe(), format!("the VM with the {which} \\expandafter panicked"));
                return;
            }
            Outcome::Cutoff => {
                acc.cutoffs += 1;
                return;
            }
            _ => {}
        }
    }
    let (vs, vo) = (verdict_of_vm(&s).unwrap(), verdict_of_vm(&o).unwrap());
    if !same(&vs, &vo) {
        acc.class("string DIFFERS simple vs optimized");
        acc.fail(idx, case(), format!("both implementations of \\expandafter behave alike (TeX: {})", show_verdict(&tex)), format!("simple {} / optimized {}", show_verdict(&vs), show_verdict(&vo)), "get_expandafter_simple and get_expandafter_optimized are distinguishable");
        return;
    }
    if same(&vs, &tex) {
        acc.class(match &tex {
            Verdict::Tokens(t) => {
                if t.len() <= 1 {
                    "string ok (nothing but the end marker delivered)"
                } else {
                    "string ok"
                }
            }
            Verdict::Fails(_) => "string ok (all three fail)",
        });
        return;
    }
    // Ill-formed for TeX (extra \fi/\else/\or, input ending inside \expandafter / \noexpand / skipped text): TeX
    // reports an error there, but the property states nothing about such inputs except that the two
    // implementations of \expandafter are indistinguishable (checked above). Recorded, not judged.
    if let Verdict::Fails(why) = &tex {
        acc.count("ill_formed_for_tex_where_the_implementation_delivers_tokens");
        acc.class(&format!("string not judged: TeX reports {}, the implementation delivers tokens", why.split('(').next().unwrap_or("")));
        return;
    }
    // D18: predicate on the case (computed by the model) + adjusted expectation (marker lost when the
    // expansion step was requested by \expandafter)
    if ev.xa_on_noexpand_expandable {
        let adj = match cond::expand_all(&xe.env, &tokens, false).0 {
            Ok(t) => Some(Verdict::Tokens(delivered(t))),
            Err(Stop::Budget) | Err(Stop::OutsideDomain(_)) | Err(Stop::Undefined(_)) => None,
            Err(s) => Some(Verdict::Fails(format!("{s:?}"))),
        };
        if let Some(adj) = adj {
            if same(&vs, &adj) {
                acc.class("string: known finding D18 (don't-expand marker lost under \\expandafter)");
                acc.known("D18", idx, || {
                    let mut w = case();
                    w["tex_delivers"] = json!(show_verdict(&tex));
                    w["texcraft_delivers"] = json!(show_verdict(&vs));
                    w
                });
                return;
            }
        }
    }
    acc.class(&format!("string DIFFERS from the reference expander (D18 predicate {})", ev.xa_on_noexpand_expandable));
    acc.fail(idx, case(), show_verdict(&tex), format!("simple and optimized both: {}", show_verdict(&vs)), "the VM (both \\expandafter implementations) differs from the reference expander, and the difference is not the known class D18");
}

// ---------------------------------------------------------------- model self-validation

fn self_validate() -> Result<(), String> {
    // expectations recorded in the repository's own tests, replayed through the reference expander.
    // crates/texlang-stdlib/src/expansion.rs: simple_case, only_expands_once, expandafter_and_noexpand_* (parameterless parts),
    // crates/texlang-stdlib/src/conditional.rs: iftrue_*/iffalse_*/ifnum_*/ifodd_*/ifcase_* families.
    let mut e = cond::primitives();
    e.insert("A", Meaning::Macro(vec![Tok::Cs("B")]));
    e.insert("B", Meaning::Macro(lex("Hello")));
    e.insert("a", Meaning::Macro(lex("Hello")));
    let cases: &[(&str, &str, &str)] = &[
        ("expansion.rs simple_case", r"\noexpand\a", r"\a"),
        ("expansion.rs only_expands_once", r"\xa\noexpand\A", r"\B"),
        ("conditional.rs iftrue_base_case", r"\iftrue a\else b\fi c", "ac"),
        ("conditional.rs iftrue_no_else", r"\iftrue a\fi c", "ac"),
        ("conditional.rs iftrue_skip_nested_ifs", r"\iftrue a\else b\iftrue \else c\fi d\fi e", "ae"),
        ("conditional.rs iffalse_base_case", r"\iffalse a\else b\fi c", "bc"),
        ("conditional.rs iffalse_no_else", r"\iffalse a\fi c", "c"),
        ("conditional.rs iffalse_skip_nested_ifs", r"\iffalse \iftrue a\else b\fi c\else d\fi e", "de"),
        ("conditional.rs iffalse_and_iftrue_1", r"\iffalse a\else b\iftrue c\else d\fi e\fi f", "bcef"),
        ("conditional.rs iffalse_and_iftrue_2", r"\iftrue a\iffalse b\else c\fi d\else e\fi f", "acdf"),
        ("conditional.rs ifnum_less_than_true", r"\ifnum 4<5a\else b\fi c", "ac"),
        ("conditional.rs ifnum_less_than_false", r"\ifnum 5<4a\else b\fi c", "bc"),
        ("conditional.rs ifnum_equal_true_1", r"\ifnum 4=4a\else b\fi c", "ac"),
        ("conditional.rs ifnum_equal_false", r"\ifnum 5=4a\else b\fi c", "bc"),
        ("conditional.rs ifnum_greater_than_true", r"\ifnum 5>4a\else b\fi c", "ac"),
        ("conditional.rs ifnum_greater_than_false", r"\ifnum 4>5a\else b\fi c", "bc"),
        ("conditional.rs ifodd_odd", r"\ifodd 3a\else b\fi c", "ac"),
        ("conditional.rs ifodd_even", r"\ifodd 4a\else b\fi c", "bc"),
        ("conditional.rs ifcase_zero_no_ors", r"\ifcase 0 a\else b\fi c", "ac"),
        ("conditional.rs ifcase_zero_one_or", r"\ifcase 0 a\or b\else c\fi d", "ad"),
        ("conditional.rs ifcase_one", r"\ifcase 1 a\or b\else c\fi d", "bd"),
        ("conditional.rs ifcase_one_more_cases", r"\ifcase 1 a\or b\or c\else d\fi e", "be"),
        ("conditional.rs ifcase_else_no_ors", r"\ifcase 1 a\else b\fi c", "bc"),
        ("conditional.rs ifcase_else_one_or", r"\ifcase 2 a\or b\else c\fi d", "cd"),
        ("conditional.rs ifcase_no_matching_case", r"\ifcase 3 a\or b\or c\fi d", "d"),
        ("conditional.rs ifcase_nested", r"\ifcase 1 a\or b\ifcase 1 c\or d\or e\else f\fi g\or h\fi i", "bdgi"),
    ];
    for (name, src, want) in cases {
        let (got, _) = cond::expand_all(&e, &lex(src), true);
        if got.as_ref() != Ok(&lex(want)) {
            return Err(format!("{name}: reference expander gives {got:?}, the repository's test expects {want}"));
        }
    }
    // TeX §368/§358 facts that the repository has no test for (stated from the program text)
    let e2 = {
        let mut e = cond::primitives();
        e.insert("a", Meaning::Macro(vec![Tok::Cs("b")]));
        e.insert("b", Meaning::Macro(lex("y")));
        e
    };
    if cond::expand_all(&e2, &lex(r"\xa\a\noexpand\a"), true).0 != Ok(lex(r"y\a")) || cond::expand_all(&e2, &lex(r"\xa\a\noexpand\a"), false).0 != Ok(lex("yy")) {
        return Err("the marker switch of the reference expander does not behave as documented".into());
    }
    // enumerator: bijection on a small shape
    let s = Shape::new(deep_variants(), forms(false), 3, 3);
    let mut seen = std::collections::HashSet::new();
    for i in 0..s.total() {
        if !seen.insert(format!("{:?}", s.unrank(i))) {
            return Err(format!("tree enumerator produces a duplicate at index {i}"));
        }
    }
    Ok(())
}

// ---------------------------------------------------------------- main

fn main() {
    let mut ctx = Ctx::new("C07", Level::Exploration);
    ctx.assume("operands of \\ifnum / \\ifodd / \\ifcase are decimal constants, each terminated by a space token (the unterminated idiom `\\ifnum1<2\\else`, where TeX inserts \\relax while the condition is still being scanned, is outside the property's quantifier: design item D6b); cases in which the reference expander meets that situation are skipped, not judged");
    ctx.assume("junk in skipped text is restricted to what TeX skips silently: braces and a macro hiding \\fi anywhere, \\or and \\else only where the skipping routine is at nesting level >= 1 (at level 0 they would belong to the conditional being skipped)");
    ctx.assume("\\if, \\ifx, \\ifcat, \\ifdim do not exist in this stdlib (DESIGN C07 X); macros are parameterless; every control sequence of the alphabets is defined; on strings that are ill-formed for TeX (extra \\fi/\\else/\\or, input ending inside \\expandafter/\\noexpand/skipped text) only 'simple and optimized are indistinguishable' is judged; whether the implementation also reports an error there is recorded as an outcome class");
    ctx.assume("trusted: reftex::cond (tree expectation by construction, cross-checked on every tree against the reference expander §358/§366-369/§494-510; expander validated on 26 expectations copied from the repository's conditional.rs/expansion.rs tests). The marker semantics (§358, §367-369: marker survives until the token is next read, back_input drops it) is taken from the text of tex.web; no TeX binary is available");
    if let Err(e) = self_validate() {
        ctx.machinery_error(format!("model self-validation failed: {e}"));
        ctx.finish("not run");
    }
    // Every conditional primitive that the real stdlib installs must be a node variant of the trees: enumerate the
    // built-in map (by tag of \\iftrue/\\else/\\or/\\fi and, independently, by name) and refuse to run if one is unknown.
    {
        use vtex::texlang_stdlib as sl;
        let real = sl::built_in_commands::<vtex::HState>();
        let tag_of = |n: &str| real.get(n).and_then(|b| b.cmd().tag());
        let known_if = ["iftrue", "iffalse", "ifnum", "ifodd", "ifcase", "ifeof"];
        let known_other = ["else", "or", "fi"];
        let if_tag = tag_of("iftrue");
        let closers = [tag_of("else"), tag_of("or"), tag_of("fi")];
        if if_tag.is_none() || closers.iter().any(|t| t.is_none()) {
            ctx.machinery_error("\\iftrue / \\else / \\or / \\fi carry no tag in the stdlib's built-in map");
        }
        for (name, b) in &real {
            let t = b.cmd().tag();
            let by_tag_if = t.is_some() && t == if_tag;
            let by_tag_closer = t.is_some() && closers.contains(&t);
            if (by_tag_if || name.starts_with("if")) && !known_if.contains(name) {
                ctx.machinery_error(format!("the stdlib installs the conditional \\{name}, which is not a node variant of this check's trees"));
            }
            if by_tag_closer && !known_other.contains(name) {
                ctx.machinery_error(format!("the stdlib installs \\{name} with the tag of \\else/\\or/\\fi, unknown to this check"));
            }
        }
        for n in known_if.iter().chain(known_other.iter()) {
            if !real.contains_key(n) {
                ctx.machinery_error(format!("\\{n} is no longer in the stdlib's built-in map"));
            }
        }
    }
    let xenvs = x_envs();

    if let Some((_fam, case)) = ctx.replay_case() {
        let mut acc = Acc::default();
        let full = case["full_state"].as_bool().unwrap_or(false);
        match case["kind"].as_str() {
            Some("tree") => check_tree_how(0, &cond_parse(&case["tree"]), full, true, case["via_macro"].as_bool().unwrap_or(false), case["at_end"].as_bool().unwrap_or(false), &mut acc),
            Some("truncation") => {
                acc.eval();
                if let Outcome::Panic(p) = run_m(case["program"].as_str().unwrap_or(""), &[], case["optimized"].as_bool().unwrap_or(false)) {
                    acc.fail(0, case.clone(), "no panic", p.describe(), "panic on a truncated program");
                }
            }
            Some("string") => {
                let k = case["env"].as_u64().unwrap_or(0) as usize;
                check_string(0, &xenvs[k], k, &toks_parse(&case["tokens"]), full, true, &mut acc)
            }
            _ => {
                eprintln!("replay: unknown case kind");
                std::process::exit(2);
            }
        }
        after_family(&mut ctx);
        ctx.finish_replay(acc);
    }
    let thorough = !ctx.quick();
    let string_maxlens: [u32; 8] = ctx.pick([6, 5, 5, 5, 5, 5, 0, 5], [7, 7, 7, 7, 7, 6, 0, 6]); // index = environment; 0 = no string family (environment 6 serves expandafter-structured)
    let wide_nodes: usize = ctx.pick(2, 3);

    if std::env::var("C07_COUNTS").is_ok() {
        for (n, d) in [(2, 2), (3, 3), (4, 4)] {
            let s = Shape::new(wide_variants(), forms(true), n, d);
            eprintln!("wide  nodes<={n} depth<={d}: {}", s.total());
        }
        for (n, d) in [(4, 3), (5, 3), (5, 4), (6, 4), (7, 4), (7, 5)] {
            let s = Shape::new(deep_variants(), forms(false), n, d);
            eprintln!("deep  nodes<={n} depth<={d}: {}", s.total());
        }
        std::process::exit(0);
    }

    // T1: every kind / operand in every context
    {
        let conds = all_conditions();
        // 4 body patterns x (read from the file | read back from a macro expansion) x (followed by `)\\END` | last thing in the input)
        let radices = [conds.len() as u64, N_CONTEXTS, 4, 2, 2];
        let n = vcore::product(&radices);
        let cref = &conds;
        ctx.family(
            "conditions-in-contexts",
            &format!("{} conditions (\\iftrue, \\iffalse, \\let-alias, \\ifnum with 0-4 / 0-2 space tokens produced by macros before the relation / before the second operand, \\ifeof 0 / 15 (never opened: true), two conditionals the harness implements through the public Condition trait without DOC (\\ifht true, \\ifhf false), the active character ~ \\let to \\iftrue, ~ \\let to \\fi closing an \\iftrue / \\iffalse, \\ifnum a R b for a,b in {{-(2^31-1),-3,-1,0,1,2,2^31-2,2^31-1}} x R in {{<,=,>}}, \\ifodd n for n in {{+-3,+-2,+-1,0,+-(2^31-2),+-(2^31-1)}}, \\ifodd and \\ifcase with 8 sign-string operands (--3, -+-3, +-3, - 3, - -3, -0, +2, -- -1), \\ifcase n for n in {{-(2^31-1),-1,0,1,2,3,4,7,2^31-1}} with 0-3 \\or; each with and without \\else) x 11 contexts (top level; live/skipped then- and else-branch; skipped / live / else branch of an \\ifcase, a case after the selected one; two levels inside skipped text) x 4 body patterns (letter; letter + nested \\iffalse..\\else..\\fi; empty; letter + U+00E9 U+20AC U+1D4B3) x read from the file / read back from a macro expansion x followed by )\\END / last thing in the input", conds.len()),
            n,
            |i, acc| {
                let d = vcore::digits(i, &radices);
                let v = &cref[d[0] as usize];
                let p = Cond { v: v.clone(), bodies: probe_bodies(v, d[2]) };
                let c = in_context(d[1], p);
                // \\iftrue / \\iffalse / alias / \\ifcase probes also occur in the tree families: counted there
                let distinct = d[3] + d[4] > 0 || d[2] == 3 || matches!(v.head, Head::IfNum(..) | Head::IfNumSpaced(..) | Head::IfOdd(_) | Head::IfOddText(_) | Head::IfCaseText(_) | Head::IfEof(_) | Head::IfHarness(_) | Head::ActiveTrue | Head::TrueActiveFi | Head::FalseActiveFi);
                if matches!(v.head, Head::IfOddText(_) | Head::IfCaseText(_)) {
                    acc.count("operand_with_a_sign_string");
                }
                if d[2] == 3 {
                    acc.count("non_ascii_tokens_in_branches");
                }
                check_tree_how(i, &c, false, distinct, d[3] == 1, d[4] == 1, acc);
                if i % 40_009 == 17 {
                    acc.sample(i, || json!({"program": text_of(&c.render().tokens), "via_macro": d[3] == 1, "at_end": d[4] == 1}));
                }
            },
        );
        after_family(&mut ctx);
    }

    // T1b: the programs of T1 (body pattern 1, read from the file) cut off after every character: no panic
    {
        let conds = all_conditions();
        let mut progs: Vec<String> = vec![];
        for v in &conds {
            for k in 0..N_CONTEXTS {
                let c = in_context(k, Cond { v: v.clone(), bodies: probe_bodies(v, 1) });
                let r = c.render();
                let (_, ap) = tree_env(&r.facts);
                let mut t = vec![LP];
                t.extend_from_slice(&r.tokens);
                t.push(RP);
                t.push(END);
                progs.push(format!("{ap}{}", text_of(&t)));
            }
        }
        // plus \\expandafter / \\noexpand programs
        for p in ["\\def\\a{\\b}\\def\\b{y}\\xa\\xa\\xa\\a\\xa\\noexpand\\b\\a x\\END", "\\let\\xb=\\xa\\def\\a{\\b}\\def\\b{y}\\xb\\iffalse\\noexpand\\a\\else\\xa x\\fi\\a\\END"] {
            progs.push(p.to_string());
        }
        let mut offs = vec![];
        let mut n = 0u64;
        for p in &progs {
            offs.push(n);
            n += p.len() as u64;
        }
        let (pref, oref) = (&progs, &offs);
        ctx.family("truncations", &format!("{} programs (every condition in every context with nested bodies, two \\expandafter programs) cut off after every character, run with both \\expandafter implementations: no panic", progs.len()), 2 * n, |i, acc| {
            let (j, opt) = (i / 2, i % 2 == 1);
            let k = oref.partition_point(|o| *o <= j) - 1;
            let cut = (j - oref[k]) as usize;
            if !pref[k].is_char_boundary(cut) {
                acc.skipped += 1;
                return;
            }
            let src = format!("{TREE_PREAMBLE}{}", &pref[k][..cut]);
            acc.eval();
            acc.count("truncated_programs");
            match run_m(&src, &[], opt) {
                Outcome::Panic(p) => acc.fail(i, json!({"kind": "truncation", "program": src, "optimized": opt}), "no panic", p.describe(), "panic on a truncated program"),
                Outcome::Cutoff => acc.cutoffs += 1,
                o => acc.class(&format!("truncated: {}", o.class())),
            }
        });
        after_family(&mut ctx);
    }

    // T2: all trees over the wide menu, with junk decorations
    {
        let (nodes, depth) = (wide_nodes, wide_nodes);
        let pairs = thorough;
        let shape = Shape::new(wide_variants(), forms(true), nodes, depth);
        let n = shape.total();
        let sref = &shape;
        ctx.family(
            "trees-wide",
            &format!("every conditional tree with <= {nodes} nodes (depth <= {depth}) over 22 node variants (\\iftrue, \\iffalse, alias; \\ifcase (n, #\\or) in {{(0,0),(1,0),(0,1),(1,1),(2,1),(-1,1),(1,2),(2,2)}}; each with/without \\else), bodies in {{empty, L, C, LC, CL, CC}} (L = unique letter, C = nested conditional): {n} skeletons; each skeleton with <= 2 nodes also with every single{} insertion of junk ({{ }} \\hidfi; \\or \\else at level >= 1) at every position of every skipped body", if pairs { " and every pair of" } else { "" }),
            n,
            |i, acc| {
                let skel = sref.unrank(i);
                let mut k = 0u64;
                if skel.render().facts.nodes <= 2 {
                    for_each_decoration(&skel, pairs, |c| {
                        check_tree(i, c, false, true, acc);
                        k += 1;
                    });
                    acc.count_n("junk_decorated_trees", k - 1);
                } else {
                    check_tree(i, &skel, false, true, acc);
                }
                if i % 30011 == 7 {
                    acc.sample(i, || json!({"program": text_of(&skel.render().tokens), "decorations": k.saturating_sub(1)}));
                }
            },
        );
        after_family(&mut ctx);
    }

    // T3: deeper trees over a small menu
    {
        let (nodes, depth, deco_nodes) = ctx.pick((5usize, 4usize, 3usize), (6, 4, 4));
        let shape = Shape::new(deep_variants(), forms(false), nodes, depth);
        let n = shape.total();
        let sref = &shape;
        ctx.family(
            "trees-deep",
            &format!("every conditional tree with <= {nodes} nodes and depth <= {depth} over 5 node variants (\\iftrue, \\iffalse with/without \\else; \\ifcase 1 with one \\or), bodies in {{L, C, LC, CL, CC}}: {n} skeletons; those with <= {deco_nodes} nodes also with every single junk insertion"),
            n,
            |i, acc| {
                let skel = sref.unrank(i);
                let mut k = 0u64;
                // every tree of this family with <= wide_nodes nodes is also a tree of trees-wide
                let distinct = skel.render().facts.nodes > wide_nodes;
                if skel.render().facts.nodes <= deco_nodes {
                    for_each_decoration(&skel, false, |c| {
                        check_tree(i, c, false, distinct, acc);
                        k += 1;
                    });
                    acc.count_n("junk_decorated_trees", k - 1);
                } else {
                    check_tree(i, &skel, false, distinct, acc);
                }
                if i % 100_003 == 9 {
                    acc.sample(i, || json!({"program": text_of(&skel.render().tokens), "decorations": k.saturating_sub(1)}));
                }
            },
        );
        after_family(&mut ctx);
    }

    // T4: depth-6 chains with <= 2 deviations from a uniform chain
    {
        const DEPTH: usize = 6;
        let wide = wide_variants();
        let mut pairs: Vec<(Variant, usize)> = vec![];
        for v in &wide {
            for b in 0..v.branches() {
                pairs.push((v.clone(), b));
            }
        }
        let bases: Vec<(Variant, usize)> = vec![(Variant::new(Head::IfTrue, 0, false), 0), (Variant::new(Head::IfFalse, 0, true), 1), (Variant::new(Head::IfCase(1), 1, false), 1), (Variant::new(Head::IfFalse, 0, false), 0)];
        let np = pairs.len() as u64;
        let slots2 = (DEPTH * (DEPTH - 1) / 2) as u64;
        let per_base = 1 + DEPTH as u64 * np + slots2 * np * np;
        let n = bases.len() as u64 * per_base;
        let (pref, bref) = (&pairs, &bases);
        ctx.family(
            "chains-depth-6",
            &format!("straight nests of depth 6: 4 uniform base chains (all \\iftrue; all \\iffalse..\\else nested in the else branch; all \\ifcase 1 nested after the \\or; all \\iffalse nested in the skipped branch) with <= 2 levels replaced by any of the {np} (variant, hosting branch) pairs of the wide menu; every body carries letters"),
            n,
            |i, acc| {
                let base = &bref[(i / per_base) as usize];
                let mut j = i % per_base;
                let mut levels: Vec<(Variant, usize)> = vec![base.clone(); DEPTH];
                // a "deviation" equal to the base level repeats a chain that has fewer deviations
                let mut distinct = true;
                if j == 0 {
                } else if j <= DEPTH as u64 * np {
                    j -= 1;
                    levels[(j / np) as usize] = pref[(j % np) as usize].clone();
                    distinct = pref[(j % np) as usize] != *base;
                } else {
                    j -= 1 + DEPTH as u64 * np;
                    let slot = j / (np * np);
                    let (mut a, mut b, mut k) = (0usize, 1usize, 0u64);
                    'f: for x in 0..DEPTH {
                        for y in x + 1..DEPTH {
                            if k == slot {
                                a = x;
                                b = y;
                                break 'f;
                            }
                            k += 1;
                        }
                    }
                    let r = j % (np * np);
                    levels[a] = pref[(r / np) as usize].clone();
                    levels[b] = pref[(r % np) as usize].clone();
                    distinct = levels[a] != *base && levels[b] != *base;
                }
                let c = chain(&levels);
                check_tree(i, &c, false, distinct, acc);
                if i % 20011 == 3 {
                    acc.sample(i, || json!({"program": text_of(&c.render().tokens)}));
                }
            },
        );
        after_family(&mut ctx);
    }

    // X1..X4: \expandafter / \noexpand strings, three-way
    for (k, xe) in xenvs.iter().enumerate() {
        let maxlen = string_maxlens[k];
        if maxlen == 0 {
            continue;
        }
        let a = xe.alphabet.len() as u64;
        let n = vcore::strings_upto(a, maxlen) - 1;
        ctx.family(
            &format!("expandafter-strings-{}", xe.name),
            &format!("every token string of length 1..{maxlen} over {{{}}} after `{}`, followed by the end marker; three executions: VM with get_expandafter_simple, VM with get_expandafter_optimized, reference expander", xe.alphabet.iter().map(|t| mm::show(&[*t])).collect::<Vec<_>>().join(" "), xe.preamble),
            n,
            |i, acc| {
                let toks: Vec<Tok> = vcore::nth_string(a, i + 1).into_iter().map(|j| xe.alphabet[j as usize]).collect();
                check_string(i, xe, k, &toks, false, true, acc);
                if i % 50_021 == 13 {
                    acc.sample(i, || json!({"program": format!("{}{}", xe.preamble, text_of(&toks))}));
                }
            },
        );
        after_family(&mut ctx);
    }

    // X5: structured \\expandafter programs that the short strings cannot reach
    {
        let xe = &xenvs[6]; // \\xb is a second name of the primitive, ~ is an active macro
        let cs = Tok::Cs;
        let x = Tok::Ch('x', 11);
        // (a) flat chains  \\xa t1 \\xa t2 ... \\xa tk T rest
        let maxk = ctx.pick(8u32, 11u32);
        let targets: Vec<Vec<Tok>> = vec![vec![cs("a")], vec![cs("b")], vec![cs("c")], vec![x], vec![cs("relax")], vec![cs("noexpand"), cs("a")], vec![cs("noexpand"), x], vec![cs("iftrue")], vec![cs("iffalse"), x, cs("else")], vec![cs("xa"), x, cs("a")], vec![cs("xb"), cs("noexpand"), cs("a")], vec![cond::ACTIVE], vec![cs("noexpand"), cond::ACTIVE], vec![cs("xa"), x, cond::ACTIVE]];
        let rests: Vec<Vec<Tok>> = vec![vec![], vec![cs("a")], vec![x, cs("fi")]];
        let n_flat: u64 = (1..=maxk).map(|k| 2u64.pow(k)).sum::<u64>() * 3 * targets.len() as u64 * rests.len() as u64;
        // (b) pyramids: the idiom that expands n tokens in reverse order (2^(n-i)-1 \\expandafter before token i)
        let menu: Vec<Vec<Tok>> = vec![vec![cs("a")], vec![cs("b")], vec![cs("c")], vec![x], vec![cs("noexpand"), cs("a")], vec![cond::ACTIVE]];
        let maxn = ctx.pick(4u32, 5u32);
        let n_pyr: u64 = (2..=maxn).map(|n| (menu.len() as u64).pow(n) * 2).sum();
        let (tref, rref, mref) = (&targets, &rests, &menu);
        ctx.family(
            "expandafter-structured",
            &format!("(a) flat chains \\xa t1 .. \\xa tk T rest for k <= {maxk}, every ti in {{x, \\a}}, the k names of the primitive all \\xa / all \\xb / alternating, 14 targets T (macros, the active macro ~, x, \\relax, \\noexpand\\a, \\noexpand x, \\iftrue, \\iffalse x\\else, nested \\xa x\\a, \\xb\\noexpand\\a), 3 continuations; (b) the reverse-order idiom with 2^(n-i)-1 \\expandafter in front of token i for n <= {maxn} tokens from a 6-item menu (incl. ~), with one or both names of the primitive; three executions each"),
            n_flat + n_pyr,
            |i, acc| {
                let mut toks: Vec<Tok> = vec![];
                if i < n_flat {
                    let per_k = 3 * tref.len() as u64 * rref.len() as u64;
                    let mut j = i;
                    let mut k = 1u32;
                    while j >= 2u64.pow(k) * per_k {
                        j -= 2u64.pow(k) * per_k;
                        k += 1;
                    }
                    let d = vcore::digits(j, &[2u64.pow(k), 3, tref.len() as u64, rref.len() as u64]);
                    for b in 0..k {
                        let name = match d[1] {
                            0 => "xa",
                            1 => "xb",
                            _ => {
                                if b % 2 == 0 {
                                    "xa"
                                } else {
                                    "xb"
                                }
                            }
                        };
                        toks.push(cs(name));
                        toks.push(if (d[0] >> b) & 1 == 0 { x } else { cs("a") });
                    }
                    toks.extend_from_slice(&tref[d[2] as usize]);
                    toks.extend_from_slice(&rref[d[3] as usize]);
                } else {
                    let mut j = i - n_flat;
                    let mut n = 2u32;
                    while j >= (mref.len() as u64).pow(n) * 2 {
                        j -= (mref.len() as u64).pow(n) * 2;
                        n += 1;
                    }
                    let two_names = j % 2 == 1;
                    let d = vcore::digits(j / 2, &vec![mref.len() as u64; n as usize]);
                    for (pos, item) in d.iter().enumerate() {
                        let count = 2u64.pow(n - 1 - pos as u32) - 1;
                        for c in 0..count {
                            toks.push(cs(if two_names && c % 2 == 1 { "xb" } else { "xa" }));
                        }
                        toks.extend_from_slice(&mref[*item as usize]);
                    }
                }
                check_string(i, xe, 6, &toks, false, toks.len() > string_maxlens[2] as usize, acc);
                acc.count("structured_expandafter_programs");
                if i % 20_011 == 5 {
                    acc.sample(i, || json!({"program": format!("{}{}", xe.preamble, text_of(&toks))}));
                }
            },
        );
        after_family(&mut ctx);
    }

    // W: wiring conformance on the full harness state
    {
        let shape = Shape::new(wide_variants(), forms(true), ctx.pick(1, 2), 2);
        let nt = shape.total();
        let xe = &xenvs[0];
        let a = xe.alphabet.len() as u64;
        let ns = vcore::strings_upto(a, ctx.pick(2, 4)) - 1;
        let sref = &shape;
        ctx.family("full-state-slice", &format!("on vtex::HState (full stdlib state and built-ins) instead of the minimal state: the {nt} skeletons of trees-wide with <= {} nodes, and the {ns} shortest strings of expandafter-strings-chain (both \\expandafter implementations)", ctx.pick(1, 2)), nt + ns, |i, acc| {
            if i < nt {
                check_tree(i, &sref.unrank(i), true, false, acc);
            } else {
                let toks: Vec<Tok> = vcore::nth_string(a, i - nt + 1).into_iter().map(|j| xe.alphabet[j as usize]).collect();
                check_string(i, xe, 0, &toks, true, false, acc);
            }
            acc.count("full_state_runs");
        });
        after_family(&mut ctx);
    }

    ctx.require("aliased_conditional_in_skipped_text", "skipped text contains a conditional written through \\let aliases");
    ctx.require("or_at_depth_gt0_in_skipped_text", "an \\or at nesting level > 0 inside skipped text");
    ctx.require("else_at_depth_gt0_in_skipped_text", "an \\else at nesting level > 0 inside skipped text");
    ctx.require("ifcase_out_of_range", "\\ifcase with a value beyond the last \\or");
    ctx.require("ifcase_negative", "\\ifcase with a negative value");
    ctx.require("ifodd_negative_odd_evaluated", "\\ifodd evaluated on a negative odd number");
    ctx.require("brace_in_skipped_text", "an unbalanced brace in skipped text");
    ctx.require("live_case_branch_ended_by_or", "the selected \\ifcase branch is ended by \\or");
    ctx.require("depth_6", "a tree of nesting depth 6");
    ctx.require("junk_decorated_trees", "trees with junk inserted into skipped text");
    ctx.require("expandafter_chain_ge_3", "an \\expandafter expanding an \\expandafter expanding an \\expandafter");
    ctx.require("noexpand_directly_after_expandafter", "\\noexpand directly after \\expandafter");
    ctx.require("expandafter_step_on_noexpand_expandable", "an \\expandafter performs its expansion step on \\noexpand followed by an expandable token (the D18 predicate)");
    ctx.require("marker_dropped_by_back_input", "a marked token is read and backed up (TeX drops the marker)");
    ctx.require("marked_token_inside_skipped_text", "a marked \\fi/\\else/\\if.. is passed over while skipping");
    ctx.require("chain_mixing_two_names_of_expandafter", "a chain \\xa t \\xb mixing two names of the primitive");
    ctx.require("expandafter_expands_an_active_character", "the token an \\expandafter expands is an active character (a command reference that is not a control sequence)");
    ctx.require("active_character_conditional_alias_live", "a conditional primitive reached through the active character ~ in live text");
    ctx.require("active_character_conditional_alias_in_skipped_text", "... in skipped text");
    ctx.require("noexpand_under_a_second_name", "\\noexpand reached through \\let\\nx=\\noexpand");
    ctx.require("expandafter_target_is_a_let_character_alias", "the token after the next one is an unexpandable command that is not a primitive (\\let\\q=x)");
    ctx.require("operand_with_a_sign_string", "an \\ifodd / \\ifcase operand written with several signs and blanks");
    ctx.require("non_ascii_tokens_in_branches", "2/3/4-byte characters in live and skipped branches");
    ctx.require("tree_read_back_from_a_macro_expansion", "a conditional whose tokens (skipped text included) come from a macro expansion instead of the file");
    ctx.require("tree_is_the_last_thing_in_the_input", "the closing \\fi is the last token of the input");
    ctx.require("truncated_programs", "programs cut off at every position");
    ctx.require("ifnum_relation_preceded_by_two_or_more_space_tokens", "two or more space tokens (from \\sp macros / around an empty macro) between the first \\ifnum operand and the relation");
    ctx.require("skipped_text_contains_ifeof", "an \\ifeof .. \\fi inside skipped text");
    ctx.require("skipped_text_contains_condition_without_doc", "a conditional built from a Condition without DOC inside skipped text");
    ctx.require("ifeof_or_harness_condition_evaluated", "\\ifeof / the harness conditionals evaluated in live text");
    ctx.require("structured_expandafter_programs", "long chains and reverse-order pyramids of \\expandafter");
    ctx.require("full_state_runs", "cases re-run on the full vtex::HState");
    ctx.finish("trees: every tree of the enumerated families on a fresh VM, compared token by token with the letters of the selected branches (non-trivial = at least one branch skipped and at least one delivered); strings: every token string of the family run three times (non-trivial = contains \\expandafter, something was expanded and TeX delivers tokens). distinct_nontrivial counts a case once: re-runs on the full state are not counted, trees of trees-deep / conditions-in-contexts / chains and programs of expandafter-structured that another family also enumerates are counted only there (the counters trees_with_a_skipped_and_a_delivered_branch and strings_where_expandafter_acts_and_tex_delivers give the totals with repetitions)");
}
